#!/usr/bin/env python3
import subprocess, re
t = subprocess.run(["python3", "/verif/tools_seed_table.py"], capture_output=True, text=True).stdout
s = open("/verif/DESIGN.md").read()
s = re.sub(r"<!-- SEEDED-TABLE-BEGIN -->.*<!-- SEEDED-TABLE-END -->", "<!-- SEEDED-TABLE-BEGIN -->\n" + t.strip() + "\n<!-- SEEDED-TABLE-END -->", s, flags=re.S)
open("/verif/DESIGN.md", "w").write(s)
print("table rows:", t.count("\n") - 2)
