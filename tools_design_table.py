#!/usr/bin/env python3
import subprocess, re
t = subprocess.run(["python3", "/verif/tools_seed_table.py"], capture_output=True, text=True).stdout
s = open("/verif/DESIGN.md").read()
b, e = "<!-- SEEDED-TABLE-BEGIN -->", "<!-- SEEDED-TABLE-END -->"
s = s[: s.index(b) + len(b)] + "\n" + t.strip() + "\n" + s[s.index(e):]
open("/verif/DESIGN.md", "w").write(s)
print("table rows:", t.count("\n") - 2)
