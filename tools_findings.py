#!/usr/bin/env python3
"""Maintain known_findings.jsonl: every fixed entry carries the subject of its fix: commit; this tool
(re)resolves the short hash from /repo's history (hashes change if the fix series is rebased)."""
import json, subprocess, sys
path = "/verif/known_findings.jsonl"
out = []
for line in open(path):
    if not line.strip():
        continue
    d = json.loads(line)
    if d["status"] == "fixed":
        if "subject" not in d:
            d["subject"] = subprocess.run(["git", "-C", "/repo", "log", "-1", "--format=%s", d["commit"]], capture_output=True, text=True).stdout.strip()
        h = subprocess.run(["git", "-C", "/repo", "log", "--format=%h", "--fixed-strings", "--grep", d["subject"]], capture_output=True, text=True).stdout.split()
        if not h:
            print("NOT IN HISTORY:", d["subject"]); d["commit"] = "?"
        else:
            old = d["commit"]
            d["commit"] = h[0]
            d["what"] = d["what"].replace(old, h[0])
    out.append(d)
with open(path, "w") as f:
    for d in out:
        f.write(json.dumps(d) + "\n")
print(len(out), "entries")
