#!/bin/sh
# Offline setup: nothing to build; self-test the reference models and check /repo imports.
cd "$(dirname "$0")" || exit 1
set -e
for m in mc/ref/*.py; do
  n=$(basename "$m" .py)
  [ "$n" = "__init__" ] && continue
  /venv/bin/python -m "mc.ref.$n"
done
cd /repo && /venv/bin/python -c "import sys; sys.path.insert(0,'/repo'); import buidl; print('buidl import ok', buidl.__file__)"
