"""C17 — Merkle roots, SPV inclusion proofs, headers, proof of work, compact bits, retargeting.

Engines (all exhaustive over their stated bounds, oracle = mc.ref.merkleref):
  root        merkle_root / merkle_parent_level / Block.validate_merkle_root for every length in a range
  spv-honest  every leaf count 1..N x all 2^n match sets: reference-built BIP37 proof must validate and
              prove exactly the matched ids in order
  spv-sizes   every block size in a range (+ boundary sizes to 5000 and beyond) x structured match sets
  spv-tamper  every proof of the small trees x every single-bit alteration of hashes / flags / total /
              header root, dropped / extra / duplicated / swapped hashes (is_valid() True => only block
              ids proved; altered hash list / root => is_valid() not True)
  header      80-byte header codec, hash, id over field boundary products and a full byte sweep
  compact     bits_to_target vs SetCompact, target_to_bits vs GetCompact
  pow         check_pow vs CheckProofOfWork with real hashes (nonce sweeps on both sides of the target)
              and with the hash function replaced by an enumerated digest at the target boundary
  retarget    calculate_new_bits vs CalculateNextWorkRequired across both clamps
  chain       HeadersMessage.is_valid over all chains of <= 3 (4) harness-mined headers with each
              link / proof of work broken
"""
import struct
from io import BytesIO

from mc.core import Engine, Res, attempt, Rejected, filler
from mc.ref import merkleref as R

PROP = "C17"
U256 = (1 << 256) - 1


def le4(c):
    return struct.pack("<I", c)


# ------------------------------------------------------------------ shared data
_LEAVES = {}


def leaves_for(seed, n):
    """n distinct 32-byte leaf hashes (internal order); a prefix-closed family per seed."""
    cur = _LEAVES.setdefault(seed, [])
    while len(cur) < n:
        cur.append(filler(seed, "leaf", len(cur)))
    return cur[:n]


def proof_header(seed, root):
    return R.ser_header(0x20000000, filler(seed, "prev", 0), root[::-1], 1500000000, 0x207FFFFF, 7)


def shape_class(n):
    if n == 1:
        return "n=1"
    if n & (n - 1) == 0:
        return "n=2^k"
    return "n-with-odd-level"


# ------------------------------------------------------------------ engine: root
def root_lengths(tier):
    top = 64 if tier == "quick" else 1100
    s = set(range(1, top + 1))
    for k in range(1, 13):
        s |= {2**k - 1, 2**k, 2**k + 1}
    s |= {5000, 3519}
    if tier == "thorough":
        s |= {2**13 - 1, 2**13, 2**13 + 1, 16666, 2**15 + 1}
    s.discard(0)
    return sorted(s)


def gen_root(tier, seed):
    return [{"n": n, "seed": seed} for n in root_lengths(tier)]


def run_root(case):
    from buidl.block import Block
    from buidl.helper import merkle_parent_level, merkle_root

    res = Res()
    n, seed = case["n"], case["seed"]
    vc = {"engine": "root", "case": case}
    leaves = leaves_for(seed, n)
    want = R.merkle_root(leaves)
    sc = shape_class(n)
    nt = n if n >= 2 else None
    arg = list(leaves)
    got = attempt(merkle_root, arg)
    if got != want:
        res.violation(f"C17/root/merkle_root/{sc}", vc, got, want, "merkle_root differs from Bitcoin's Merkle root")
    else:
        res.ok("merkle_root==ref", nt, sample={"n": n, "root": want.hex()} if n in (1, 2, 3, 5, 11) else None)
    if arg != list(leaves):
        # the statement does not forbid it; a second evaluation on the modified list must still be right
        res.notes["argument_lists_modified_by_merkle_root"] = res.notes.get("argument_lists_modified_by_merkle_root", 0) + 1
        again = attempt(merkle_root, arg)
        if again != want:
            res.violation(f"C17/root/merkle_root-second-call/{sc}", vc, again, want, "merkle_root on the list it modified gives another root")
        else:
            res.ok("merkle_root-second-call==ref")
    if n >= 2:
        lvl = attempt(merkle_parent_level, list(leaves))
        wl = [R.dsha(leaves[i] + (leaves[i + 1] if i + 1 < n else leaves[i])) for i in range(0, n, 2)]
        if lvl != wl:
            res.violation(f"C17/root/merkle_parent_level/{'odd' if n % 2 else 'even'}", vc, str(lvl)[:200], str(wl)[:200], "merkle_parent_level differs from pairwise double-SHA256 with last-element duplication")
        else:
            res.ok("parent_level==ref", ("lvl", n))
    # Block.validate_merkle_root: accepts the right root, rejects near misses
    ids = [h[::-1] for h in leaves]

    def vmr(root_id):
        b = Block(1, b"\x00" * 32, root_id, 0, le4(0x207FFFFF), b"\x00" * 4, tx_hashes=list(ids))
        return b.validate_merkle_root()

    r = attempt(vmr, want[::-1])
    if r is not True:
        res.violation(f"C17/root/validate_merkle_root/rejects-correct/{sc}", vc, r, True, "validate_merkle_root rejects the correct root")
    else:
        res.ok("validate==True", nt)
    bit = n % 256
    flipped = bytearray(want[::-1])
    flipped[bit // 8] ^= 1 << (bit % 8)
    wrongs = {"bitflip": bytes(flipped), "unreversed": want}
    if n >= 2:
        wrongs["ids-not-reversed"] = R.merkle_root(ids)[::-1]
        wrongs["first-two-swapped"] = R.merkle_root([leaves[1], leaves[0]] + leaves[2:])[::-1]
    if n >= 2 and n % 2 == 0:
        wrongs["last-duplicated"] = R.merkle_root(leaves + [leaves[-1]])[::-1]
    if n >= 3 and n % 2 == 1:
        wrongs["no-duplication(last promoted)"] = _root_promote(leaves)[::-1]
    for nm, w in wrongs.items():
        if w == want[::-1]:
            res.skip("near-miss root equals the real root")
            continue
        r = attempt(vmr, w)
        if r is True:
            res.violation(f"C17/root/validate_merkle_root/accepts-{nm}", vc, True, False, "validate_merkle_root accepts a wrong root")
        else:
            res.ok("validate-wrong-root-rejected", ("w", n, nm))
    return res


def _root_promote(leaves):
    """A *wrong* construction (odd element promoted unhashed) used only as a near miss."""
    level = list(leaves)
    while len(level) > 1:
        nxt = [R.dsha(level[i] + level[i + 1]) for i in range(0, len(level) - 1, 2)]
        if len(level) % 2:
            nxt.append(level[-1])
        level = nxt
    return level[0]


# ------------------------------------------------------------------ SPV proofs: helpers
def mask_bits(n, mask):
    return [(mask >> i) & 1 for i in range(n)]


def lib_check(raw):
    """Parse a merkleblock message with the library, validate, return (valid?, proved ids)."""
    from buidl.merkleblock import MerkleBlock

    def go():
        mb = MerkleBlock.parse(BytesIO(raw))
        v = mb.is_valid()
        return v, list(mb.proved_txs())

    r = attempt(go)
    if isinstance(r, Rejected):
        return False, [], r.how
    v, p = r
    return (v is True), p, ("True" if v is True else repr(v))


def honest_eval(res, engine, case, n, leaves, match, memo, root, hdr, nt_key, sample=False):
    vc = {"engine": engine, "case": case}
    bits, hs = R.build_partial(leaves, match, memo)
    raw = R.ser_merkleblock(hdr, n, hs, R.pack_bits(bits))
    ok, proved, how = lib_check(raw)
    want = [leaves[i][::-1] for i in range(n) if match[i]]
    sc = shape_class(n)
    if not ok:
        res.violation(f"C17/{engine}/honest-proof-rejected/{sc}", vc, how, True, f"a BIP37 proof built per the specification does not validate (n={n}, {sum(match)} matched)")
        return
    if proved != want:
        res.violation(
            f"C17/{engine}/proved-ids-differ/{sc}",
            vc,
            [p.hex() if isinstance(p, bytes) else repr(p) for p in proved][:6],
            [w.hex() for w in want][:6],
            f"proved_txs() is not the list of matched ids in block order (n={n})",
        )
        return
    res.ok("honest:valid+proved==matched", nt_key, sample={"n": n, "matched": sum(match), "hashes": len(hs), "flag_bits": len(bits)} if sample else None)


# ------------------------------------------------------------------ engine: spv-honest
def gen_spv_honest(tier, seed):
    top = 10 if tier == "quick" else 15
    chunk = 16 if tier == "quick" else 64
    cases = []
    for n in range(1, top + 1):
        for lo in range(0, 1 << n, chunk):
            cases.append({"n": n, "lo": lo, "hi": min(1 << n, lo + chunk), "seed": seed})
    return cases


def run_spv_honest(case):
    res = Res()
    n, seed = case["n"], case["seed"]
    leaves = leaves_for(seed, n)
    root = R.merkle_root(leaves)
    hdr = proof_header(seed, root)
    memo = {}
    for mask in range(case["lo"], case["hi"]):
        honest_eval(res, "spv-honest", case, n, leaves, mask_bits(n, mask), memo, root, hdr, (n, mask) if n >= 2 else None, sample=(mask == 5 and n in (3, 7)))
    return res


# ------------------------------------------------------------------ engine: spv-reuse (E2: histories on ONE MerkleBlock object)
def gen_spv_reuse(tier, seed):
    top = 5 if tier == "quick" else 7
    return [{"n": n, "mask": mask, "seed": seed} for n in range(1, top + 1) for mask in range(1, 1 << n)]


def run_spv_reuse(case):
    """validate -> alter the same object in place -> validate -> restore -> validate.  Every verdict and every list of
    proved ids must equal what a FRESH object parsed from the same (altered) data gives, and an altered hash must not
    validate: state kept on the object between calls is exposed."""
    from buidl.merkleblock import MerkleBlock

    res = Res()
    n, seed, mask = case["n"], case["seed"], case["mask"]
    leaves = leaves_for(seed, n)
    match = mask_bits(n, mask)
    root = R.merkle_root(leaves)
    hdr = proof_header(seed, root)
    bits, hs = R.build_partial(leaves, match, {})
    raw = R.ser_merkleblock(hdr, n, hs, R.pack_bits(bits))
    vc = {"engine": "spv-reuse", "case": case}
    mb = attempt(lambda: MerkleBlock.parse(BytesIO(raw)))
    if isinstance(mb, Rejected):
        res.violation("C17/spv-reuse/parse", vc, repr(mb), "parses", "honest merkleblock does not parse")
        return res
    block_ids = {l[::-1] for l in leaves}

    def observe():
        v = attempt(mb.is_valid)
        p = attempt(lambda: list(mb.proved_txs()))
        return (v is True), (p if not isinstance(p, Rejected) else None)

    def fresh():
        return lib_check(R.ser_merkleblock(hdr, mb.total, [h[::-1] for h in mb.hashes], bytes(mb.flags)))[:2]

    first = observe()
    res.transitions += 1
    if not first[0]:
        res.violation("C17/spv-reuse/honest-rejected", vc, first, True, "honest proof does not validate")
        return res
    alterations = []
    for j in range(len(mb.hashes)):
        alterations.append((f"hash{j}-bitflip", j))
    alterations += [("drop-last-hash", None), ("append-hash", None), ("flags-bit0", None), ("total+1", None)]
    for name, j in alterations:
        saved = (list(mb.hashes), bytes(mb.flags), mb.total)
        if name.endswith("bitflip"):
            h = bytearray(mb.hashes[j])
            h[5] ^= 0x10
            mb.hashes[j] = bytes(h)
        elif name == "drop-last-hash":
            mb.hashes.pop()
        elif name == "append-hash":
            mb.hashes.append(b"\x5a" * 32)
        elif name == "flags-bit0":
            f = bytearray(mb.flags)
            if f:
                f[0] ^= 1
            mb.flags = bytes(f)
        else:
            mb.total += 1
        got = observe()
        want = fresh()
        res.transitions += 1
        cls = name.split("-")[0].rstrip("0123456789")
        if got[0] != want[0] or (got[0] and got[1] != want[1]):
            res.violation(f"C17/spv-reuse/stale-after-alteration/{cls}", dict(vc, case=dict(case, alteration=name)), got, want, f"after altering the same MerkleBlock object in place ({name}) is_valid()/proved_txs() differ from a fresh object parsed from the altered data")
        elif got[0] and got[1] is not None and not set(got[1]) <= block_ids:
            res.violation(f"C17/spv-reuse/foreign-id-proved/{cls}", dict(vc, case=dict(case, alteration=name)), got, "only block ids", "altered proof validates and proves a foreign id")
        elif got[0] and name.endswith("bitflip"):
            res.violation(f"C17/spv-reuse/altered-hash-validates", dict(vc, case=dict(case, alteration=name)), got, False, "proof with an altered hash validates")
        else:
            res.ok("altered in place == fresh object", nontrivial=(n, mask, name))
        mb.hashes, mb.flags, mb.total = list(saved[0]), saved[1], saved[2]
        back = observe()
        res.transitions += 1
        if back != first:
            res.violation(f"C17/spv-reuse/not-restored/{cls}", dict(vc, case=dict(case, alteration=name)), back, first, "after restoring the original data the object does not validate as before")
            return res
    res.states += 1 + 2 * len(alterations)
    return res


# ------------------------------------------------------------------ engine: spv-sizes
def size_list(tier):
    s = set()
    for k in range(1, 13):
        s |= {2**k - 1, 2**k, 2**k + 1}
    s |= {5000, 3519}
    full = set(range(1, (600 if tier == "quick" else 5000) + 1))
    if tier == "thorough":
        s |= {2**13 - 1, 2**13, 2**13 + 1, 2**14 + 1, 16666, 2**16 + 1}
    return sorted(s - {0}), sorted(full)


def structured_sets(n, rich):
    sets = {"first": {0}, "last": {n - 1}, "middle": {n // 2}, "odds": set(range(1, n, 2)) or {0}}
    if rich:
        sets.update(
            {
                "none": set(),
                "all": set(range(n)),
                "first+last": {0, n - 1},
                "evens": set(range(0, n, 2)),
                "first-half": set(range(0, (n + 1) // 2)),
                "second-half": set(range(n // 2, n)),
                "every-third": set(range(0, n, 3)),
                "pow2-positions": {p for j in range(0, 20) for p in (2**j - 1, 2**j) if p < n},
                "last-two": {max(0, n - 2), n - 1},
            }
        )
    return sets


def gen_spv_sizes(tier, seed):
    rich, full = size_list(tier)
    cases = [{"n": n, "rich": True, "seed": seed} for n in rich]
    cases += [{"n": n, "rich": False, "seed": seed} for n in full if n not in set(rich)]
    return cases


def run_spv_sizes(case):
    res = Res()
    n, seed = case["n"], case["seed"]
    leaves = leaves_for(seed, n)
    memo = {}
    t = R.PartialTreeShape(n)
    root = t.calc_hash(t.height, 0, leaves, memo)
    hdr = proof_header(seed, root)
    seen = set()
    for nm, st in structured_sets(n, case["rich"]).items():
        key = frozenset(st)
        if key in seen:
            continue
        seen.add(key)
        match = [1 if i in st else 0 for i in range(n)]
        honest_eval(res, "spv-sizes", case, n, leaves, match, memo, root, hdr, (n, nm) if n >= 2 else None, sample=(n == 5000 and nm == "odds"))
    return res


# ------------------------------------------------------------------ engine: spv-tamper
TOTAL_BITS_ALL = 17  # total-count bits 0..16 are flipped for every proof
SMALL_N = 3  # bits 17..hi_bit only for the proofs of trees with <= 3 leaves
MUST_FAIL = ("hash-bit", "root-bit", "drop-hash", "dup-hash", "extra-hash", "swap-hash")


def gen_spv_tamper(tier, seed):
    top = 7 if tier == "quick" else 10
    hi_bit = 20 if tier == "quick" else 24
    cases = []
    # large transaction counts make the library allocate 2^(b+1) node slots: only the proofs of the smallest
    # trees, scheduled first (they are the slowest cases)
    for b in range(hi_bit, TOTAL_BITS_ALL - 1, -1):
        for n in range(1, SMALL_N + 1):
            for mask in range(1 << n):
                cases.append({"n": n, "mask": mask, "seed": seed, "totalbit": b})
    for n in range(top, 0, -1):
        for mask in range(1 << n):
            cases.append({"n": n, "mask": mask, "seed": seed, "hib": hi_bit})
    return cases


def tampers(n, hashes, flag_bytes, foreign, only_totalbit=None):
    """Yield (class, detail, total, hashes, flag_bytes, root_xor) for every alteration."""
    if only_totalbit is not None:
        yield ("total-bit", only_totalbit, n ^ (1 << only_totalbit), hashes, flag_bytes, None)
        return
    for i, h in enumerate(hashes):
        for b in range(256):
            x = bytearray(h)
            x[b // 8] ^= 1 << (b % 8)
            yield ("hash-bit", (i, b), n, hashes[:i] + [bytes(x)] + hashes[i + 1 :], flag_bytes, None)
    for b in range(256):
        yield ("root-bit", b, n, hashes, flag_bytes, b)
    for i in range(len(flag_bytes)):
        for b in range(8):
            x = bytearray(flag_bytes)
            x[i] ^= 1 << b
            yield ("flag-bit", (i, b), n, hashes, bytes(x), None)
    yield ("flags-resize", "drop-last", n, hashes, flag_bytes[:-1], None)
    for v in (0x00, 0x01, 0x80, 0xFF):
        yield ("flags-resize", f"append-{v:02x}", n, hashes, flag_bytes + bytes([v]), None)
    for b in range(TOTAL_BITS_ALL):
        yield ("total-bit", b, n ^ (1 << b), hashes, flag_bytes, None)
    for v in sorted({0, n - 1, n + 1, 2 * n, 2 * n + 1, (n + 1) // 2} - {n}):
        if v >= 0:
            yield ("total-set", v, v, hashes, flag_bytes, None)
    for i in range(len(hashes)):
        yield ("drop-hash", i, n, hashes[:i] + hashes[i + 1 :], flag_bytes, None)
        yield ("dup-hash", i, n, hashes[: i + 1] + [hashes[i]] + hashes[i + 1 :], flag_bytes, None)
        if i + 1 < len(hashes):
            yield ("swap-hash", i, n, hashes[:i] + [hashes[i + 1], hashes[i]] + hashes[i + 2 :], flag_bytes, None)
    for pos in sorted({0, len(hashes)}):
        yield ("extra-hash", pos, n, hashes[:pos] + [foreign] + hashes[pos:], flag_bytes, None)


def run_spv_tamper(case):
    res = Res()
    n, mask, seed = case["n"], case["mask"], case["seed"]
    vc = {"engine": "spv-tamper", "case": case}
    leaves = leaves_for(seed, n)
    idset = {h[::-1] for h in leaves}
    root = R.merkle_root(leaves)
    hdr = proof_header(seed, root)
    match = mask_bits(n, mask)
    bits, hs = R.build_partial(leaves, match)
    fb = R.pack_bits(bits)
    foreign = filler(seed, "foreign", 0)
    ok, proved, how = lib_check(R.ser_merkleblock(hdr, n, hs, fb))
    if not ok:
        res.skip("honest proof rejected (reported by spv-honest)")
        return res
    for cls, detail, total, hashes2, fb2, rootbit in tampers(n, hs, fb, foreign, case.get("totalbit")):
        h2 = hdr
        if rootbit is not None:
            x = bytearray(hdr)
            x[36 + rootbit // 8] ^= 1 << (rootbit % 8)
            h2 = bytes(x)
        raw = R.ser_merkleblock(h2, total, hashes2, fb2)
        ok, proved, how = lib_check(raw)
        key = (n, mask, cls, detail)
        if not ok:
            res.ok(f"{cls}:rejected", key)
            continue
        foreign_ids = [p for p in proved if p not in idset]
        if foreign_ids:
            res.violation(
                f"C17/spv-tamper/foreign-id-proved/{cls}",
                vc,
                {"tamper": [cls, detail], "total": total, "proved": [p.hex() if isinstance(p, bytes) else repr(p) for p in proved][:4]},
                "is_valid() False, or only block ids proved",
                "an altered proof validates and proves an id that is not in the block",
            )
        elif cls in MUST_FAIL:
            res.violation(
                f"C17/spv-tamper/altered-proof-validates/{cls}",
                vc,
                {"tamper": [cls, detail], "is_valid": True},
                "validation fails",
                "a proof with an altered hash list / header root still validates",
            )
        else:
            r = R.extract_matches(total, hashes2, fb2)
            ref_ok = r is not None and r[0][::-1] == R.parse_header(h2)["root_id"]
            res.ok(f"{cls}:accepted-benign(only block ids proved; reference {'accepts' if ref_ok else 'rejects'})", key, sample={"n": n, "mask": mask, "tamper": [cls, detail]} if cls != "flag-bit" else None)
    if "totalbit" not in case:
        hib = case.get("hib", 20)
        res.skip(f"transaction-count bits {hib + 1}..31 (the library allocates the whole tree: >= 2^{hib + 2} node slots)", 31 - hib)
        if n > SMALL_N:
            res.skip(f"transaction-count bits {TOTAL_BITS_ALL}..{hib} for trees with more than {SMALL_N} leaves (time/memory budget)", hib - TOTAL_BITS_ALL + 1)
    return res


# ------------------------------------------------------------------ engine: header
VERSIONS = [0, 1, 2, 4, 0x20000000, 0x3FFFFFFF, 0x7FFFFFFF, 0x80000000, 0xFFFFFFFF]
TIMES = [0, 1, 0x7FFFFFFF, 0x80000000, 0xFFFFFFFF, 1231006505]
BITS_CODEC = [0, 0x1D00FFFF, 0x207FFFFF, 0xFFFFFFFF, 0x01000000, 0x00FFFFFF]
NONCES = [0, 1, 0x01020304, 0x80000000, 0xFFFFFFFF]


def hash_alphabet(seed, label):
    return [b"\x00" * 32, b"\xff" * 32, b"\x01" + b"\x00" * 31, b"\x00" * 31 + b"\x01", filler(seed, label, 0)]


def gen_header(tier, seed):
    cases = []
    for vi in range(len(VERSIONS)):
        for pi in range(5):
            cases.append({"kind": "product", "v": vi, "p": pi, "seed": seed})
    nb = 1 if tier == "quick" else 3
    for b in range(nb):
        for pos in range(80):
            cases.append({"kind": "bytesweep", "base": b, "pos": pos, "seed": seed})
    return cases


def header_eval(res, vc, raw, nt):
    from buidl.block import Block

    f = R.parse_header(raw)
    want_fields = (f["version"], f["prev_id"], f["root_id"], f["time"], le4(f["bits"]), le4(f["nonce"]))
    blk = attempt(Block.parse_header, BytesIO(raw))
    if isinstance(blk, Rejected):
        res.violation("C17/header/parse-rejected", vc, repr(blk), "parses", "an 80-byte header is rejected by parse_header")
        return
    got = attempt(lambda: (blk.version, bytes(blk.prev_block), bytes(blk.merkle_root), blk.timestamp, bytes(blk.bits), bytes(blk.nonce)))
    if got != want_fields:
        bad = "?" if isinstance(got, Rejected) else ",".join(nm for nm, a, b in zip(("version", "prev_block", "merkle_root", "timestamp", "bits", "nonce"), got, want_fields) if a != b)
        res.violation(f"C17/header/parse-fields/{bad}", vc, str(got)[:300], str(want_fields)[:300], "parsed header fields differ from the encoded ones")
    else:
        res.ok("parse-fields==ref", nt)
    ser = attempt(blk.serialize)
    if ser != raw:
        res.violation("C17/header/reserialize", vc, ser, raw, "parse_header -> serialize does not reproduce the 80 bytes")
    else:
        res.ok("reserialize==raw")
    built = attempt(lambda: Block(*want_fields).serialize())
    if built != raw:
        res.violation("C17/header/serialize", vc, built, raw, "Block(...).serialize() differs from the reference header encoding")
    else:
        res.ok("serialize==ref")
    hid = R.header_id(raw)
    h = attempt(blk.hash)
    if h != hid:
        res.violation("C17/header/hash", vc, h, hid, "hash() is not the reversed double-SHA256 of the 80 header bytes")
    else:
        res.ok("hash==ref")
    i = attempt(blk.id)
    if i != hid.hex():
        res.violation("C17/header/id", vc, i, hid.hex(), "id() is not the hex block hash")
    else:
        res.ok("id==ref")


def run_header(case):
    res = Res()
    seed = case["seed"]
    vc = {"engine": "header", "case": case}
    if case["kind"] == "product":
        v = VERSIONS[case["v"]]
        prev = hash_alphabet(seed, "hprev")[case["p"]]
        for ri, root in enumerate(hash_alphabet(seed, "hroot")):
            for t in TIMES:
                for b in BITS_CODEC:
                    for nn in NONCES:
                        header_eval(res, vc, R.ser_header(v, prev, root, t, b, nn), (case["v"], case["p"], ri, t, b, nn))
    else:
        base = bytearray(filler(seed, "hdrbase", case["base"], 80))
        pos = case["pos"]
        for val in range(256):
            base[pos] = val
            header_eval(res, vc, bytes(base), (case["base"], pos, val))
    return res


# ------------------------------------------------------------------ engine: compact
MANT_BOUNDARY = [0x00, 0x01, 0x7F, 0x80, 0xFF]


def structured_mantissas():
    s = set()
    for hi in range(256):
        for mid in MANT_BOUNDARY:
            for lo in MANT_BOUNDARY:
                s.add((hi << 16) | (mid << 8) | lo)
                s.add((mid << 16) | (hi << 8) | lo)
                s.add((mid << 16) | (lo << 8) | hi)
    s |= {0x123456, 0x00D86A, 0x0404CB, 0x008000, 0x007FFF, 0x010000, 0x00FFFF}
    return sorted(s)


def bits_class(c):
    e = c >> 24
    if e < 3:
        return "exp<3"
    if c & 0x00800000:
        return "sign-bit"
    if R.set_compact(c)[2]:
        return "overflow"
    return "regular"


def target_class(t):
    if t == 0:
        return "zero"
    if t < 1 << 16:
        return "target<2^16"
    return "regular"


FULL_EXPS = [1, 2, 3, 4, 5, 16, 0x1C, 0x1D, 0x1E, 0x1F, 0x20, 0x21, 0x22]


def gen_compact(tier, seed):
    cases = []
    exps_struct = list(range(0, 41)) + [0x7F, 0x80, 0xFE, 0xFF]
    if tier == "quick":
        for e in exps_struct:
            cases.append({"kind": "structured", "e": e})
    else:
        for e in FULL_EXPS:
            for hi in range(256):
                cases.append({"kind": "full", "e": e, "hi": hi})
        for e in exps_struct:
            if e not in FULL_EXPS:
                cases.append({"kind": "structured", "e": e})
    for k0 in range(0, 256, 16):
        cases.append({"kind": "targets", "k0": k0, "seed": seed})
    return cases


def run_compact(case):
    from buidl.helper import bits_to_target, target_to_bits

    res = Res()
    vc = {"engine": "compact", "case": case}
    viol = {}  # fingerprint -> [count, observed, expected, what]

    def bad(fp, mk):
        v = viol.get(fp)
        if v is None:
            viol[fp] = [1, *mk()]
        else:
            v[0] += 1

    T2B_FP = {k: f"C17/compact/target_to_bits/{k}" for k in ("zero", "target<2^16", "regular")}

    def check_t2b(t):
        want = le4(R.get_compact(t))
        try:
            got = target_to_bits(t)
        except Exception as ex:  # noqa
            got = Rejected(type(ex).__name__)
        if got != want:
            bad(T2B_FP[target_class(t)], lambda: ({"target": hex(t), "bits": got}, want, "target_to_bits differs from GetCompact (4 bytes, little endian)"))
            return False
        return True

    if case["kind"] == "targets":
        n_ok = 0
        seed = case["seed"]
        for k in range(case["k0"], case["k0"] + 16):
            ts = {1 << k, (1 << k) - 1, ((1 << k) + 1) & U256, (0xFFFF << k) & U256, (0x7FFFFF << k) & U256, (0x800000 << k) & U256, (0x80 << k) & U256, (0x7F << k) & U256}
            ts.add(int.from_bytes(filler(seed, "target", k), "big") >> (255 - k))
            if k == 0:
                ts.add(0)
            for t in sorted(ts):
                if check_t2b(t):
                    n_ok += 1
                    if len(res.samples) < 2:
                        res.samples.append({"target": hex(t), "bits": le4(R.get_compact(t)).hex()})
        res.bulk("target_to_bits==GetCompact", n_ok, n_ok)
    else:
        e = case["e"]
        if case["kind"] == "full":
            mants = range(case["hi"] << 16, (case["hi"] + 1) << 16)
        else:
            mants = structured_mantissas()
        n_b2t = n_t2b = n_over = n_neg_ok = 0
        full = case["kind"] == "full"
        B2T_FP = ["C17/compact/bits_to_target/exp<3", "C17/compact/bits_to_target/sign-bit", "C17/compact/bits_to_target/regular"]
        pack = struct.pack
        ebase = e << 24
        for m in mants:
            c = ebase | m
            v, neg, over = R.set_compact(c)
            try:
                got = bits_to_target(pack("<I", c))
            except Exception as ex:  # noqa
                got = Rejected(type(ex).__name__)
            if over:
                n_over += 1  # no consensus target exists; check_pow on these is asserted by engine pow
                continue
            if neg:
                # consensus: magnitude v with a sign flag (never a valid target); the library may refuse it
                if isinstance(got, Rejected) or (type(got) is int and got in (v, -v)):
                    n_neg_ok += 1
                else:
                    bad(
                        "C17/compact/bits_to_target/sign-bit",
                        lambda: ({"bits": hex(c), "target": got if isinstance(got, float) else hex(got) if isinstance(got, int) else repr(got)}, {"magnitude": hex(v), "negative": True}, "bit 23 of the compact value is the sign, not part of the mantissa"),
                    )
                continue
            if type(got) is not int or got != v:
                bad(
                    B2T_FP[0 if e < 3 else 1 if m & 0x800000 else 2],
                    lambda: (
                        {"bits": hex(c), "target": repr(got) if not isinstance(got, int) or isinstance(got, bool) else hex(got)},
                        hex(v),
                        "bits_to_target differs from SetCompact (must be the integer mantissa shifted by 8*(exponent-3), right shift below 3)",
                    ),
                )
            else:
                n_b2t += 1
            # reverse direction on the consensus target and on a full-precision neighbour
            if check_t2b(v):
                n_t2b += 1
            if e > 3 and m and (not full or (m & 0xFF) in (0x00, 0x80, 0xFF)):
                t2 = v | ((1 << (8 * (e - 3))) - 1)
                if t2 <= U256 and check_t2b(t2):
                    n_t2b += 1
        res.bulk("bits_to_target==SetCompact", n_b2t, n_b2t)
        res.bulk("target_to_bits==GetCompact", n_t2b, n_t2b)
        if n_neg_ok:
            res.bulk("negative-compact:refused-or-magnitude", n_neg_ok, n_neg_ok)
        if n_over:
            res.skip("overflowing compact value: no consensus target (check_pow asserted by engine pow)", n_over)
        if len(res.samples) < 1 and e in (3, 0x1D):
            res.samples.append({"bits": hex(ebase | 0x00FFFF), "target": hex(R.set_compact(ebase | 0x00FFFF)[0])})
    for fp, (cnt, obs, exp, what) in viol.items():
        res.violation(fp, vc, obs, exp, what)
        if cnt > 1:
            res.bulk("VIOLATION", cnt - 1)
            res.n_violations += cnt - 1
    return res


# ------------------------------------------------------------------ engine: pow
POW_MANTS = [0x000000, 0x000001, 0x0000FF, 0x000100, 0x007FFF, 0x008000, 0x00FFFF, 0x010000, 0x7FFFFF]


def pow_class(c, proof, target):
    bc = bits_class(c)
    if bc != "regular":
        return bc
    if proof == target:
        return "proof==target"
    return "regular"


def gen_pow(tier, seed):
    cases = []
    for tmpl in range(2):
        for e in range(0x1C, 0x25):
            for m in POW_MANTS + [0x800000, 0x80FFFF, 0xFFFFFF]:
                cases.append({"kind": "mined", "tmpl": tmpl, "bits": (e << 24) | m, "nonces": 256 if tier == "quick" else 3072, "seed": seed})
    for e in list(range(0, 41)) + [0x7F, 0x80, 0xFE, 0xFF]:
        cases.append({"kind": "stub", "e": e, "seed": seed})
    cases.append({"kind": "vectors"})
    return cases


REAL_HEADERS = list(R.GENESIS.values()) + [
    "010000006fe28c0ab6f1b372c1a6a246ae63f74f931e8365e15a089c68d6190000000000982051fd1e4ba744bbbe680e1fee14677ba1a3c3540bf7b1cdb606e857233e0e61bc6649ffff001d01e36299",
    "04000000fbedbbf0cfdaf278c094f187f2eb987c86a199da22bbb20400000000000000007b7697b29129648fa08b4bcd13c9d5e60abb973a1efac9c8d573c71c807c56c3d6213557faa80518c3737ec1",
    "04000000fbedbbf0cfdaf278c094f187f2eb987c86a199da22bbb20400000000000000007b7697b29129648fa08b4bcd13c9d5e60abb973a1efac9c8d573c71c807c56c3d6213557faa80518c3737ec0",
    "020000208ec39428b17323fa0ddec8e887b4a7c53b8c0a0a220cfd0000000000000000005b0750fce0a889502d40508d39576821155e9c9e3f5c3157f961db38fd8b25be1e77a759e93c0118a4ffd71d",
]


def run_pow(case):
    import buidl.block as bb

    res = Res()
    vc = {"engine": "pow", "case": case}
    viol = {}

    def compare(c, raw, digest, got, stub):
        want = R.check_pow(digest, c)
        if isinstance(got, Rejected):
            got_b = False
        else:
            got_b = got
        if got_b is True and want is True:
            return "accept"
        if (got_b is False or isinstance(got, Rejected)) and want is False:
            return "reject"
        proof = int.from_bytes(digest, "little")
        t, neg, over = R.set_compact(c)
        cls = pow_class(c, proof, t)
        fp = f"C17/pow/{cls}"
        if fp not in viol:
            viol[fp] = [0, {"bits": hex(c), "header": raw.hex(), "hash_le_int": hex(proof), "check_pow": repr(got), "hash_replaced_by_enumerated_digest": stub}, {"consensus": want, "target": hex(t), "negative": neg, "overflow": over}]
        viol[fp][0] += 1
        return None

    if case["kind"] == "vectors":
        for hx in REAL_HEADERS:
            raw = bytes.fromhex(hx)
            got = attempt(lambda: bb.Block.parse_header(BytesIO(raw)).check_pow())
            o = compare(R.parse_header(raw)["bits"], raw, R.header_hash(raw), got, False)
            if o:
                res.ok(f"real-header:{o}", hx[-8:])
    elif case["kind"] == "mined":
        c, seed = case["bits"], case["seed"]
        prev, root = filler(seed, "pprev", case["tmpl"]), filler(seed, "proot", case["tmpl"])
        t = R.set_compact(c)[0]
        n_acc = n_rej = 0
        closest = None
        for nonce in range(case["nonces"]):
            raw = R.ser_header(1 + case["tmpl"], prev, root, 1600000000, c, nonce)
            got = attempt(lambda: bb.Block(1 + case["tmpl"], prev, root, 1600000000, le4(c), le4(nonce)).check_pow())
            d = R.header_hash(raw)
            o = compare(c, raw, d, got, False)
            if o == "accept":
                n_acc += 1
            elif o == "reject":
                n_rej += 1
        res.bulk("mined:accept==consensus", n_acc, n_acc)
        res.bulk("mined:reject==consensus", n_rej, n_rej)
        if n_acc and n_rej and len(res.samples) < 1:
            res.samples.append({"bits": hex(c), "nonces": case["nonces"], "accepted": n_acc, "rejected": n_rej})
    else:
        e, seed = case["e"], case["seed"]
        cur = {}
        old = bb.hash256
        bb.hash256 = lambda s: cur["d"]
        try:
            for m in POW_MANTS:
                for sign in (0, 0x800000):
                    c = (e << 24) | m | sign
                    t = R.set_compact(c)[0] & U256
                    fi = int.from_bytes(filler(seed, "digest", e), "little")
                    proofs = {0, 1, (t - 1) & U256, t, (t + 1) & U256, U256, int.from_bytes(t.to_bytes(32, "big"), "little"), fi, t >> 1}
                    blk = bb.Block(2, b"\x11" * 32, b"\x22" * 32, 1600000000, le4(c), le4(0))
                    raw = R.ser_header(2, b"\x11" * 32, b"\x22" * 32, 1600000000, c, 0)
                    for p in sorted(proofs):
                        cur["d"] = p.to_bytes(32, "little")
                        got = attempt(blk.check_pow)
                        o = compare(c, raw, cur["d"], got, True)
                        if o:
                            res.ok(f"enumerated-digest:{o}", (c, p), sample={"bits": hex(c), "digest_le_int": hex(p), "result": o} if p == t - 1 and m == 0x00FFFF and not sign else None)
        finally:
            bb.hash256 = old
    for fp, (cnt, obs, exp) in viol.items():
        res.violation(fp, vc, obs, exp, "check_pow disagrees with CheckProofOfWork (valid iff compact value not negative, not overflowing, target != 0 and hash <= target)")
        if cnt > 1:
            res.bulk("VIOLATION", cnt - 1)
            res.n_violations += cnt - 1
    return res


# ------------------------------------------------------------------ engine: retarget
LO, HI, TS = R.TARGET_TIMESPAN // 4, R.TARGET_TIMESPAN * 4, R.TARGET_TIMESPAN


def td_alphabet(tier):
    w = 3 if tier == "quick" else 48
    s = {-(2**31), -TS, -1, 0, 1, TS // 2, TS * 2, 2 * HI, 2**31 - 1, 2**32, 1022578, 600 * 2016}
    for c in (LO, TS, HI):
        s |= set(range(c - w, c + w + 1))
    return sorted(s)


def gen_retarget(tier, seed):
    cases = []
    for e in range(1, 0x22):
        ms = [0x000001, 0x0000FF, 0x008000, 0x00FFFF, 0x010000, 0x123456, 0x7FFFFF, 0x80FFFF]
        ms.append(0x008000 + int.from_bytes(filler(seed, "mant", e, 3), "big") % (0x7FFFFF - 0x008000))
        for m in ms:
            cases.append({"bits": (e << 24) | m, "seed": seed})
    return cases


def run_retarget(case):
    from buidl.helper import bits_to_target, calculate_new_bits, target_to_bits

    res = Res()
    vc = {"engine": "retarget", "case": case}
    c = case["bits"]
    tier = case.get("tier", "quick")
    v, neg, over = R.set_compact(c)
    tds = td_alphabet(tier)
    if over or neg or v > R.POW_LIMIT_MAIN or v == 0:
        res.skip("previous bits negative / zero / above the mainnet proof-of-work limit: cannot be the bits of a valid block", len(tds))
        return res
    lib_prev = attempt(bits_to_target, le4(c))
    if type(lib_prev) is not int or lib_prev != v:
        res.skip("previous bits mis-converted by bits_to_target (reported by engine compact)", len(tds))
        return res
    reported = set()
    for td in tds:
        want_c = R.next_bits(c, td)
        want = le4(want_c)
        new_t = min(v * min(max(td, LO), HI) // TS, R.POW_LIMIT_MAIN)
        if attempt(target_to_bits, new_t) != le4(R.get_compact(new_t)):
            res.skip("new target mis-encoded by target_to_bits (reported by engine compact)")
            continue
        got = attempt(calculate_new_bits, le4(c), td)
        region = "below-quarter-clamp" if td < LO else "above-x4-clamp" if td > HI else "at-clamp" if td in (LO, HI) else "unclamped"
        if got != want:
            fp = f"C17/retarget/{region}"
            if fp not in reported:
                reported.add(fp)
                res.violation(fp, vc, {"prev_bits": hex(c), "time_differential": td, "new_bits": got}, want, "calculate_new_bits differs from CalculateNextWorkRequired")
            else:
                res.bulk("VIOLATION", 1)
                res.n_violations += 1
        else:
            res.ok(f"retarget==consensus:{region}", (c, td), sample={"prev_bits": hex(c), "td": td, "new_bits": want.hex()} if td == 1022578 and c == 0x1D00FFFF else None)
    return res


# ------------------------------------------------------------------ engine: chain
POW_OPTS = ["good", "bad", "bad-mainnet-bits"]
LINK_OPTS = ["ok", "bitflip", "zero", "grandparent", "own-root"]
FIRST_LINK_OPTS = ["zero", "filler"]


def gen_chain(tier, seed):
    import itertools

    top = 3 if tier == "quick" else 4
    cases = []
    for ln in range(1, top + 1):
        firsts = [(p, l) for p in POW_OPTS for l in FIRST_LINK_OPTS]
        rest = [(p, l) for p in POW_OPTS for l in LINK_OPTS]
        for combo in itertools.product(firsts, *([rest] * (ln - 1))):
            cases.append({"chain": [list(x) for x in combo], "seed": seed})
    cases.append({"chain": [], "seed": seed})
    return cases


def mine(version, prev_id, root_id, time, bits, want_good):
    for nonce in range(100000):
        raw = R.ser_header(version, prev_id, root_id, time, bits, nonce)
        if R.check_pow(R.header_hash(raw), bits) == want_good:
            return raw
    raise RuntimeError("no nonce found")


def run_chain(case):
    from buidl.network import HeadersMessage

    res = Res()
    seed = case["seed"]
    vc = {"engine": "chain", "case": case}
    headers = []
    expect = True
    ids = []
    for i, (powk, link) in enumerate(case["chain"]):
        if i == 0:
            prev = b"\x00" * 32 if link == "zero" else filler(seed, "cprev", 0)
        else:
            good_prev = ids[-1]
            if link == "ok":
                prev = good_prev
            elif link == "bitflip":
                x = bytearray(good_prev)
                bit = (i * 67 + 5) % 256
                x[bit // 8] ^= 1 << (bit % 8)
                prev = bytes(x)
            elif link == "zero":
                prev = b"\x00" * 32
            elif link == "grandparent":
                prev = ids[-2] if i >= 2 else R.parse_header(headers[0])["prev_id"]
            else:
                prev = R.parse_header(headers[-1])["root_id"]
            if prev != good_prev:
                expect = False
        root = filler(seed, "croot", i)
        if powk == "good":
            raw = mine(1, prev, root, 1600000000 + i, 0x207FFFFF, True)
        elif powk == "bad":
            raw = mine(1, prev, root, 1600000000 + i, 0x207FFFFF, False)
            expect = False
        else:
            raw = mine(1, prev, root, 1600000000 + i, 0x1D00FFFF, False)
            expect = False
        headers.append(raw)
        ids.append(R.header_id(raw))
    assert R.chain_valid(headers) == expect
    wire = R.ser_headers_msg(headers)

    def go():
        msg = HeadersMessage.parse(BytesIO(wire))
        assert len(msg.headers) == len(headers)
        return msg.is_valid()

    got = attempt(go)
    res.states += len(headers) + 1
    res.transitions += len(headers)
    accepted = got is True
    if accepted != expect:
        broken = [f"{i}:{p}/{l}" for i, (p, l) in enumerate(case["chain"]) if p != "good" or (i > 0 and l != "ok")]
        cls = "valid-chain-rejected" if expect else "broken-chain-accepted/" + ("pow" if any(p != "good" for p, _ in case["chain"]) and all(l == "ok" for _, l in case["chain"][1:]) else "link")
        res.violation(f"C17/chain/{cls}", vc, {"is_valid": repr(got), "broken": broken}, expect, "HeadersMessage.is_valid disagrees with proof-of-work + linkage of every header")
    else:
        nt = repr(case["chain"]) if (len(headers) >= 2) else None
        res.ok("chain:accepted" if expect else "chain:rejected", nt, sample={"chain": case["chain"], "valid": expect} if len(headers) == 3 and expect else None)
    return res


# ------------------------------------------------------------------ registry
def engines(tier, seed):
    def with_tier(gen):
        def g(t, s):
            cs = gen(t, s)
            for c in cs:
                c["tier"] = t
            return cs

        return g

    return [
        Engine(
            "root",
            gen_root,
            run_root,
            kind="E1",
            rule="every list length 1..64 (thorough 1..1100) and {2^k-1,2^k,2^k+1: k<=12} U {3519,5000} (thorough + 8191..8193,16666,32769) of distinct leaves: "
            "merkle_root, a second call on the list it modified, merkle_parent_level and Block.validate_merkle_root (correct root accepted; bit-flipped, "
            "unreversed, ids-not-reversed, first-two-swapped, last-duplicated, odd-element-promoted roots rejected) against an independent level-by-level "
            "reference. Non-trivial = length >= 2",
        ),
        Engine(
            "spv-honest",
            gen_spv_honest,
            run_spv_honest,
            kind="E1",
            rule="every leaf count 1..10 (thorough 1..15) x all 2^n match subsets: merkleblock message built by the reference BIP37 builder, parsed by MerkleBlock.parse; "
            "is_valid() must be True and proved_txs() must equal the matched ids in block order. Non-trivial = n >= 2 (each (n, subset) distinct)",
        ),
        Engine(
            "spv-reuse",
            gen_spv_reuse,
            run_spv_reuse,
            kind="E2",
            rule="histories on ONE MerkleBlock object: every proof with 1..5 (thorough 7) leaves x every non-empty match subset: validate, then for every in-place alteration "
            "(bit flip of each hash, dropped / appended hash, flag bit, count+1): validate the SAME object again, compare verdict and proved ids with a fresh object parsed from the "
            "altered data (an altered hash must not validate), restore, validate again (must equal the first observation)",
        ),
        Engine(
            "spv-sizes",
            gen_spv_sizes,
            run_spv_sizes,
            kind="E1",
            rule="every block size 1..600 (thorough 1..5000) x 4 match sets {first,last,middle,odds}; boundary sizes {2^k-1,2^k,2^k+1: k<=12} U {3519,5000} "
            "(thorough + 8191,8192,8193,16385,16666,65537) x 13 structured match sets (none, all, first+last, evens, halves, every third, power-of-two positions, last two, ...). "
            "Same oracle as spv-honest. Non-trivial = n >= 2",
        ),
        Engine(
            "spv-tamper",
            gen_spv_tamper,
            run_spv_tamper,
            kind="E1",
            chunk=4,
            rule="every proof of every tree with 1..7 (thorough 1..10) leaves x all match subsets x {every single bit of every hash, of the header root, of every flag byte, "
            "bits 0..16 of the transaction count (bits 17..20 quick / 17..24 thorough only for trees <= 3 leaves, higher bits skipped: the library allocates the whole claimed tree), count set to 0/n-1/n+1/2n/2n+1/ceil(n/2), flag bytes dropped/appended, "
            "each hash dropped, duplicated, swapped with its neighbour, a foreign hash prepended/appended}. Oracle: is_valid() True => every proved id is a block id; "
            "for altered hash lists / root additionally is_valid() must not be True. Non-trivial = each (proof, alteration)",
        ),
        Engine(
            "header",
            gen_header,
            run_header,
            kind="E1",
            rule="9 versions x 5 prev hashes x 5 merkle roots x 6 times x 6 bits x 5 nonces boundary product (40 500 headers) + every value of every one of the 80 bytes of a filler header "
            "(thorough: 3 filler headers): parse_header fields, parse->serialize, Block(...).serialize, hash(), id() against the reference encoder / double-SHA256",
        ),
        Engine(
            "compact",
            gen_compact,
            run_compact,
            kind="E1",
            rule="quick: exponents 0..40,0x7f,0x80,0xfe,0xff x ~11 000 structured 24-bit mantissas (each byte swept over 0..255 with the other two over {00,01,7f,80,ff}); "
            "thorough: ALL 2^24 mantissas (sign bit included) x exponents {1,2,3,4,5,16,0x1c..0x22} (13 x 2^24 compact values), structured set for the other exponents. bits_to_target must be the int of SetCompact "
            "(negative values: refused or magnitude; overflowing: skipped), target_to_bits must equal GetCompact on each consensus target, on its all-ones "
            "full-precision neighbour (thorough sweep: for mantissas whose low byte is 00/80/ff), and on 2^k, 2^k+-1, ffff<<k, 7fffff<<k, 800000<<k, 7f<<k, 80<<k, filler>>(255-k) for every k<256 and 0",
        ),
        Engine(
            "pow",
            gen_pow,
            run_pow,
            kind="E1",
            rule="(a) 2 header templates x exponents 0x1c..0x24 x 12 mantissas (incl. sign bit, zero, overflowing) x every nonce 0..255 (thorough 0..3071) with the real double-SHA256: "
            "check_pow == CheckProofOfWork without the network limit; (b) buidl.block.hash256 replaced by an enumerated digest: exponents 0..40,0x7f,0x80,0xfe,0xff x 9 mantissas x sign x "
            "digests {0,1,T-1,T,T+1,2^256-1,byte-reversed T,T/2,filler}; (c) 7 real headers. Non-trivial = each (bits, digest) pair; both outcomes are counted",
        ),
        Engine(
            "retarget",
            with_tier(gen_retarget),
            run_retarget,
            kind="E1",
            chunk=40,
            rule="previous bits: exponents 1..0x21 x 9 mantissas x time differentials {-2^31,-TS,-1,0,1,TS/2,2TS,8TS,2^31-1,2^32, first mainnet retarget} U [c-3,c+3] (thorough [c-48,c+48]) "
            "for c in {TS/4, TS, 4TS}: calculate_new_bits == CalculateNextWorkRequired(mainnet limit). Skipped: previous bits that cannot occur in a valid mainnet block, "
            "and inputs/outputs on which the library's own conversions already disagree with the reference (reported by engine compact)",
        ),
        Engine(
            "chain",
            gen_chain,
            run_chain,
            kind="E2",
            chunk=100,
            rule="all header chains of length 0..3 (thorough 0..4) over per-header alphabets pow in {good, bad at regtest bits, bad at mainnet bits} x link in {ok, one bit flipped, zero, "
            "grandparent, predecessor's merkle root} (first header: prev zero/filler), mined by the harness at bits 0x207fffff, sent through HeadersMessage.parse: is_valid() == "
            "(every header satisfies its proof of work and names its predecessor's hash). states/transitions = headers consumed. Non-trivial = chains of >= 2 headers",
        ),
    ]
