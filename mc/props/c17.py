"""C17 — Merkle roots, SPV inclusion proofs, headers, proof of work, compact bits, retargeting.

Engines (all exhaustive over their stated bounds, oracle = mc.ref.merkleref):
  root        merkle_root / merkle_parent_level / Block.validate_merkle_root for every length in a range
  spv-honest  every leaf count 1..N x all 2^n match sets: reference-built BIP37 proof must validate and
              prove exactly the matched ids in order
  spv-sizes   every block size in a range (+ boundary sizes to 5000 and beyond) x structured match sets
  spv-tamper  every proof of the small trees x every single-bit alteration of hashes / flags / total /
              header root, dropped / extra / duplicated / swapped hashes (is_valid() True => only block
              ids proved; altered hash list / root => is_valid() not True)
  header      80-byte header codec, hash, id over field boundary products and a full byte sweep
  compact     bits_to_target vs SetCompact, target_to_bits vs GetCompact
  pow         check_pow vs CheckProofOfWork with real hashes (nonce sweeps on both sides of the target)
              and with the hash function replaced by an enumerated digest at the target boundary
  retarget    calculate_new_bits vs CalculateNextWorkRequired across both clamps
  chain       HeadersMessage.is_valid over all chains of <= 3 (4) harness-mined headers with each
              link / proof of work broken
  spv-deep    single alterations of proofs of deep trees (11..5000 leaves)
  root-dup    every list over a 3-letter alphabet (repeated / adjacent-equal elements)
  spv-dup     proofs over repeated hashes (blocks with repeated ids; count raised + tail repeated): only
              "valid => block ids proved" is asserted, verdicts are recorded
  blockparse  Block.parse of legacy/segwit blocks -> tx_hashes -> validate_merkle_root
  target      Block.target() / Block.difficulty()
  block-reuse / chain-reuse   E2 histories on ONE Block / HeadersMessage object against the reference
  chain-ext   per-header bits, repeated header, long chains

Not asserted anywhere (the API has no network context / BIP37 does not commit to the depth): the network
proof-of-work limit in check_pow / HeadersMessage.is_valid, and depth-truncated proofs.
"""
import struct
from io import BytesIO

from mc.core import Engine, Res, attempt, Rejected, filler
from mc.ref import merkleref as R

PROP = "C17"
U256 = (1 << 256) - 1


def le4(c):
    return struct.pack("<I", c)


# ------------------------------------------------------------------ shared data
_LEAVES = {}


def leaves_for(seed, n):
    """n distinct 32-byte leaf hashes (internal order); a prefix-closed family per seed."""
    cur = _LEAVES.setdefault(seed, [])
    while len(cur) < n:
        cur.append(filler(seed, "leaf", len(cur)))
    return cur[:n]


def proof_header(seed, root):
    return R.ser_header(0x20000000, filler(seed, "prev", 0), root[::-1], 1500000000, 0x207FFFFF, 7)


def shape_class(n):
    if n == 1:
        return "n=1"
    if n & (n - 1) == 0:
        return "n=2^k"
    return "n-with-odd-level"


# ------------------------------------------------------------------ engine: root
def root_lengths(tier):
    top = 64 if tier == "quick" else 1100
    s = set(range(1, top + 1))
    for k in range(1, 13):
        s |= {2**k - 1, 2**k, 2**k + 1}
    s |= {5000, 3519}
    if tier == "thorough":
        s |= {2**13 - 1, 2**13, 2**13 + 1, 16666, 2**15 + 1}
    s.discard(0)
    return sorted(s)


def gen_root(tier, seed):
    return [{"n": n, "seed": seed} for n in root_lengths(tier)]


def run_root(case):
    from buidl.block import Block
    from buidl.helper import merkle_parent_level, merkle_root

    res = Res()
    n, seed = case["n"], case["seed"]
    vc = {"engine": "root", "case": case}
    leaves = leaves_for(seed, n)
    want = R.merkle_root(leaves)
    sc = shape_class(n)
    nt = n if n >= 2 else None
    arg = list(leaves)
    got = attempt(merkle_root, arg)
    if got != want:
        res.violation(f"C17/root/merkle_root/{sc}", vc, got, want, "merkle_root differs from Bitcoin's Merkle root")
    else:
        res.ok("merkle_root==ref", nt, sample={"n": n, "root": want.hex()} if n in (1, 2, 3, 5, 11) else None)
    if arg != list(leaves):
        # the statement does not forbid it; a second evaluation on the modified list must still be right
        res.notes["argument_lists_modified_by_merkle_root"] = res.notes.get("argument_lists_modified_by_merkle_root", 0) + 1
        again = attempt(merkle_root, arg)
        if again != want:
            res.violation(f"C17/root/merkle_root-second-call/{sc}", vc, again, want, "merkle_root on the list it modified gives another root")
        else:
            res.ok("merkle_root-second-call==ref")
    if n >= 2:
        lvl = attempt(merkle_parent_level, list(leaves))
        wl = [R.dsha(leaves[i] + (leaves[i + 1] if i + 1 < n else leaves[i])) for i in range(0, n, 2)]
        if lvl != wl:
            res.violation(f"C17/root/merkle_parent_level/{'odd' if n % 2 else 'even'}", vc, str(lvl)[:200], str(wl)[:200], "merkle_parent_level differs from pairwise double-SHA256 with last-element duplication")
        else:
            res.ok("parent_level==ref", ("lvl", n))
    # Block.validate_merkle_root: accepts the right root, rejects near misses
    ids = [h[::-1] for h in leaves]

    def vmr(root_id):
        b = Block(1, b"\x00" * 32, root_id, 0, le4(0x207FFFFF), b"\x00" * 4, tx_hashes=list(ids))
        return b.validate_merkle_root()

    r = attempt(vmr, want[::-1])
    if r is not True:
        res.violation(f"C17/root/validate_merkle_root/rejects-correct/{sc}", vc, r, True, "validate_merkle_root rejects the correct root")
    else:
        res.ok("validate==True", nt)
    bit = n % 256
    flipped = bytearray(want[::-1])
    flipped[bit // 8] ^= 1 << (bit % 8)
    wrongs = {"bitflip": bytes(flipped), "unreversed": want}
    if n >= 2:
        wrongs["ids-not-reversed"] = R.merkle_root(ids)[::-1]
        wrongs["first-two-swapped"] = R.merkle_root([leaves[1], leaves[0]] + leaves[2:])[::-1]
    if n >= 2 and n % 2 == 0:
        wrongs["last-duplicated"] = R.merkle_root(leaves + [leaves[-1]])[::-1]
    if n >= 3 and n % 2 == 1:
        wrongs["no-duplication(last promoted)"] = _root_promote(leaves)[::-1]
    for nm, w in wrongs.items():
        if w == want[::-1]:
            res.skip("near-miss root equals the real root")
            continue
        r = attempt(vmr, w)
        if r is True:
            res.violation(f"C17/root/validate_merkle_root/accepts-{nm}", vc, True, False, "validate_merkle_root accepts a wrong root")
        else:
            res.ok("validate-wrong-root-rejected", ("w", n, nm))
    return res


def _root_promote(leaves):
    """A *wrong* construction (odd element promoted unhashed) used only as a near miss."""
    level = list(leaves)
    while len(level) > 1:
        nxt = [R.dsha(level[i] + level[i + 1]) for i in range(0, len(level) - 1, 2)]
        if len(level) % 2:
            nxt.append(level[-1])
        level = nxt
    return level[0]


# ------------------------------------------------------------------ SPV proofs: helpers
def mask_bits(n, mask):
    return [(mask >> i) & 1 for i in range(n)]


def lib_check(raw):
    """Parse a merkleblock message with the library, validate, return (valid?, proved ids)."""
    from buidl.merkleblock import MerkleBlock

    def go():
        mb = MerkleBlock.parse(BytesIO(raw))
        v = mb.is_valid()
        return v, list(mb.proved_txs())

    r = attempt(go)
    if isinstance(r, Rejected):
        return False, [], r.how
    v, p = r
    return (v is True), p, ("True" if v is True else repr(v))


def honest_eval(res, engine, case, n, leaves, match, memo, root, hdr, nt_key, sample=False):
    vc = {"engine": engine, "case": case}
    bits, hs = R.build_partial(leaves, match, memo)
    raw = R.ser_merkleblock(hdr, n, hs, R.pack_bits(bits))
    ok, proved, how = lib_check(raw)
    want = [leaves[i][::-1] for i in range(n) if match[i]]
    sc = shape_class(n)
    if not ok:
        res.violation(f"C17/{engine}/honest-proof-rejected/{sc}", vc, how, True, f"a BIP37 proof built per the specification does not validate (n={n}, {sum(match)} matched)")
        return
    if proved != want:
        res.violation(
            f"C17/{engine}/proved-ids-differ/{sc}",
            vc,
            [p.hex() if isinstance(p, bytes) else repr(p) for p in proved][:6],
            [w.hex() for w in want][:6],
            f"proved_txs() is not the list of matched ids in block order (n={n})",
        )
        return
    res.ok("honest:valid+proved==matched", nt_key, sample={"n": n, "matched": sum(match), "hashes": len(hs), "flag_bits": len(bits)} if sample else None)


# ------------------------------------------------------------------ engine: spv-honest
def gen_spv_honest(tier, seed):
    top = 10 if tier == "quick" else 15
    chunk = 16 if tier == "quick" else 64
    cases = []
    for n in range(1, top + 1):
        for lo in range(0, 1 << n, chunk):
            cases.append({"n": n, "lo": lo, "hi": min(1 << n, lo + chunk), "seed": seed})
    return cases


def run_spv_honest(case):
    res = Res()
    n, seed = case["n"], case["seed"]
    leaves = leaves_for(seed, n)
    root = R.merkle_root(leaves)
    hdr = proof_header(seed, root)
    memo = {}
    for mask in range(case["lo"], case["hi"]):
        honest_eval(res, "spv-honest", case, n, leaves, mask_bits(n, mask), memo, root, hdr, (n, mask) if n >= 2 else None, sample=(mask == 5 and n in (3, 7)))
    return res


# ------------------------------------------------------------------ engine: spv-reuse (E2: histories on ONE MerkleBlock object)
def gen_spv_reuse(tier, seed):
    top = 5 if tier == "quick" else 7
    return [{"n": n, "mask": mask, "seed": seed} for n in range(1, top + 1) for mask in range(1, 1 << n)]


def run_spv_reuse(case):
    """validate -> alter the same object in place -> validate -> restore -> validate.  Every verdict and every list of
    proved ids must equal what a FRESH object parsed from the same (altered) data gives, and an altered hash must not
    validate: state kept on the object between calls is exposed."""
    from buidl.merkleblock import MerkleBlock

    res = Res()
    n, seed, mask = case["n"], case["seed"], case["mask"]
    leaves = leaves_for(seed, n)
    match = mask_bits(n, mask)
    root = R.merkle_root(leaves)
    hdr = proof_header(seed, root)
    bits, hs = R.build_partial(leaves, match, {})
    raw = R.ser_merkleblock(hdr, n, hs, R.pack_bits(bits))
    vc = {"engine": "spv-reuse", "case": case}
    mb = attempt(lambda: MerkleBlock.parse(BytesIO(raw)))
    if isinstance(mb, Rejected):
        res.violation("C17/spv-reuse/parse", vc, repr(mb), "parses", "honest merkleblock does not parse")
        return res
    block_ids = {l[::-1] for l in leaves}

    def observe():
        v = attempt(mb.is_valid)
        p = attempt(lambda: list(mb.proved_txs()))
        return (v is True), (p if not isinstance(p, Rejected) else None)

    def fresh():
        return lib_check(R.ser_merkleblock(hdr, mb.total, [h[::-1] for h in mb.hashes], bytes(mb.flags)))[:2]

    first = observe()
    res.transitions += 1
    if not first[0]:
        res.violation("C17/spv-reuse/honest-rejected", vc, first, True, "honest proof does not validate")
        return res
    alterations = []
    for j in range(len(mb.hashes)):
        alterations.append((f"hash{j}-bitflip", j))
    alterations += [("drop-last-hash", None), ("append-hash", None), ("flags-bit0", None), ("total+1", None)]
    for name, j in alterations:
        saved = (list(mb.hashes), bytes(mb.flags), mb.total)
        if name.endswith("bitflip"):
            h = bytearray(mb.hashes[j])
            h[5] ^= 0x10
            mb.hashes[j] = bytes(h)
        elif name == "drop-last-hash":
            mb.hashes.pop()
        elif name == "append-hash":
            mb.hashes.append(b"\x5a" * 32)
        elif name == "flags-bit0":
            f = bytearray(mb.flags)
            if f:
                f[0] ^= 1
            mb.flags = bytes(f)
        else:
            mb.total += 1
        got = observe()
        want = fresh()
        res.transitions += 1
        cls = name.split("-")[0].rstrip("0123456789")
        if got[0] != want[0] or (got[0] and got[1] != want[1]):
            res.violation(f"C17/spv-reuse/stale-after-alteration/{cls}", dict(vc, case=dict(case, alteration=name)), got, want, f"after altering the same MerkleBlock object in place ({name}) is_valid()/proved_txs() differ from a fresh object parsed from the altered data")
        elif got[0] and got[1] is not None and not set(got[1]) <= block_ids:
            res.violation(f"C17/spv-reuse/foreign-id-proved/{cls}", dict(vc, case=dict(case, alteration=name)), got, "only block ids", "altered proof validates and proves a foreign id")
        elif got[0] and name.endswith("bitflip"):
            res.violation(f"C17/spv-reuse/altered-hash-validates", dict(vc, case=dict(case, alteration=name)), got, False, "proof with an altered hash validates")
        else:
            res.ok("altered in place == fresh object", nontrivial=(n, mask, name))
        mb.hashes, mb.flags, mb.total = list(saved[0]), saved[1], saved[2]
        back = observe()
        res.transitions += 1
        if back != first:
            res.violation(f"C17/spv-reuse/not-restored/{cls}", dict(vc, case=dict(case, alteration=name)), back, first, "after restoring the original data the object does not validate as before")
            return res
    res.states += 1 + 2 * len(alterations)
    return res


# ------------------------------------------------------------------ engine: spv-sizes
def size_list(tier):
    s = set()
    for k in range(1, 13):
        s |= {2**k - 1, 2**k, 2**k + 1}
    s |= {5000, 3519}
    full = set(range(1, (600 if tier == "quick" else 5000) + 1))
    if tier == "thorough":
        s |= {2**13 - 1, 2**13, 2**13 + 1, 2**14 + 1, 16666, 2**16 + 1}
    return sorted(s - {0}), sorted(full)


def structured_sets(n, rich):
    sets = {"first": {0}, "last": {n - 1}, "middle": {n // 2}, "odds": set(range(1, n, 2)) or {0}}
    if rich:
        sets.update(
            {
                "none": set(),
                "all": set(range(n)),
                "first+last": {0, n - 1},
                "evens": set(range(0, n, 2)),
                "first-half": set(range(0, (n + 1) // 2)),
                "second-half": set(range(n // 2, n)),
                "every-third": set(range(0, n, 3)),
                "pow2-positions": {p for j in range(0, 20) for p in (2**j - 1, 2**j) if p < n},
                "last-two": {max(0, n - 2), n - 1},
            }
        )
    return sets


def gen_spv_sizes(tier, seed):
    rich, full = size_list(tier)
    cases = [{"n": n, "rich": True, "seed": seed} for n in rich]
    cases += [{"n": n, "rich": False, "seed": seed} for n in full if n not in set(rich)]
    return cases


def run_spv_sizes(case):
    res = Res()
    n, seed = case["n"], case["seed"]
    leaves = leaves_for(seed, n)
    memo = {}
    t = R.PartialTreeShape(n)
    root = t.calc_hash(t.height, 0, leaves, memo)
    hdr = proof_header(seed, root)
    seen = set()
    for nm, st in structured_sets(n, case["rich"]).items():
        key = frozenset(st)
        if key in seen:
            continue
        seen.add(key)
        match = [1 if i in st else 0 for i in range(n)]
        honest_eval(res, "spv-sizes", case, n, leaves, match, memo, root, hdr, (n, nm) if n >= 2 else None, sample=(n == 5000 and nm == "odds"))
    return res


# ------------------------------------------------------------------ engine: spv-tamper
TOTAL_BITS_ALL = 17  # total-count bits 0..16 are flipped for every proof
SMALL_N = 3  # bits 17..hi_bit only for the proofs of trees with <= 3 leaves
MUST_FAIL = ("hash-bit", "root-bit", "drop-hash", "dup-hash", "extra-hash", "swap-hash")


def gen_spv_tamper(tier, seed):
    top = 7 if tier == "quick" else 10
    hi_bit = 20 if tier == "quick" else 24
    cases = []
    # large transaction counts make the library allocate 2^(b+1) node slots: only the proofs of the smallest
    # trees, scheduled first (they are the slowest cases)
    for b in range(hi_bit, TOTAL_BITS_ALL - 1, -1):
        for n in range(1, SMALL_N + 1):
            for mask in range(1 << n):
                cases.append({"n": n, "mask": mask, "seed": seed, "totalbit": b})
    for n in range(top, 0, -1):
        for mask in range(1 << n):
            cases.append({"n": n, "mask": mask, "seed": seed, "hib": hi_bit})
    return cases


def tampers(n, hashes, flag_bytes, foreign, only_totalbit=None):
    """Yield (class, detail, total, hashes, flag_bytes, root_xor) for every alteration."""
    if only_totalbit is not None:
        yield ("total-bit", only_totalbit, n ^ (1 << only_totalbit), hashes, flag_bytes, None)
        return
    for i, h in enumerate(hashes):
        for b in range(256):
            x = bytearray(h)
            x[b // 8] ^= 1 << (b % 8)
            yield ("hash-bit", (i, b), n, hashes[:i] + [bytes(x)] + hashes[i + 1 :], flag_bytes, None)
    for b in range(256):
        yield ("root-bit", b, n, hashes, flag_bytes, b)
    for i in range(len(flag_bytes)):
        for b in range(8):
            x = bytearray(flag_bytes)
            x[i] ^= 1 << b
            yield ("flag-bit", (i, b), n, hashes, bytes(x), None)
    yield ("flags-resize", "drop-last", n, hashes, flag_bytes[:-1], None)
    for v in (0x00, 0x01, 0x80, 0xFF):
        yield ("flags-resize", f"append-{v:02x}", n, hashes, flag_bytes + bytes([v]), None)
    for b in range(TOTAL_BITS_ALL):
        yield ("total-bit", b, n ^ (1 << b), hashes, flag_bytes, None)
    for v in sorted({0, n - 1, n + 1, 2 * n, 2 * n + 1, (n + 1) // 2} - {n}):
        if v >= 0:
            yield ("total-set", v, v, hashes, flag_bytes, None)
    for i in range(len(hashes)):
        yield ("drop-hash", i, n, hashes[:i] + hashes[i + 1 :], flag_bytes, None)
        yield ("dup-hash", i, n, hashes[: i + 1] + [hashes[i]] + hashes[i + 1 :], flag_bytes, None)
        if i + 1 < len(hashes):
            yield ("swap-hash", i, n, hashes[:i] + [hashes[i + 1], hashes[i]] + hashes[i + 2 :], flag_bytes, None)
    for pos in sorted({0, len(hashes)}):
        yield ("extra-hash", pos, n, hashes[:pos] + [foreign] + hashes[pos:], flag_bytes, None)


def run_spv_tamper(case):
    res = Res()
    n, mask, seed = case["n"], case["mask"], case["seed"]
    vc = {"engine": "spv-tamper", "case": case}
    leaves = leaves_for(seed, n)
    idset = {h[::-1] for h in leaves}
    root = R.merkle_root(leaves)
    hdr = proof_header(seed, root)
    match = mask_bits(n, mask)
    bits, hs = R.build_partial(leaves, match)
    fb = R.pack_bits(bits)
    foreign = filler(seed, "foreign", 0)
    ok, proved, how = lib_check(R.ser_merkleblock(hdr, n, hs, fb))
    if not ok:
        res.skip("honest proof rejected (reported by spv-honest)")
        return res
    for cls, detail, total, hashes2, fb2, rootbit in tampers(n, hs, fb, foreign, case.get("totalbit")):
        h2 = hdr
        if rootbit is not None:
            x = bytearray(hdr)
            x[36 + rootbit // 8] ^= 1 << (rootbit % 8)
            h2 = bytes(x)
        raw = R.ser_merkleblock(h2, total, hashes2, fb2)
        ok, proved, how = lib_check(raw)
        key = (n, mask, cls, detail)
        if not ok:
            res.ok(f"{cls}:rejected", key)
            continue
        foreign_ids = [p for p in proved if p not in idset]
        if foreign_ids:
            res.violation(
                f"C17/spv-tamper/foreign-id-proved/{cls}",
                vc,
                {"tamper": [cls, detail], "total": total, "proved": [p.hex() if isinstance(p, bytes) else repr(p) for p in proved][:4]},
                "is_valid() False, or only block ids proved",
                "an altered proof validates and proves an id that is not in the block",
            )
        elif cls in MUST_FAIL:
            res.violation(
                f"C17/spv-tamper/altered-proof-validates/{cls}",
                vc,
                {"tamper": [cls, detail], "is_valid": True},
                "validation fails",
                "a proof with an altered hash list / header root still validates",
            )
        else:
            r = R.extract_matches(total, hashes2, fb2)
            ref_ok = r is not None and r[0][::-1] == R.parse_header(h2)["root_id"]
            res.ok(f"{cls}:accepted-benign(only block ids proved; reference {'accepts' if ref_ok else 'rejects'})", key, sample={"n": n, "mask": mask, "tamper": [cls, detail]} if cls != "flag-bit" else None)
    if "totalbit" not in case:
        hib = case.get("hib", 20)
        res.skip(f"transaction-count bits {hib + 1}..31 (the library allocates the whole tree: >= 2^{hib + 2} node slots)", 31 - hib)
        if n > SMALL_N:
            res.skip(f"transaction-count bits {TOTAL_BITS_ALL}..{hib} for trees with more than {SMALL_N} leaves (time/memory budget)", hib - TOTAL_BITS_ALL + 1)
    return res


# ------------------------------------------------------------------ engine: header
VERSIONS = [0, 1, 2, 4, 0x20000000, 0x3FFFFFFF, 0x7FFFFFFF, 0x80000000, 0xFFFFFFFF]
TIMES = [0, 1, 0x7FFFFFFF, 0x80000000, 0xFFFFFFFF, 1231006505]
BITS_CODEC = [0, 0x1D00FFFF, 0x207FFFFF, 0xFFFFFFFF, 0x01000000, 0x00FFFFFF]
NONCES = [0, 1, 0x01020304, 0x80000000, 0xFFFFFFFF]


def hash_alphabet(seed, label):
    return [b"\x00" * 32, b"\xff" * 32, b"\x01" + b"\x00" * 31, b"\x00" * 31 + b"\x01", filler(seed, label, 0)]


def gen_header(tier, seed):
    cases = []
    for vi in range(len(VERSIONS)):
        for pi in range(5):
            cases.append({"kind": "product", "v": vi, "p": pi, "seed": seed})
    nb = 1 if tier == "quick" else 3
    for b in range(nb):
        for pos in range(80):
            cases.append({"kind": "bytesweep", "base": b, "pos": pos, "seed": seed})
    return cases


def header_eval(res, vc, raw, nt):
    from buidl.block import Block

    f = R.parse_header(raw)
    want_fields = (f["version"], f["prev_id"], f["root_id"], f["time"], le4(f["bits"]), le4(f["nonce"]))
    blk = attempt(Block.parse_header, BytesIO(raw))
    if isinstance(blk, Rejected):
        res.violation("C17/header/parse-rejected", vc, repr(blk), "parses", "an 80-byte header is rejected by parse_header")
        return
    got = attempt(lambda: (blk.version, bytes(blk.prev_block), bytes(blk.merkle_root), blk.timestamp, bytes(blk.bits), bytes(blk.nonce)))
    if got != want_fields:
        bad = "?" if isinstance(got, Rejected) else ",".join(nm for nm, a, b in zip(("version", "prev_block", "merkle_root", "timestamp", "bits", "nonce"), got, want_fields) if a != b)
        res.violation(f"C17/header/parse-fields/{bad}", vc, str(got)[:300], str(want_fields)[:300], "parsed header fields differ from the encoded ones")
    else:
        res.ok("parse-fields==ref", nt)
    ser = attempt(blk.serialize)
    if ser != raw:
        res.violation("C17/header/reserialize", vc, ser, raw, "parse_header -> serialize does not reproduce the 80 bytes")
    else:
        res.ok("reserialize==raw")
    # second entry point of the same parser: parse_header(hex=...)
    hx = attempt(lambda: Block.parse_header(hex=raw.hex()))
    got_hx = attempt(lambda: (hx.version, bytes(hx.prev_block), bytes(hx.merkle_root), hx.timestamp, bytes(hx.bits), bytes(hx.nonce), hx.serialize()))
    if got_hx != want_fields + (raw,):
        res.violation("C17/header/parse_header-hex-form", vc, str(got_hx)[:300], str(want_fields + (raw,))[:300], "parse_header(hex=...) gives other fields / bytes than the encoded header")
    else:
        res.ok("hex-form:fields+bytes==ref", ("hex",) + tuple(nt) if nt is not None else None)
    built = attempt(lambda: Block(*want_fields).serialize())
    if built != raw:
        res.violation("C17/header/serialize", vc, built, raw, "Block(...).serialize() differs from the reference header encoding")
    else:
        res.ok("serialize==ref")
    hid = R.header_id(raw)
    h = attempt(blk.hash)
    if h != hid:
        res.violation("C17/header/hash", vc, h, hid, "hash() is not the reversed double-SHA256 of the 80 header bytes")
    else:
        res.ok("hash==ref")
    i = attempt(blk.id)
    if i != hid.hex():
        res.violation("C17/header/id", vc, i, hid.hex(), "id() is not the hex block hash")
    else:
        res.ok("id==ref")


def run_header(case):
    res = Res()
    seed = case["seed"]
    vc = {"engine": "header", "case": case}
    if case["kind"] == "product":
        v = VERSIONS[case["v"]]
        prev = hash_alphabet(seed, "hprev")[case["p"]]
        for ri, root in enumerate(hash_alphabet(seed, "hroot")):
            for t in TIMES:
                for b in BITS_CODEC:
                    for nn in NONCES:
                        header_eval(res, vc, R.ser_header(v, prev, root, t, b, nn), (case["v"], case["p"], ri, t, b, nn))
    else:
        base = bytearray(filler(seed, "hdrbase", case["base"], 80))
        pos = case["pos"]
        for val in range(256):
            base[pos] = val
            header_eval(res, vc, bytes(base), (case["base"], pos, val))
    return res


# ------------------------------------------------------------------ engine: compact
MANT_BOUNDARY = [0x00, 0x01, 0x7F, 0x80, 0xFF]


def structured_mantissas():
    s = set()
    for hi in range(256):
        for mid in MANT_BOUNDARY:
            for lo in MANT_BOUNDARY:
                s.add((hi << 16) | (mid << 8) | lo)
                s.add((mid << 16) | (hi << 8) | lo)
                s.add((mid << 16) | (lo << 8) | hi)
    s |= {0x123456, 0x00D86A, 0x0404CB, 0x008000, 0x007FFF, 0x010000, 0x00FFFF}
    return sorted(s)


def bits_class(c):
    e = c >> 24
    if e < 3:
        return "exp<3"
    if c & 0x00800000:
        return "sign-bit"
    if R.set_compact(c)[2]:
        return "overflow"
    return "regular"


def target_class(t):
    if t == 0:
        return "zero"
    if t < 1 << 16:
        return "target<2^16"
    return "regular"


FULL_EXPS = [1, 2, 3, 4, 5, 16, 0x1C, 0x1D, 0x1E, 0x1F, 0x20, 0x21, 0x22]


def gen_compact(tier, seed):
    cases = []
    exps_struct = list(range(0, 41)) + [0x7F, 0x80, 0xFE, 0xFF]
    if tier == "quick":
        for e in exps_struct:
            cases.append({"kind": "structured", "e": e})
    else:
        for e in FULL_EXPS:
            for hi in range(256):
                cases.append({"kind": "full", "e": e, "hi": hi})
        for e in exps_struct:
            if e not in FULL_EXPS:
                cases.append({"kind": "structured", "e": e})
    for k0 in range(0, 256, 16):
        cases.append({"kind": "targets", "k0": k0, "seed": seed})
    return cases


def run_compact(case):
    from buidl.helper import bits_to_target, target_to_bits

    res = Res()
    vc = {"engine": "compact", "case": case}
    viol = {}  # fingerprint -> [count, observed, expected, what]

    def bad(fp, mk):
        v = viol.get(fp)
        if v is None:
            viol[fp] = [1, *mk()]
        else:
            v[0] += 1

    T2B_FP = {k: f"C17/compact/target_to_bits/{k}" for k in ("zero", "target<2^16", "regular")}

    def check_t2b(t):
        want = le4(R.get_compact(t))
        try:
            got = target_to_bits(t)
        except Exception as ex:  # noqa
            got = Rejected(type(ex).__name__)
        if got != want:
            bad(T2B_FP[target_class(t)], lambda: ({"target": hex(t), "bits": got}, want, "target_to_bits differs from GetCompact (4 bytes, little endian)"))
            return False
        return True

    if case["kind"] == "targets":
        n_ok = 0
        seed = case["seed"]
        for k in range(case["k0"], case["k0"] + 16):
            ts = {1 << k, (1 << k) - 1, ((1 << k) + 1) & U256, (0xFFFF << k) & U256, (0x7FFFFF << k) & U256, (0x800000 << k) & U256, (0x80 << k) & U256, (0x7F << k) & U256}
            ts.add(int.from_bytes(filler(seed, "target", k), "big") >> (255 - k))
            if k == 0:
                ts.add(0)
            for t in sorted(ts):
                if check_t2b(t):
                    n_ok += 1
                    if len(res.samples) < 2:
                        res.samples.append({"target": hex(t), "bits": le4(R.get_compact(t)).hex()})
        res.bulk("target_to_bits==GetCompact", n_ok, n_ok)
    else:
        e = case["e"]
        if case["kind"] == "full":
            mants = range(case["hi"] << 16, (case["hi"] + 1) << 16)
        else:
            mants = structured_mantissas()
        n_b2t = n_t2b = n_over = n_neg_ok = 0
        full = case["kind"] == "full"
        B2T_FP = ["C17/compact/bits_to_target/exp<3", "C17/compact/bits_to_target/sign-bit", "C17/compact/bits_to_target/regular"]
        pack = struct.pack
        ebase = e << 24
        for m in mants:
            c = ebase | m
            v, neg, over = R.set_compact(c)
            try:
                got = bits_to_target(pack("<I", c))
            except Exception as ex:  # noqa
                got = Rejected(type(ex).__name__)
            if over:
                n_over += 1  # no consensus target exists; check_pow on these is asserted by engine pow
                continue
            if neg:
                # consensus: magnitude v with a sign flag (never a valid target); the library may refuse it
                if isinstance(got, Rejected) or (type(got) is int and got in (v, -v)):
                    n_neg_ok += 1
                else:
                    bad(
                        "C17/compact/bits_to_target/sign-bit",
                        lambda: ({"bits": hex(c), "target": got if isinstance(got, float) else hex(got) if isinstance(got, int) else repr(got)}, {"magnitude": hex(v), "negative": True}, "bit 23 of the compact value is the sign, not part of the mantissa"),
                    )
                continue
            if type(got) is not int or got != v:
                bad(
                    B2T_FP[0 if e < 3 else 1 if m & 0x800000 else 2],
                    lambda: (
                        {"bits": hex(c), "target": repr(got) if not isinstance(got, int) or isinstance(got, bool) else hex(got)},
                        hex(v),
                        "bits_to_target differs from SetCompact (must be the integer mantissa shifted by 8*(exponent-3), right shift below 3)",
                    ),
                )
            else:
                n_b2t += 1
            # reverse direction on the consensus target and on a full-precision neighbour
            if check_t2b(v):
                n_t2b += 1
            if e > 3 and m and (not full or (m & 0xFF) in (0x00, 0x80, 0xFF)):
                t2 = v | ((1 << (8 * (e - 3))) - 1)
                if t2 <= U256 and check_t2b(t2):
                    n_t2b += 1
        res.bulk("bits_to_target==SetCompact", n_b2t, n_b2t)
        res.bulk("target_to_bits==GetCompact", n_t2b, n_t2b)
        if n_neg_ok:
            res.bulk("negative-compact:refused-or-magnitude", n_neg_ok, n_neg_ok)
        if n_over:
            res.skip("overflowing compact value: no consensus target (check_pow asserted by engine pow)", n_over)
        if len(res.samples) < 1 and e in (3, 0x1D):
            res.samples.append({"bits": hex(ebase | 0x00FFFF), "target": hex(R.set_compact(ebase | 0x00FFFF)[0])})
    for fp, (cnt, obs, exp, what) in viol.items():
        res.violation(fp, vc, obs, exp, what)
        if cnt > 1:
            res.bulk("VIOLATION", cnt - 1)
            res.n_violations += cnt - 1
    return res


# ------------------------------------------------------------------ engine: pow
POW_MANTS = [0x000000, 0x000001, 0x0000FF, 0x000100, 0x007FFF, 0x008000, 0x00FFFF, 0x010000, 0x7FFFFF]


def pow_class(c, proof, target):
    bc = bits_class(c)
    if bc != "regular":
        return bc
    if proof == target:
        return "proof==target"
    return "regular"


def gen_pow(tier, seed):
    cases = []
    for tmpl in range(2):
        for e in range(0x1C, 0x25):
            for m in POW_MANTS + [0x800000, 0x80FFFF, 0xFFFFFF]:
                cases.append({"kind": "mined", "tmpl": tmpl, "bits": (e << 24) | m, "nonces": 256 if tier == "quick" else 3072, "seed": seed})
    for e in list(range(0, 41)) + [0x7F, 0x80, 0xFE, 0xFF]:
        cases.append({"kind": "stub", "e": e, "seed": seed})
    cases.append({"kind": "vectors"})
    return cases


REAL_HEADERS = list(R.GENESIS.values()) + [
    "010000006fe28c0ab6f1b372c1a6a246ae63f74f931e8365e15a089c68d6190000000000982051fd1e4ba744bbbe680e1fee14677ba1a3c3540bf7b1cdb606e857233e0e61bc6649ffff001d01e36299",
    "04000000fbedbbf0cfdaf278c094f187f2eb987c86a199da22bbb20400000000000000007b7697b29129648fa08b4bcd13c9d5e60abb973a1efac9c8d573c71c807c56c3d6213557faa80518c3737ec1",
    "04000000fbedbbf0cfdaf278c094f187f2eb987c86a199da22bbb20400000000000000007b7697b29129648fa08b4bcd13c9d5e60abb973a1efac9c8d573c71c807c56c3d6213557faa80518c3737ec0",
    "020000208ec39428b17323fa0ddec8e887b4a7c53b8c0a0a220cfd0000000000000000005b0750fce0a889502d40508d39576821155e9c9e3f5c3157f961db38fd8b25be1e77a759e93c0118a4ffd71d",
]


def run_pow(case):
    import buidl.block as bb

    res = Res()
    vc = {"engine": "pow", "case": case}
    viol = {}

    def compare(c, raw, digest, got, stub):
        want = R.check_pow(digest, c)
        if isinstance(got, Rejected):
            got_b = False
        else:
            got_b = got
        if got_b is True and want is True:
            return "accept"
        if (got_b is False or isinstance(got, Rejected)) and want is False:
            return "reject"
        proof = int.from_bytes(digest, "little")
        t, neg, over = R.set_compact(c)
        cls = pow_class(c, proof, t)
        fp = f"C17/pow/{cls}"
        if fp not in viol:
            viol[fp] = [0, {"bits": hex(c), "header": raw.hex(), "hash_le_int": hex(proof), "check_pow": repr(got), "hash_replaced_by_enumerated_digest": stub}, {"consensus": want, "target": hex(t), "negative": neg, "overflow": over}]
        viol[fp][0] += 1
        return None

    if case["kind"] == "vectors":
        for hx in REAL_HEADERS:
            raw = bytes.fromhex(hx)
            got = attempt(lambda: bb.Block.parse_header(BytesIO(raw)).check_pow())
            o = compare(R.parse_header(raw)["bits"], raw, R.header_hash(raw), got, False)
            if o:
                res.ok(f"real-header:{o}", hx[-8:])
    elif case["kind"] == "mined":
        c, seed = case["bits"], case["seed"]
        prev, root = filler(seed, "pprev", case["tmpl"]), filler(seed, "proot", case["tmpl"])
        t = R.set_compact(c)[0]
        n_acc = n_rej = 0
        closest = None
        for nonce in range(case["nonces"]):
            raw = R.ser_header(1 + case["tmpl"], prev, root, 1600000000, c, nonce)
            got = attempt(lambda: bb.Block(1 + case["tmpl"], prev, root, 1600000000, le4(c), le4(nonce)).check_pow())
            d = R.header_hash(raw)
            o = compare(c, raw, d, got, False)
            if o == "accept":
                n_acc += 1
            elif o == "reject":
                n_rej += 1
        res.bulk("mined:accept==consensus", n_acc, n_acc)
        res.bulk("mined:reject==consensus", n_rej, n_rej)
        if n_acc and n_rej and len(res.samples) < 1:
            res.samples.append({"bits": hex(c), "nonces": case["nonces"], "accepted": n_acc, "rejected": n_rej})
    else:
        e, seed = case["e"], case["seed"]
        cur = {}
        old = bb.hash256
        bb.hash256 = lambda s: cur["d"]
        try:
            for m in POW_MANTS:
                for sign in (0, 0x800000):
                    c = (e << 24) | m | sign
                    t = R.set_compact(c)[0] & U256
                    fi = int.from_bytes(filler(seed, "digest", e), "little")
                    proofs = {0, 1, (t - 1) & U256, t, (t + 1) & U256, U256, int.from_bytes(t.to_bytes(32, "big"), "little"), fi, t >> 1}
                    blk = bb.Block(2, b"\x11" * 32, b"\x22" * 32, 1600000000, le4(c), le4(0))
                    raw = R.ser_header(2, b"\x11" * 32, b"\x22" * 32, 1600000000, c, 0)
                    for p in sorted(proofs):
                        cur["d"] = p.to_bytes(32, "little")
                        got = attempt(blk.check_pow)
                        o = compare(c, raw, cur["d"], got, True)
                        if o:
                            res.ok(f"enumerated-digest:{o}", (c, p), sample={"bits": hex(c), "digest_le_int": hex(p), "result": o} if p == t - 1 and m == 0x00FFFF and not sign else None)
        finally:
            bb.hash256 = old
    for fp, (cnt, obs, exp) in viol.items():
        res.violation(fp, vc, obs, exp, "check_pow disagrees with CheckProofOfWork (valid iff compact value not negative, not overflowing, target != 0 and hash <= target)")
        if cnt > 1:
            res.bulk("VIOLATION", cnt - 1)
            res.n_violations += cnt - 1
    return res


# ------------------------------------------------------------------ engine: retarget
LO, HI, TS = R.TARGET_TIMESPAN // 4, R.TARGET_TIMESPAN * 4, R.TARGET_TIMESPAN


def td_alphabet(tier):
    w = 3 if tier == "quick" else 48
    s = {-(2**31), -TS, -1, 0, 1, TS // 2, TS * 2, 2 * HI, 2**31 - 1, 2**32, 1022578, 600 * 2016}
    for c in (LO, TS, HI):
        s |= set(range(c - w, c + w + 1))
    return sorted(s)


def gen_retarget(tier, seed):
    cases = []
    for e in range(1, 0x22):
        ms = [0x000001, 0x0000FF, 0x008000, 0x00FFFF, 0x010000, 0x123456, 0x7FFFFF, 0x80FFFF]
        ms.append(0x008000 + int.from_bytes(filler(seed, "mant", e, 3), "big") % (0x7FFFFF - 0x008000))
        for m in ms:
            cases.append({"bits": (e << 24) | m, "seed": seed})
    if tier == "thorough":
        # mantissa density: a strided sweep of the whole non-negative mantissa range for the exponents of real chains
        have = {c["bits"] for c in cases}
        for e in range(0x17, 0x1E):
            for m in range(0x008000, 0x800000, 0x1357):
                if ((e << 24) | m) not in have:
                    cases.append({"bits": (e << 24) | m, "seed": seed})
    return cases


def run_retarget(case):
    from buidl.helper import bits_to_target, calculate_new_bits, target_to_bits

    res = Res()
    vc = {"engine": "retarget", "case": case}
    c = case["bits"]
    tier = case.get("tier", "quick")
    v, neg, over = R.set_compact(c)
    tds = td_alphabet(tier)
    if over or neg or v > R.POW_LIMIT_MAIN or v == 0:
        res.skip("previous bits negative / zero / above the mainnet proof-of-work limit: cannot be the bits of a valid block", len(tds))
        return res
    lib_prev = attempt(bits_to_target, le4(c))
    if type(lib_prev) is not int or lib_prev != v:
        res.skip("previous bits mis-converted by bits_to_target (reported by engine compact)", len(tds))
        return res
    reported = set()
    for td in tds:
        want_c = R.next_bits(c, td)
        want = le4(want_c)
        new_t = min(v * min(max(td, LO), HI) // TS, R.POW_LIMIT_MAIN)
        if attempt(target_to_bits, new_t) != le4(R.get_compact(new_t)):
            res.skip("new target mis-encoded by target_to_bits (reported by engine compact)")
            continue
        got = attempt(calculate_new_bits, le4(c), td)
        region = "below-quarter-clamp" if td < LO else "above-x4-clamp" if td > HI else "at-clamp" if td in (LO, HI) else "unclamped"
        if got != want:
            fp = f"C17/retarget/{region}"
            if fp not in reported:
                reported.add(fp)
                res.violation(fp, vc, {"prev_bits": hex(c), "time_differential": td, "new_bits": got}, want, "calculate_new_bits differs from CalculateNextWorkRequired")
            else:
                res.bulk("VIOLATION", 1)
                res.n_violations += 1
        else:
            res.ok(f"retarget==consensus:{region}", (c, td), sample={"prev_bits": hex(c), "td": td, "new_bits": want.hex()} if td == 1022578 and c == 0x1D00FFFF else None)
    return res


# ------------------------------------------------------------------ engine: chain
POW_OPTS = ["good", "bad", "bad-mainnet-bits"]
LINK_OPTS = ["ok", "bitflip", "zero", "grandparent", "own-root"]
FIRST_LINK_OPTS = ["zero", "filler"]


def gen_chain(tier, seed):
    import itertools

    top = 3 if tier == "quick" else 4
    cases = []
    for ln in range(1, top + 1):
        firsts = [(p, l) for p in POW_OPTS for l in FIRST_LINK_OPTS]
        rest = [(p, l) for p in POW_OPTS for l in LINK_OPTS]
        for combo in itertools.product(firsts, *([rest] * (ln - 1))):
            cases.append({"chain": [list(x) for x in combo], "seed": seed})
    cases.append({"chain": [], "seed": seed})
    return cases


def mine(version, prev_id, root_id, time, bits, want_good):
    for nonce in range(100000):
        raw = R.ser_header(version, prev_id, root_id, time, bits, nonce)
        if R.check_pow(R.header_hash(raw), bits) == want_good:
            return raw
    raise RuntimeError("no nonce found")


def run_chain(case):
    from buidl.network import HeadersMessage

    res = Res()
    seed = case["seed"]
    vc = {"engine": "chain", "case": case}
    headers = []
    expect = True
    ids = []
    for i, (powk, link) in enumerate(case["chain"]):
        if i == 0:
            prev = b"\x00" * 32 if link == "zero" else filler(seed, "cprev", 0)
        else:
            good_prev = ids[-1]
            if link == "ok":
                prev = good_prev
            elif link == "bitflip":
                x = bytearray(good_prev)
                bit = (i * 67 + 5) % 256
                x[bit // 8] ^= 1 << (bit % 8)
                prev = bytes(x)
            elif link == "zero":
                prev = b"\x00" * 32
            elif link == "grandparent":
                prev = ids[-2] if i >= 2 else R.parse_header(headers[0])["prev_id"]
            else:
                prev = R.parse_header(headers[-1])["root_id"]
            if prev != good_prev:
                expect = False
        root = filler(seed, "croot", i)
        if powk == "good":
            raw = mine(1, prev, root, 1600000000 + i, 0x207FFFFF, True)
        elif powk == "bad":
            raw = mine(1, prev, root, 1600000000 + i, 0x207FFFFF, False)
            expect = False
        else:
            raw = mine(1, prev, root, 1600000000 + i, 0x1D00FFFF, False)
            expect = False
        headers.append(raw)
        ids.append(R.header_id(raw))
    assert R.chain_valid(headers) == expect
    wire = R.ser_headers_msg(headers)

    def go():
        msg = HeadersMessage.parse(BytesIO(wire))
        assert len(msg.headers) == len(headers)
        return msg.is_valid()

    got = attempt(go)
    res.states += len(headers) + 1
    res.transitions += len(headers)
    accepted = got is True
    if accepted != expect:
        broken = [f"{i}:{p}/{l}" for i, (p, l) in enumerate(case["chain"]) if p != "good" or (i > 0 and l != "ok")]
        cls = "valid-chain-rejected" if expect else "broken-chain-accepted/" + ("pow" if any(p != "good" for p, _ in case["chain"]) and all(l == "ok" for _, l in case["chain"][1:]) else "link")
        res.violation(f"C17/chain/{cls}", vc, {"is_valid": repr(got), "broken": broken}, expect, "HeadersMessage.is_valid disagrees with proof-of-work + linkage of every header")
    else:
        nt = repr(case["chain"]) if (len(headers) >= 2) else None
        res.ok("chain:accepted" if expect else "chain:rejected", nt, sample={"chain": case["chain"], "valid": expect} if len(headers) == 3 and expect else None)
    return res


# ------------------------------------------------------------------ engine: spv-deep (tampering of deep trees)
DEEP_QUICK = [11, 13, 16, 17, 33, 65, 257]
DEEP_THOROUGH = list(range(11, 18)) + [31, 32, 33, 63, 64, 65, 100, 127, 128, 129, 255, 257, 1000, 1023, 1025, 5000]
DEEP_SMALL_SETS = ("first", "last", "middle", "first+last", "last-two")
DEEP_ALL_SETS = DEEP_SMALL_SETS + ("none", "odds", "all", "every-third")
DEEP_TOTAL_BITS = 18
DEEP_ROOT_BITS = (0, 1, 127, 128, 254, 255)


def deep_sets(n):
    return DEEP_ALL_SETS if n <= 130 else DEEP_SMALL_SETS


def gen_spv_deep(tier, seed):
    sizes = DEEP_QUICK if tier == "quick" else DEEP_THOROUGH
    return [{"n": n, "set": nm, "seed": seed} for n in sorted(sizes, reverse=True) for nm in deep_sets(n)]


def deep_tampers(n, hashes, flag_bytes, foreign):
    """Like tampers(), for long hash lists: ONE bit per hash (position (37 i + 11 n) mod 256), a few root bits, every flag
    bit, count bits 0..17 and count values around n, every dropped / duplicated / swapped hash, a foreign hash at both ends."""
    for i, h in enumerate(hashes):
        b = (37 * i + 11 * n) % 256
        x = bytearray(h)
        x[b // 8] ^= 1 << (b % 8)
        yield ("hash-bit", (i, b), n, hashes[:i] + [bytes(x)] + hashes[i + 1 :], flag_bytes, None)
    for b in DEEP_ROOT_BITS:
        yield ("root-bit", b, n, hashes, flag_bytes, b)
    for i in range(len(flag_bytes)):
        for b in range(8):
            x = bytearray(flag_bytes)
            x[i] ^= 1 << b
            yield ("flag-bit", (i, b), n, hashes, bytes(x), None)
    yield ("flags-resize", "drop-last", n, hashes, flag_bytes[:-1], None)
    for v in (0x00, 0x01, 0x80, 0xFF):
        yield ("flags-resize", f"append-{v:02x}", n, hashes, flag_bytes + bytes([v]), None)
    for b in range(DEEP_TOTAL_BITS):
        yield ("total-bit", b, n ^ (1 << b), hashes, flag_bytes, None)
    for v in sorted({1, 2, n - 1, n + 1, 2 * n, 2 * n + 1, (n + 1) // 2, n // 2} - {n}):
        if v >= 0:
            yield ("total-set", v, v, hashes, flag_bytes, None)
    for i in range(len(hashes)):
        yield ("drop-hash", i, n, hashes[:i] + hashes[i + 1 :], flag_bytes, None)
        yield ("dup-hash", i, n, hashes[: i + 1] + [hashes[i]] + hashes[i + 1 :], flag_bytes, None)
        if i + 1 < len(hashes):
            yield ("swap-hash", i, n, hashes[:i] + [hashes[i + 1], hashes[i]] + hashes[i + 2 :], flag_bytes, None)
    for pos in sorted({0, len(hashes)}):
        yield ("extra-hash", pos, n, hashes[:pos] + [foreign] + hashes[pos:], flag_bytes, None)


def tamper_eval(res, engine, vc, key0, idset, hdr, alterations):
    """Shared oracle of the tamper engines: is_valid() True => only block ids proved; altered hash list / root => not valid."""
    for cls, detail, total, hashes2, fb2, rootbit in alterations:
        h2 = hdr
        if rootbit is not None:
            x = bytearray(hdr)
            x[36 + rootbit // 8] ^= 1 << (rootbit % 8)
            h2 = bytes(x)
        ok, proved, how = lib_check(R.ser_merkleblock(h2, total, hashes2, fb2))
        key = key0 + (cls, detail)
        if not ok:
            res.ok(f"{cls}:rejected", key)
            continue
        if any(p not in idset for p in proved):
            res.violation(
                f"C17/{engine}/foreign-id-proved/{cls}",
                vc,
                {"tamper": [cls, detail], "total": total, "proved": [p.hex() if isinstance(p, bytes) else repr(p) for p in proved][:4]},
                "is_valid() False, or only block ids proved",
                "an altered proof validates and proves an id that is not in the block",
            )
        elif cls in MUST_FAIL:
            res.violation(f"C17/{engine}/altered-proof-validates/{cls}", vc, {"tamper": [cls, detail], "is_valid": True}, "validation fails", "a proof with an altered hash list / header root still validates")
        else:
            res.ok(f"{cls}:accepted-benign(only block ids proved)", key)


def run_spv_deep(case):
    res = Res()
    n, seed, nm = case["n"], case["seed"], case["set"]
    vc = {"engine": "spv-deep", "case": case}
    leaves = leaves_for(seed, n)
    idset = {h[::-1] for h in leaves}
    sets = dict(structured_sets(n, True))
    sets["last-two"] = {max(0, n - 2), n - 1}
    st = sets[nm]
    match = [1 if i in st else 0 for i in range(n)]
    memo = {}
    t = R.PartialTreeShape(n)
    root = t.calc_hash(t.height, 0, leaves, memo)
    hdr = proof_header(seed, root)
    bits, hs = R.build_partial(leaves, match, memo)
    fb = R.pack_bits(bits)
    ok, proved, how = lib_check(R.ser_merkleblock(hdr, n, hs, fb))
    if not ok or proved != [leaves[i][::-1] for i in range(n) if match[i]]:
        res.skip("honest proof rejected / proves other ids (reported by spv-honest / spv-sizes)")
        return res
    res.ok("honest:valid+proved==matched", (n, nm), sample={"n": n, "set": nm, "hashes": len(hs), "flag_bits": len(bits)} if nm == "first+last" and n in (65, 5000) else None)
    tamper_eval(res, "spv-deep", vc, (n, nm), idset, hdr, deep_tampers(n, hs, fb, filler(seed, "foreign", 0)))
    return res


# ------------------------------------------------------------------ engine: root-dup / spv-dup (non-distinct leaves)
def letters(seed):
    return [filler(seed, "letter", i) for i in range(3)]


def gen_root_dup(tier, seed):
    top = 6 if tier == "quick" else 8
    return [{"len": ln, "first": f, "seed": seed} for ln in range(1, top + 1) for f in range(3)]


def run_root_dup(case):
    import itertools

    from buidl.block import Block
    from buidl.helper import merkle_parent_level, merkle_root

    res = Res()
    vc = {"engine": "root-dup", "case": case}
    abc = letters(case["seed"])
    ln = case["len"]
    for rest in itertools.product(range(3), repeat=ln - 1):
        word = (case["first"],) + rest
        leaves = [abc[i] for i in word]
        distinct = len(set(word)) == ln
        cls = "distinct" if distinct else "adjacent-equal" if any(word[i] == word[i + 1] for i in range(0, ln - 1, 2)) else "repeated"
        want = R.merkle_root(leaves)
        got = attempt(merkle_root, list(leaves))
        if got != want:
            res.violation(f"C17/root-dup/merkle_root/{cls}", dict(vc, word=list(word)), got, want, "merkle_root of a list with repeated elements differs from Bitcoin's Merkle root")
        else:
            res.ok("merkle_root==ref", None if distinct or ln < 2 else word)
        if ln >= 2:
            lvl = attempt(merkle_parent_level, list(leaves))
            wl = [R.dsha(leaves[i] + (leaves[i + 1] if i + 1 < ln else leaves[i])) for i in range(0, ln, 2)]
            if lvl != wl:
                res.violation(f"C17/root-dup/merkle_parent_level/{cls}", dict(vc, word=list(word)), str(lvl)[:200], str(wl)[:200], "merkle_parent_level differs from pairwise double-SHA256 with last-element duplication")
            else:
                res.ok("parent_level==ref")
        ids = [h[::-1] for h in leaves]

        def vmr(root_id):
            return Block(1, b"\x00" * 32, root_id, 0, le4(0x207FFFFF), b"\x00" * 4, tx_hashes=list(ids)).validate_merkle_root()

        if attempt(vmr, want[::-1]) is not True:
            res.violation(f"C17/root-dup/validate_merkle_root/rejects-correct/{cls}", dict(vc, word=list(word)), False, True, "validate_merkle_root rejects the correct root of a list with repeated ids")
        else:
            res.ok("validate==True")
        flipped = bytearray(want[::-1])
        flipped[ln % 32] ^= 0x40
        if attempt(vmr, bytes(flipped)) is True:
            res.violation(f"C17/root-dup/validate_merkle_root/accepts-bitflip/{cls}", dict(vc, word=list(word)), True, False, "validate_merkle_root accepts a wrong root")
        else:
            res.ok("validate-wrong-root-rejected")
    return res


def mutations(leaves, cap):
    """Lists with the SAME Merkle root obtained by repeating the last node of an odd level (CVE-2012-2459)."""
    out = []
    cur = list(leaves)
    root = R.merkle_root(leaves)
    while True:
        m = len(cur)
        h = (m & -m).bit_length() - 1
        if (m >> h) <= 1:
            break
        cur = cur + cur[-(1 << h) :]
        if len(cur) > cap:
            break
        assert R.merkle_root(cur) == root
        out.append(list(cur))
    return out


def gen_spv_dup(tier, seed):
    import itertools

    cases = []
    top = 4 if tier == "quick" else 6
    for n in range(2, top + 1):
        for first in range(3):
            cases.append({"kind": "leaves", "n": n, "first": first, "seed": seed})
    ntop, cap = (7, 8) if tier == "quick" else (11, 12)
    for n in range(1, ntop + 1):
        for mut in mutations(leaves_for(seed, n), cap):
            s = len(mut)
            for lo in range(0, 1 << s, 256):
                cases.append({"kind": "mutated", "n": n, "size": s, "lo": lo, "hi": min(1 << s, lo + 256), "seed": seed})
    return cases


def dup_eval(res, vc, key, hdr, total, leaves_used, match, block_ids, label):
    """Statement only: a validating proof yields block ids.  The verdict itself (library and reference extractor, which
    rejects identical left/right hashes) is recorded, never asserted."""
    bits, hs = R.build_partial(leaves_used, match)
    fb = R.pack_bits(bits)
    ok, proved, how = lib_check(R.ser_merkleblock(hdr, total, hs, fb))
    r = R.extract_matches(total, hs, fb)
    ref = "accepts" if r is not None and r[0][::-1] == R.parse_header(hdr)["root_id"] else "rejects"
    if ok and any(p not in block_ids for p in proved):
        res.violation(f"C17/spv-dup/foreign-id-proved/{label}", vc, {"match": match, "proved": [p.hex() for p in proved][:4]}, "only block ids proved", "a validating proof over repeated hashes proves an id that is not in the block")
    else:
        res.ok(f"{label}:library {'validates (only block ids proved)' if ok else 'rejects'}; reference extractor {ref}", key, sample={"case": label, "total": total, "matched": sum(match), "library_valid": ok, "reference": ref} if sum(match) == total and total in (3, 4) else None)


def run_spv_dup(case):
    import itertools

    res = Res()
    seed = case["seed"]
    vc = {"engine": "spv-dup", "case": case}
    if case["kind"] == "leaves":
        n = case["n"]
        abc = letters(seed)
        for rest in itertools.product(range(3), repeat=n - 1):
            word = (case["first"],) + rest
            if len(set(word)) == n:
                continue  # distinct leaves: engine spv-honest
            leaves = [abc[i] for i in word]
            hdr = proof_header(seed, R.merkle_root(leaves))
            ids = {l[::-1] for l in leaves}
            for mask in range(1 << n):
                dup_eval(res, vc, (word, mask), hdr, n, leaves, mask_bits(n, mask), ids, "block-with-repeated-ids")
    else:
        n, s = case["n"], case["size"]
        leaves = leaves_for(seed, n)
        mut = [m for m in mutations(leaves, s) if len(m) == s][0]
        hdr = proof_header(seed, R.merkle_root(leaves))
        ids = {l[::-1] for l in leaves}
        for mask in range(case["lo"], case["hi"]):
            dup_eval(res, vc, (n, s, mask), hdr, s, mut, mask_bits(s, mask), ids, "count-raised-tail-repeated")
    return res


# ------------------------------------------------------------------ engine: blockparse (Block.parse entry point)
def raw_tx(seed, i, segwit):
    """Hand-serialised transaction i (1-2 inputs, 1-3 outputs).  Returns (wire bytes, txid hash, wtxid hash), internal order."""
    nin, nout = 1 + i % 2, 1 + i % 3
    ver = le4(2 if segwit else 1)
    ins = b""
    for k in range(nin):
        ins += filler(seed, "bp-prev", 8 * i + k) + le4(k) + (b"\x00" if segwit else b"\x02\x51\x51") + le4(0xFFFFFFFE)
    outs = b""
    for k in range(nout):
        spk = b"\x00\x14" + filler(seed, "bp-spk", 8 * i + k, 20) if k % 2 == 0 else b"\x51"
        outs += struct.pack("<Q", 1000 * (i + 1) + k) + R.compact_size(len(spk)) + spk
    wit = b""
    for k in range(nin):
        wit += b"\x02" + b"\x02\xaa" + bytes([k]) + b"\x21" + filler(seed, "bp-wit", 8 * i + k, 33)
    lock = le4(i)
    body = R.compact_size(nin) + ins + R.compact_size(nout) + outs
    stripped = ver + body + lock
    full = ver + b"\x00\x01" + body + wit + lock if segwit else stripped
    return full, R.dsha(stripped), R.dsha(full)


def gen_blockparse(tier, seed):
    top = 7 if tier == "quick" else 9
    return [{"n": n, "seed": seed} for n in range(top, 0, -1)]


def run_blockparse(case):
    from buidl.block import Block

    res = Res()
    n, seed = case["n"], case["seed"]
    vc = {"engine": "blockparse", "case": case}
    txs = [(raw_tx(seed, i, False), raw_tx(seed, i, True)) for i in range(n)]
    prev = filler(seed, "bp-prevblock", 0)

    def lib(root, body):
        raw = R.ser_header(0x20000000, prev, root[::-1], 1600000000, 0x207FFFFF, 3) + body

        def go():
            b = Block.parse(BytesIO(raw))
            return [bytes(h) for h in b.tx_hashes], b.validate_merkle_root(), b.hash(), len(b.txs)

        return attempt(go), R.header_id(raw[:80])

    for pattern in range(1 << n):
        chosen = [txs[i][(pattern >> i) & 1] for i in range(n)]
        body = R.compact_size(n) + b"".join(c[0] for c in chosen)
        txids = [c[1] for c in chosen]
        cls = "with-segwit" if pattern else "legacy-only"
        vcp = dict(vc, pattern=pattern)
        root = R.merkle_root(txids)
        got, hid = lib(root, body)
        if isinstance(got, Rejected):
            res.violation(f"C17/blockparse/parse-rejected/{cls}", vcp, repr(got), "parses", "a well-formed block is rejected by Block.parse")
            continue
        hashes, valid, bh, ntx = got
        if hashes != [t[::-1] for t in txids] or ntx != n:
            res.violation(f"C17/blockparse/tx_hashes/{cls}", vcp, [h.hex() for h in hashes][:4], [t[::-1].hex() for t in txids][:4], "Block.parse: tx_hashes are not the transaction ids (double-SHA256 of the serialisation without witness, reversed) in block order")
        else:
            res.ok("tx_hashes==txids", (n, pattern))
        if valid is not True:
            res.violation(f"C17/blockparse/validate/rejects-correct/{cls}", vcp, valid, True, "validate_merkle_root of a parsed block rejects the Merkle root of its transaction ids")
        else:
            res.ok("validate==True", (n, pattern, "v"))
        if bh != hid:
            res.violation("C17/blockparse/header-hash", vcp, bh, hid, "hash() of a parsed block is not the hash of its first 80 bytes")
        else:
            res.ok("hash==ref")
        wrongs = {}
        wroot = R.merkle_root([c[2] for c in chosen])
        if wroot != root:
            wrongs["wtxid-root"] = wroot
        fl = bytearray(root)
        fl[(n + pattern) % 32] ^= 0x08
        wrongs["bitflip"] = bytes(fl)
        if n >= 2:
            wrongs["first-two-swapped"] = R.merkle_root([txids[1], txids[0]] + txids[2:])
        for nm, w in wrongs.items():
            got, _ = lib(w, body)
            if not isinstance(got, Rejected) and got[1] is True:
                res.violation(f"C17/blockparse/validate/accepts-{nm}", vcp, True, False, "validate_merkle_root of a parsed block accepts a header whose Merkle root is not the root of the transaction ids")
            else:
                res.ok(f"validate-{nm}-rejected", (n, pattern, nm))
    return res


# ------------------------------------------------------------------ engine: target (Block.target / Block.difficulty)
def gen_target(tier, seed):
    return [{"e": e, "half": h} for e in range(3, 0x23) for h in range(2)]


def run_target(case):
    import math

    from buidl.block import Block

    res = Res()
    e = case["e"]
    vc = {"engine": "target", "case": case}
    mants = structured_mantissas()
    mants = mants[: len(mants) // 2] if case["half"] == 0 else mants[len(mants) // 2 :]
    n_t = n_d = n_skip = n_zero = 0
    first = {}
    for m in mants:
        c = (e << 24) | m
        v, neg, over = R.set_compact(c)
        if neg or over:
            n_skip += 1
            continue
        blk = Block(1, b"\x00" * 32, b"\x00" * 32, 0, le4(c), b"\x00" * 4)
        t = attempt(blk.target)
        if type(t) is not int or t != v:
            first.setdefault("C17/target/target()", [0, {"bits": hex(c), "target": repr(t) if not isinstance(t, int) else hex(t)}, hex(v), "Block.target() is not the consensus target of the header's bits"])[0] += 1
        else:
            n_t += 1
        if v == 0:
            n_zero += 1
            continue
        # difficulty = (0xffff * 256^26) / target = (0xffff / mantissa) * 2^(8 * (0x1d - exponent)); the scaling by a power of two is exact
        want = math.ldexp(0xFFFF / m, 8 * (0x1D - e))
        d = attempt(blk.difficulty)
        if type(d) is not float or d != want:
            first.setdefault("C17/target/difficulty", [0, {"bits": hex(c), "difficulty": repr(d)}, repr(want), "Block.difficulty() is not difficulty-1 target / target (correctly rounded double)"])[0] += 1
        else:
            n_d += 1
    res.bulk("target()==SetCompact", n_t, n_t)
    res.bulk("difficulty==0xffff*2^208/target", n_d, n_d)
    if n_skip:
        res.skip("negative / overflowing bits: no consensus target", n_skip)
    if n_zero:
        res.skip("target 0: difficulty undefined", n_zero)
    if e == 0x1B and case["half"] == 0:
        res.samples.append({"bits": "0x1b0404cb", "difficulty": math.ldexp(0xFFFF / 0x0404CB, 16)})
    for fp, (cnt, obs, exp, what) in first.items():
        res.violation(fp, vc, obs, exp, what)
        if cnt > 1:
            res.bulk("VIOLATION", cnt - 1)
            res.n_violations += cnt - 1
    return res


# ------------------------------------------------------------------ engine: block-reuse (E2: histories on ONE Block object)
def reuse_alphabet(seed):
    a = [filler(seed, "ru-txa", i) for i in range(3)]
    b = [filler(seed, "ru-txb", i) for i in range(4)]
    ra, rb = R.merkle_root([x[::-1] for x in a])[::-1], R.merkle_root([x[::-1] for x in b])[::-1]
    return {
        "version": [1, 0x20000000, 0xFFFFFFFF],
        "prev_block": [filler(seed, "ru-prev", 0), b"\x00" * 32, filler(seed, "ru-prev", 1)],
        "merkle_root": [ra, rb, b"\xff" * 32],
        "timestamp": [1600000000, 0, 0xFFFFFFFF],
        "bits": [0x207FFFFF, 0x1D00FFFF, 0x2000FFFF],
        "nonce": [0, 1, 0xFFFFFFFF],
        "tx_hashes": [a, b, a + [a[-1]], "last:=other"],
    }


REUSE_FIELDS = ["version", "prev_block", "merkle_root", "timestamp", "bits", "nonce", "tx_hashes"]
OBSERVABLES = ["serialize", "hash", "id", "check_pow", "target", "validate_merkle_root"]


def reuse_ops(seed):
    al = reuse_alphabet(seed)
    return [(f, i) for f in REUSE_FIELDS for i in range(len(al[f]))]


def gen_block_reuse(tier, seed):
    ops = reuse_ops(seed)
    depth = 3 if tier == "quick" else 4
    cases = [{"kind": "history", "prefix": [list(a), list(b)], "depth": depth, "seed": seed} for a in ops for b in ops]
    cases.append({"kind": "nonce-sweep", "n": 512 if tier == "quick" else 8192, "seed": seed})
    return cases


def _reuse_build(state):
    from buidl.block import Block

    return Block(state["version"], state["prev_block"], state["merkle_root"], state["timestamp"], le4(state["bits"]), le4(state["nonce"]), tx_hashes=list(state["tx_hashes"]))


def _reuse_observe(blk):
    return (
        attempt(blk.serialize),
        attempt(blk.hash),
        attempt(blk.id),
        attempt(blk.check_pow) is True,
        attempt(blk.target),
        attempt(blk.validate_merkle_root) is True,
    )


def _reuse_expected(state):
    raw = R.ser_header(state["version"], state["prev_block"], state["merkle_root"], state["timestamp"], state["bits"], state["nonce"])
    hid = R.header_id(raw)
    return (
        raw,
        hid,
        hid.hex(),
        R.check_pow(R.header_hash(raw), state["bits"]),
        R.set_compact(state["bits"])[0],
        R.merkle_root([h[::-1] for h in state["tx_hashes"]])[::-1] == state["merkle_root"],
    )


def _reuse_compare(res, vc, blk, state, step, nt):
    got, want = _reuse_observe(blk), _reuse_expected(state)
    res.transitions += 1
    if got == want:
        res.ok(f"same object == reference (check_pow {want[3]}, merkle root {'matches' if want[5] else 'differs'})", nt)
        return True
    fresh = _reuse_observe(_reuse_build(state))
    for nm, g, w, f in zip(OBSERVABLES, got, want, fresh):
        if g == w:
            continue
        if f != w:
            res.skip(f"{nm}: a fresh object differs from the reference too (reported by engines header / pow / root)")
        else:
            res.violation(f"C17/block-reuse/stale-{nm}", dict(vc, step=step), g, w, f"after assigning header fields on the same Block object {nm}() differs from the reference and from a fresh object with the same fields")
    return False


def run_block_reuse(case):
    res = Res()
    seed = case["seed"]
    vc = {"engine": "block-reuse", "case": case}
    al = reuse_alphabet(seed)
    init = {f: al[f][0] for f in REUSE_FIELDS}

    def apply(blk, state, op):
        f, i = op
        v = al[f][i]
        if f == "tx_hashes":
            if v == "last:=other":  # in-place edit of the list the object holds
                other = filler(seed, "ru-other", 0)
                blk.tx_hashes[-1] = other
                state[f] = list(state[f][:-1]) + [other]
            else:
                blk.tx_hashes = list(v)
                state[f] = list(v)
        elif f in ("bits", "nonce"):
            setattr(blk, f, le4(v))
            state[f] = v
        else:
            setattr(blk, f, v)
            state[f] = v

    if case["kind"] == "nonce-sweep":
        state = dict(init)
        blk = _reuse_build(state)
        for nonce in range(case["n"]):
            blk.nonce = le4(nonce)
            state["nonce"] = nonce
            if not _reuse_compare(res, vc, blk, state, nonce, ("sweep", nonce)):
                break
        res.states += case["n"]
        return res
    ops = reuse_ops(seed)
    prefix = [tuple(o) for o in case["prefix"]]
    import itertools

    for tail in itertools.product(ops, repeat=case["depth"] - len(prefix)):
        hist = prefix + list(tail)
        state = dict(init)
        state["tx_hashes"] = list(state["tx_hashes"])
        blk = _reuse_build(state)
        if not _reuse_compare(res, vc, blk, state, -1, None):  # populates whatever the object keeps between calls
            return res
        for k, op in enumerate(hist):
            apply(blk, state, op)
            if not _reuse_compare(res, dict(vc, history=[list(o) for o in hist[: k + 1]]), blk, state, k, tuple(hist[: k + 1])):
                return res
        res.states += 1 + len(hist)
    return res


# ------------------------------------------------------------------ engine: chain-reuse (E2: histories on ONE HeadersMessage object)
CR_BITS = 0x207FFFFF


def cr_ops():
    ops = []
    for i in range(3):
        ops += [("replace", i, "badpow"), ("replace", i, "unlinked"), ("replace", i, "orig")]
        ops += [("inplace-nonce", i, ""), ("inplace-prev", i, ""), ("inplace-restore", i, "")]
    ops += [("swap", 0, ""), ("swap", 1, ""), ("pop", 0, ""), ("append", 0, "good"), ("append", 0, "unlinked")]
    return ops


def gen_chain_reuse(tier, seed):
    ops = cr_ops()
    depth = 3 if tier == "quick" else 4
    return [{"prefix": [list(a), list(b)], "depth": depth, "seed": seed} for a in ops for b in ops]


def _flip(h, bit):
    x = bytearray(h)
    x[bit // 8] ^= 1 << (bit % 8)
    return bytes(x)


def run_chain_reuse(case):
    import itertools

    from buidl.block import Block
    from buidl.network import HeadersMessage

    res = Res()
    seed = case["seed"]
    vc = {"engine": "chain-reuse", "case": case}
    orig = []
    prev = b"\x00" * 32
    for i in range(3):
        raw = mine(1, prev, filler(seed, "cr-root", i), 1600000000 + i, CR_BITS, True)
        orig.append(raw)
        prev = R.header_id(raw)

    def fields(raw):
        return R.parse_header(raw)

    def remine(raw, good, prev=None):
        f = fields(raw)
        return mine(f["version"], f["prev_id"] if prev is None else prev, f["root_id"], f["time"], f["bits"], good)

    def apply(msg, model, op, step):
        """Returns False when the operation does not apply to the current list."""
        kind, i, arg = op
        if kind == "replace":
            if i >= len(model):
                return False
            if arg == "orig":
                raw = orig[i]
            elif arg == "badpow":
                raw = remine(model[i], False)
            else:
                raw = remine(model[i], True, _flip(fields(model[i])["prev_id"], (step * 67 + i * 13 + 5) % 256))
            model[i] = raw
            msg.headers[i] = Block.parse_header(BytesIO(raw))
        elif kind == "inplace-nonce":
            if i >= len(model):
                return False
            raw = remine(model[i], False)
            model[i] = raw
            msg.headers[i].nonce = le4(fields(raw)["nonce"])
        elif kind == "inplace-prev":
            if i >= len(model):
                return False
            f = fields(model[i])
            raw = R.ser_header(f["version"], _flip(f["prev_id"], (step * 31 + i * 7 + 3) % 256), f["root_id"], f["time"], f["bits"], f["nonce"])
            model[i] = raw
            msg.headers[i].prev_block = fields(raw)["prev_id"]
        elif kind == "inplace-restore":
            if i >= len(model):
                return False
            f = fields(orig[i])
            h = msg.headers[i]
            h.version, h.prev_block, h.merkle_root, h.timestamp, h.bits, h.nonce = f["version"], f["prev_id"], f["root_id"], f["time"], le4(f["bits"]), le4(f["nonce"])
            model[i] = orig[i]
        elif kind == "swap":
            if i + 1 >= len(model):
                return False
            model[i], model[i + 1] = model[i + 1], model[i]
            msg.headers[i], msg.headers[i + 1] = msg.headers[i + 1], msg.headers[i]
        elif kind == "pop":
            if not model:
                return False
            model.pop()
            msg.headers.pop()
        else:
            last = R.header_id(model[-1]) if model else b"\x00" * 32
            if arg == "unlinked":
                last = _flip(last, (step * 41 + 9) % 256)
            raw = mine(1, last, filler(seed, "cr-app", step), 1600000100 + step, CR_BITS, True)
            model.append(raw)
            msg.headers.append(Block.parse_header(BytesIO(raw)))
        return True

    def compare(msg, model, hist):
        got = attempt(msg.is_valid) is True
        want = R.chain_valid(model)
        res.transitions += 1
        if got == want:
            res.ok("same object == reference: " + ("accepted" if want else "rejected"), tuple(hist) if hist else None)
            return True
        fresh = attempt(lambda: HeadersMessage.parse(BytesIO(R.ser_headers_msg(model))).is_valid()) is True
        if fresh != want:
            res.skip("a fresh message differs from the reference too (reported by engine chain)")
        else:
            res.violation(
                "C17/chain-reuse/stale-verdict/" + ("broken-chain-accepted" if got else "valid-chain-rejected"),
                dict(vc, history=[list(o) for o in hist]),
                got,
                want,
                "after editing the same HeadersMessage object is_valid() differs from the reference and from a fresh message with the same headers",
            )
        return False

    ops = cr_ops()
    prefix = [tuple(o) for o in case["prefix"]]
    for tail in itertools.product(ops, repeat=case["depth"] - len(prefix)):
        hist = prefix + list(tail)
        model = list(orig)
        msg = HeadersMessage.parse(BytesIO(R.ser_headers_msg(model)))
        if not compare(msg, model, []):
            return res
        done = []
        for k, op in enumerate(hist):
            if not apply(msg, model, op, k):
                res.skip("operation does not apply to the current header list")
                continue
            done.append(op)
            if not compare(msg, model, done):
                return res
        res.states += 1 + len(done)
    return res


# ------------------------------------------------------------------ engine: chain-ext (per-header bits, repeated header, long chains)
CHAIN_BITS = [0x207FFFFF, 0x2000FFFF, 0x1F7FFFFF]


def gen_chain_ext(tier, seed):
    import itertools

    first = [(b, p, "start") for b in range(3) for p in ("good", "bad")]
    rest = [(b, p, l) for b in range(3) for p in ("good", "bad") for l in ("ok", "bitflip")] + [(0, "good", "repeat")]
    cases = []
    for ln in range(1, 4):
        for combo in itertools.product(first, *([rest] * (ln - 1))):
            cases.append({"kind": "bits", "chain": [list(x) for x in combo], "seed": seed})
    for L in [60] if tier == "quick" else [60, 2000]:
        cases.append({"kind": "long", "len": L, "brk": "none", "pos": 0, "seed": seed})
        for pos in (0, L // 2, L - 1):
            cases.append({"kind": "long", "len": L, "brk": "pow", "pos": pos, "seed": seed})
        for pos in (1, L // 2, L - 1):
            cases.append({"kind": "long", "len": L, "brk": "link", "pos": pos, "seed": seed})
    return cases


def run_chain_ext(case):
    from buidl.network import HeadersMessage

    res = Res()
    seed = case["seed"]
    vc = {"engine": "chain-ext", "case": case}
    headers = []
    expect = True
    if case["kind"] == "bits":
        for i, (b, powk, link) in enumerate(case["chain"]):
            if link == "repeat":
                headers.append(headers[-1])
                expect = False  # a header never names its own hash as predecessor
                continue
            prev = filler(seed, "xprev", 0) if i == 0 else R.header_id(headers[-1])
            if link == "bitflip":
                prev = _flip(prev, (i * 67 + 5) % 256)
                expect = False
            if powk == "bad":
                expect = False
            headers.append(mine(1, prev, filler(seed, "xroot", i), 1600000000 + i, CHAIN_BITS[b], powk == "good"))
        nt = repr(case["chain"]) if len(headers) >= 2 else None
    else:
        L, brk, pos = case["len"], case["brk"], case["pos"]
        prev = b"\x00" * 32
        for i in range(L):
            good = True
            if brk == "pow" and i == pos:
                good = False
            if brk == "link" and i == pos:
                prev = _flip(prev, (pos * 67 + 5) % 256)
            raw = mine(1, prev, filler(seed, "lroot", i % 7), 1600000000 + i, 0x207FFFFF, good)
            headers.append(raw)
            prev = R.header_id(raw)
        expect = brk == "none"
        nt = (L, brk, pos)
    assert R.chain_valid(headers) == expect

    def go():
        msg = HeadersMessage.parse(BytesIO(R.ser_headers_msg(headers)))
        assert len(msg.headers) == len(headers)
        return msg.is_valid()

    got = attempt(go)
    res.states += len(headers) + 1
    res.transitions += len(headers)
    if (got is True) != expect:
        if expect:
            cls = "valid-chain-rejected"
        elif case["kind"] == "long":
            cls = f"broken-chain-accepted/long-{case['brk']}"
        elif any(l == "repeat" for _, _, l in case["chain"]):
            cls = "broken-chain-accepted/repeated-header"
        elif any(l == "bitflip" for _, _, l in case["chain"]):
            cls = "broken-chain-accepted/link"
        else:
            cls = "broken-chain-accepted/pow"
        res.violation(f"C17/chain-ext/{cls}", vc, {"is_valid": repr(got)}, expect, "HeadersMessage.is_valid disagrees with proof-of-work + linkage of every header")
    else:
        res.ok("chain:accepted" if expect else "chain:rejected", nt, sample={"len": len(headers), "valid": expect, "kind": case["kind"]} if case["kind"] == "long" and case["brk"] in ("none", "link") and case["pos"] <= 1 else None)
    return res


# ------------------------------------------------------------------ registry
def engines(tier, seed):
    def with_tier(gen):
        def g(t, s):
            cs = gen(t, s)
            for c in cs:
                c["tier"] = t
            return cs

        return g

    return [
        Engine(
            "root",
            gen_root,
            run_root,
            kind="E1",
            rule="every list length 1..64 (thorough 1..1100) and {2^k-1,2^k,2^k+1: k<=12} U {3519,5000} (thorough + 8191..8193,16666,32769) of distinct leaves: "
            "merkle_root, a second call on the list it modified, merkle_parent_level and Block.validate_merkle_root (correct root accepted; bit-flipped, "
            "unreversed, ids-not-reversed, first-two-swapped, last-duplicated, odd-element-promoted roots rejected) against an independent level-by-level "
            "reference. Non-trivial = length >= 2",
        ),
        Engine(
            "spv-honest",
            gen_spv_honest,
            run_spv_honest,
            kind="E1",
            rule="every leaf count 1..10 (thorough 1..15) x all 2^n match subsets: merkleblock message built by the reference BIP37 builder, parsed by MerkleBlock.parse; "
            "is_valid() must be True and proved_txs() must equal the matched ids in block order. Non-trivial = n >= 2 (each (n, subset) distinct)",
        ),
        Engine(
            "spv-reuse",
            gen_spv_reuse,
            run_spv_reuse,
            kind="E2",
            rule="histories on ONE MerkleBlock object: every proof with 1..5 (thorough 7) leaves x every non-empty match subset: validate, then for every in-place alteration "
            "(bit flip of each hash, dropped / appended hash, flag bit, count+1): validate the SAME object again, compare verdict and proved ids with a fresh object parsed from the "
            "altered data (an altered hash must not validate), restore, validate again (must equal the first observation)",
        ),
        Engine(
            "spv-sizes",
            gen_spv_sizes,
            run_spv_sizes,
            kind="E1",
            rule="every block size 1..600 (thorough 1..5000) x 4 match sets {first,last,middle,odds}; boundary sizes {2^k-1,2^k,2^k+1: k<=12} U {3519,5000} "
            "(thorough + 8191,8192,8193,16385,16666,65537) x 13 structured match sets (none, all, first+last, evens, halves, every third, power-of-two positions, last two, ...). "
            "Same oracle as spv-honest. Non-trivial = n >= 2",
        ),
        Engine(
            "spv-tamper",
            gen_spv_tamper,
            run_spv_tamper,
            kind="E1",
            chunk=4,
            rule="every proof of every tree with 1..7 (thorough 1..10) leaves x all match subsets x {every single bit of every hash, of the header root, of every flag byte, "
            "bits 0..16 of the transaction count (bits 17..20 quick / 17..24 thorough only for trees <= 3 leaves, higher bits skipped: the library allocates the whole claimed tree), count set to 0/n-1/n+1/2n/2n+1/ceil(n/2), flag bytes dropped/appended, "
            "each hash dropped, duplicated, swapped with its neighbour, a foreign hash prepended/appended}. Oracle: is_valid() True => every proved id is a block id; "
            "for altered hash lists / root additionally is_valid() must not be True. Non-trivial = each (proof, alteration). Outside what is asserted: depth-truncated proofs "
            "(several fields altered together: a smaller transaction count with the hashes replaced by inner nodes make an inner node appear as a transaction id; BIP37 does not commit to the tree depth, Bitcoin Core accepts the same proof)",
        ),
        Engine(
            "header",
            gen_header,
            run_header,
            kind="E1",
            rule="9 versions x 5 prev hashes x 5 merkle roots x 6 times x 6 bits x 5 nonces boundary product (40 500 headers) + every value of every one of the 80 bytes of a filler header "
            "(thorough: 3 filler headers): parse_header fields, parse->serialize, parse_header(hex=...) fields and bytes, Block(...).serialize, hash(), id() against the reference encoder / double-SHA256",
        ),
        Engine(
            "compact",
            gen_compact,
            run_compact,
            kind="E1",
            rule="quick: exponents 0..40,0x7f,0x80,0xfe,0xff x ~11 000 structured 24-bit mantissas (each byte swept over 0..255 with the other two over {00,01,7f,80,ff}); "
            "thorough: ALL 2^24 mantissas (sign bit included) x exponents {1,2,3,4,5,16,0x1c..0x22} (13 x 2^24 compact values), structured set for the other exponents. bits_to_target must be the int of SetCompact "
            "(negative values: refused or magnitude; overflowing: skipped), target_to_bits must equal GetCompact on each consensus target, on its all-ones "
            "full-precision neighbour (thorough sweep: for mantissas whose low byte is 00/80/ff), and on 2^k, 2^k+-1, ffff<<k, 7fffff<<k, 800000<<k, 7f<<k, 80<<k, filler>>(255-k) for every k<256 and 0",
        ),
        Engine(
            "pow",
            gen_pow,
            run_pow,
            kind="E1",
            rule="(a) 2 header templates x exponents 0x1c..0x24 x 12 mantissas (incl. sign bit, zero, overflowing) x every nonce 0..255 (thorough 0..3071) with the real double-SHA256: "
            "check_pow == CheckProofOfWork without the network limit; (b) buidl.block.hash256 replaced by an enumerated digest: exponents 0..40,0x7f,0x80,0xfe,0xff x 9 mantissas x sign x "
            "digests {0,1,T-1,T,T+1,2^256-1,byte-reversed T,T/2,filler}; (c) 7 real headers. Non-trivial = each (bits, digest) pair; both outcomes are counted. "
            "Outside what is asserted: the network proof-of-work limit (target <= powLimit of mainnet / testnet / regtest) - Block.check_pow has no network context, so targets above every network's limit "
            "(e.g. bits 0x2100ffff) are expected to be accepted when hash <= target",
        ),
        Engine(
            "retarget",
            with_tier(gen_retarget),
            run_retarget,
            kind="E1",
            chunk=40,
            rule="previous bits: exponents 1..0x21 x 9 mantissas x time differentials {-2^31,-TS,-1,0,1,TS/2,2TS,8TS,2^31-1,2^32, first mainnet retarget} U [c-3,c+3] (thorough [c-48,c+48]) "
            "for c in {TS/4, TS, 4TS}: calculate_new_bits == CalculateNextWorkRequired(mainnet limit); thorough adds exponents 0x17..0x1d x every 0x1357-th mantissa of [0x008000, 0x800000) x the same differentials. Skipped: previous bits that cannot occur in a valid mainnet block, "
            "and inputs/outputs on which the library's own conversions already disagree with the reference (reported by engine compact)",
        ),
        Engine(
            "chain",
            gen_chain,
            run_chain,
            kind="E2",
            chunk=100,
            rule="all header chains of length 0..3 (thorough 0..4) over per-header alphabets pow in {good, bad at regtest bits, bad at mainnet bits} x link in {ok, one bit flipped, zero, "
            "grandparent, predecessor's merkle root} (first header: prev zero/filler), mined by the harness at bits 0x207fffff, sent through HeadersMessage.parse: is_valid() == "
            "(every header satisfies its proof of work and names its predecessor's hash). states/transitions = headers consumed. Non-trivial = chains of >= 2 headers. "
            "Outside what is asserted: the network proof-of-work limit (HeadersMessage.is_valid has no network context; headers at regtest difficulty or easier are accepted)",
        ),
        Engine(
            "spv-deep",
            gen_spv_deep,
            run_spv_deep,
            kind="E1",
            chunk=1,
            rule="tampering of deep trees: leaf counts {11,13,16,17,33,65,257} (thorough {11..17,31..33,63..65,100,127..129,255,257,1000,1023,1025,5000}) x match sets {first,last,middle,first+last,last two} "
            "(+ none, odds, all, every third for n <= 130) x {one bit of every hash (bit (37i+11n) mod 256 of hash i), root bits {0,1,127,128,254,255}, every bit of every flag byte, flag bytes dropped/appended, "
            "transaction-count bits 0..17, count set to 1,2,n-1,n+1,2n,2n+1,floor(n/2),ceil(n/2), each hash dropped / duplicated / swapped with its neighbour, a foreign hash prepended/appended}. "
            "Same oracle as spv-tamper (is_valid() True => only block ids proved; altered hash list / root => not valid); depth-truncated multi-field proofs are outside what is asserted. Non-trivial = each (proof, alteration)",
        ),
        Engine(
            "root-dup",
            gen_root_dup,
            run_root_dup,
            kind="E1",
            rule="EVERY list of length 1..6 (thorough 1..8) over a 3-letter alphabet of 32-byte hashes (so repeated and adjacent-equal elements in every position): merkle_root, merkle_parent_level, "
            "Block.validate_merkle_root (correct root accepted, bit-flipped root rejected) against the reference. Non-trivial = lists with a repeated element",
        ),
        Engine(
            "spv-dup",
            gen_spv_dup,
            run_spv_dup,
            kind="E1",
            rule="proofs over repeated hashes, built by the reference BIP37 builder: (a) every block of 2..4 (thorough 2..6) ids over a 3-letter alphabet with at least one repeated id x all match subsets; "
            "(b) for every block of n <= 7 (thorough 11) distinct ids that has an odd level: the lists with the SAME Merkle root obtained by repeating the last node of an odd level (size <= 8, thorough 12), "
            "transaction count raised accordingly, x all match subsets of the longer list, against the real header. Asserted (statement only): is_valid() True => every proved id is an id of the block. "
            "The verdict is recorded per outcome together with the reference extractor's (which, like Bitcoin Core, rejects identical left/right hashes) and is NOT asserted",
        ),
        Engine(
            "blockparse",
            gen_blockparse,
            run_blockparse,
            kind="E1",
            chunk=1,
            rule="Block.parse entry point: blocks of n = 1..7 (thorough 9) hand-serialised transactions (1-2 inputs, 1-3 outputs) x all 2^n legacy / segwit (marker, flag, witness stacks) patterns: "
            "tx_hashes == double-SHA256 of the witness-stripped serialisation (reversed) in block order, validate_merkle_root() True for the root of the txids and False for the root of the wtxids, "
            "a bit-flipped root and the root with the first two ids swapped; hash() == id of the first 80 bytes. Non-trivial = each (n, pattern)",
        ),
        Engine(
            "target",
            gen_target,
            run_target,
            kind="E1",
            rule="Block.target() and Block.difficulty() for exponents 3..0x22 x ~11 000 structured mantissas (non-negative, non-overflowing): target() == SetCompact integer; for target != 0 "
            "difficulty() == the double (0xffff / mantissa) * 2^(8*(0x1d-exponent)) = correctly rounded 0xffff*2^208 / target. Skipped: negative / overflowing bits, difficulty of target 0",
        ),
        Engine(
            "block-reuse",
            gen_block_reuse,
            run_block_reuse,
            kind="E2",
            rule="histories on ONE Block object: every sequence of 3 (thorough 4) assignments over {version, prev_block, merkle_root, timestamp, bits, nonce: 3 values each (the first = initial value); tx_hashes: 3 lists + "
            "in-place replacement of the last id} (22 operations); before the first and after every assignment serialize(), hash(), id(), check_pow(), target(), validate_merkle_root() must equal the reference "
            "computed from the assigned fields (a mismatch that a FRESH object shows too is left to engines header/pow/root); + one object whose nonce runs over 0..511 (thorough 0..8191). "
            "states = observations, transitions = assignments observed",
        ),
        Engine(
            "chain-reuse",
            gen_chain_reuse,
            run_chain_reuse,
            kind="E2",
            rule="histories on ONE HeadersMessage object parsed from 3 linked harness-mined headers: every sequence of 3 (thorough 4) operations over {headers[i] replaced by a header with bad proof of work / a "
            "flipped prev / the original; headers[i].nonce, headers[i].prev_block assigned in place, headers[i] restored in place (i < 3); neighbours swapped; last header popped; a linked / an unlinked header appended} "
            "(23 operations): is_valid() before the first and after every applicable operation == reference verdict of the current header list (a mismatch that a fresh message shows too is left to engine chain). "
            "The network proof-of-work limit is outside what is asserted",
        ),
        Engine(
            "chain-ext",
            gen_chain_ext,
            run_chain_ext,
            kind="E2",
            chunk=40,
            rule="(a) all chains of 1..3 headers over per-header bits {0x207fffff, 0x2000ffff, 0x1f7fffff} x pow {good, bad} x link {ok, one bit flipped} + link option 'the previous header repeated byte for byte', "
            "harness-mined; (b) chains of 60 (thorough also 2000) headers, unbroken and with the proof of work broken at the first / middle / last header or one link broken at the second / middle / last header: "
            "HeadersMessage.is_valid() == reference (own proof of work + predecessor hash for every header; no network proof-of-work limit)",
        ),
    ]
