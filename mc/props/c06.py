"""C06 — input verification accepts properly signed spends and nothing unauthorised.

E1 spend: for every standard output type the library can sign, a spend is built and signed THROUGH THE LIBRARY API
   (level 0: verify_input must be True), then every mutation of a catalogue is applied at the wire level
   (level 1; thorough: all pairs) and Tx.verify_input is compared with the reference consensus verifier:
   library True  =>  reference valid.
"""
import functools
import itertools
from io import BytesIO

from mc.core import Engine, Res, attempt, Rejected, filler_int
from mc.ref import ec, txref, interp

PROP = "C06"
N = ec.SECP.n
C = ec.SECP


def key(i):
    return filler_int(0, "c06key", i, 1, N - 1)


FOREIGN = 99  # index of a key outside every script


# ------------------------------------------------------------------ building bases through the library
def lib_objects():
    from buidl import pecc
    from buidl.script import Script, RedeemScript, WitnessScript, P2PKHScriptPubKey, P2TRScriptPubKey
    from buidl.tx import Tx, TxIn, TxOut
    from buidl.witness import Witness
    from buidl import taproot

    return locals()


def multisig_script_items(m, keys):
    secs = sorted(C.sec(C.mulg(key(k))) for k in keys)
    return [0x50 + m] + secs + [0x50 + len(keys), 0xAE], secs


def abstract_of(ltx, spent):
    ins = []
    for i in ltx.tx_ins:
        ins.append({"prev": bytes(i.prev_tx), "index": i.prev_index, "script": i.script_sig.raw_serialize(), "seq": int(i.sequence), "witness": [bytes(x) for x in i.witness.items]})
    return {
        "version": ltx.version,
        "locktime": int(ltx.locktime),
        "segwit": any(i["witness"] for i in ins),
        "ins": ins,
        "outs": [{"amount": o.amount, "script": o.script_pubkey.raw_serialize()} for o in ltx.tx_outs],
    }


def spec_fields(spec):
    """spec: (type, m, n, variant[, kbase[, n_in, n_out, idx[, ht]]]).
    kbase: index of the first key (keys are key(kbase) .. key(kbase+n-1)); n_in/n_out/idx: transaction shape and the
    position of the input under test (default 2 x 2, idx = variant % 2); ht: hash type of the signature(s) of the
    input under test (default: what the signing API uses by itself)."""
    spec = tuple(spec)
    typ, m, n, variant = spec[:4]
    kbase = spec[4] if len(spec) > 4 else 0
    n_in, n_out, idx = spec[5:8] if len(spec) > 7 else (2, 2, variant % 2)
    ht = spec[8] if len(spec) > 8 else None
    return typ, m, n, variant, kbase, n_in, n_out, idx, ht


@functools.lru_cache(maxsize=16)
def build_base(spec):
    """spec: see spec_fields. Returns (abstract tx, spent list, idx, info) built and signed by buidl."""
    L = lib_objects()
    pecc, Script, Tx, TxIn, TxOut, Witness, taproot = L["pecc"], L["Script"], L["Tx"], L["TxIn"], L["TxOut"], L["Witness"], L["taproot"]
    typ, m, n, variant, kbase, n_in, n_out, idx, ht = spec_fields(spec)
    keys = [kbase + j for j in range(n)]
    privs = [pecc.PrivateKey(key(k)) for k in keys]
    amount = 1000000 + variant
    info = {"type": typ, "m": m, "n": n, "keys": keys}
    # spent script for the input under test
    if typ in ("p2pkh", "p2pkh-u"):
        comp = typ == "p2pkh"
        privs[0] = pecc.PrivateKey(key(keys[0]), compressed=comp)
        sec = C.sec(C.mulg(key(keys[0])), comp)
        spk = b"\x76\xa9\x14" + txref.h160(sec) + b"\x88\xac"
        info.update(sigver="base", script_code=spk, sig_at=[("ss", 0)], pub_at=("ss", 1))
    elif typ in ("p2sh", "p2wsh", "p2sh-p2wsh"):
        items, secs = multisig_script_items(m, keys)
        ms = txref.script_from_items(items)
        info.update(script=ms, script_code=ms, secs=secs)
        if typ == "p2sh":
            spk = b"\xa9\x14" + txref.h160(ms) + b"\x87"
            info.update(sigver="base", sig_at=[("ss", 1 + j) for j in range(m)], script_at=("ss", m + 1), dummy_at=("ss", 0))
        elif typ == "p2wsh":
            spk = b"\x00\x20" + txref.sha256(ms)
            info.update(sigver="v0", sig_at=[("wit", 1 + j) for j in range(m)], script_at=("wit", m + 1), dummy_at=("wit", 0))
        else:
            redeem = b"\x00\x20" + txref.sha256(ms)
            spk = b"\xa9\x14" + txref.h160(redeem) + b"\x87"
            info.update(sigver="v0", sig_at=[("wit", 1 + j) for j in range(m)], script_at=("wit", m + 1), dummy_at=("wit", 0), redeem=redeem)
    elif typ in ("p2wpkh", "p2sh-p2wpkh"):
        sec = C.sec(C.mulg(key(keys[0])))
        prog = b"\x00\x14" + txref.h160(sec)
        sc = b"\x76\xa9\x14" + txref.h160(sec) + b"\x88\xac"
        spk = prog if typ == "p2wpkh" else b"\xa9\x14" + txref.h160(prog) + b"\x87"
        info.update(sigver="v0", script_code=sc, sig_at=[("wit", 0)], pub_at=("wit", 1), redeem=prog if typ != "p2wpkh" else None)
    elif typ == "p2tr-key":
        # variant selects: with/without script tree; the key index walks to cover both internal-key parities
        want_odd = (variant // 2) % 2
        kidx = kbase if kbase else next(k for k in range(200, 400) if (C.mulg(key(k))[1] & 1) == want_odd)
        info["keys"] = [kidx]
        privs = [pecc.PrivateKey(key(kidx))]
        root = b"" if variant % 2 == 0 else taproot.TapLeaf(Script([b"\x07" * 32, 0xAC])).hash()
        spk_obj = privs[0].point.p2tr_script(root)
        spk = spk_obj.raw_serialize()
        info.update(sigver="tapkey", sig_at=[("wit", 0)], root=root)
    elif typ in ("p2tr-ms", "p2tr-pk"):
        points = [p.point for p in privs]
        if typ == "p2tr-ms":
            tap_script = taproot.MultiSigTapScript(points, m)
        else:
            tap_script = taproot.P2PKTapScript(points[0])
        leaf = tap_script.tap_leaf()
        other = taproot.TapLeaf(Script([b"\x09" * 32, 0xAC]))
        tree = taproot.TapBranch(leaf, other) if variant % 2 else leaf
        internal = pecc.PrivateKey(key(150 + variant)).point
        root = tree.hash()
        cb = tree.control_block(internal, leaf)
        spk = internal.p2tr_script(root).raw_serialize()
        info.update(sigver="tapscript", script=tap_script.raw_serialize(), leaf_hash=leaf.hash())
    else:
        raise ValueError(typ)
    # transaction: n_in inputs, n_out outputs (default two and two); the other inputs are unsigned P2PKH of a foreign key
    other_spk = b"\x76\xa9\x14" + txref.h160(C.sec(C.mulg(key(FOREIGN)))) + b"\x88\xac"
    spent = [(5000 if n_in == 2 else 5000 + 11 * i, other_spk) for i in range(n_in)]
    spent[idx] = (amount, spk)
    tins = []
    for i in range(n_in):
        ti = TxIn(bytes([0x21 + i]) * 32, i + variant, None, 0xFFFFFFFE - i)
        ti._value = spent[i][0]
        ti._script_pubkey = L["Script"].parse(BytesIO(txref.varbytes(spent[i][1])))
        from buidl.script import ScriptPubKey

        ti._script_pubkey = ScriptPubKey.parse(BytesIO(txref.varbytes(spent[i][1])))
        tins.append(ti)
    touts = [TxOut(amount - 2000, L["P2PKHScriptPubKey"](b"\x55" * 20)), TxOut(1500, L["P2TRScriptPubKey"](b"\x66" * 32)), TxOut(700, L["P2PKHScriptPubKey"](b"\x77" * 20))][:n_out]
    ltx = Tx(2, tins, touts, 17 + variant, network="mainnet", segwit=typ not in ("p2pkh", "p2pkh-u", "p2sh"))
    signers = privs[:m] if typ in ("p2sh", "p2wsh", "p2sh-p2wsh", "p2tr-ms") else privs[:1]
    if typ in ("p2pkh", "p2pkh-u"):
        ok = ltx.sign_p2pkh(idx, privs[0])
    elif typ == "p2wpkh":
        ok = ltx.sign_p2wpkh(idx, privs[0])
    elif typ == "p2sh-p2wpkh":
        ok = ltx.sign_p2sh_p2wpkh(idx, privs[0])
    elif typ == "p2sh":
        redeem = L["RedeemScript"].convert(info["script"])
        # signatures must follow the order of the keys in the script
        order = sorted(range(n), key=lambda k: C.sec(C.mulg(key(keys[k]))))
        chosen = order[:m]
        sigs = [ltx.get_sig_legacy(idx, privs[k], redeem_script=redeem) for k in chosen]
        ltx.tx_ins[idx].finalize_p2sh_multisig(sigs, redeem)
        ok = ltx.verify_input(idx)
        info["signers"] = chosen
    elif typ in ("p2wsh", "p2sh-p2wsh"):
        ws = L["WitnessScript"].convert(info["script"])
        order = sorted(range(n), key=lambda k: C.sec(C.mulg(key(keys[k]))))
        chosen = order[:m]
        sigs = [ltx.get_sig_segwit(idx, privs[k], witness_script=ws) for k in chosen]
        if typ == "p2wsh":
            ltx.tx_ins[idx].finalize_p2wsh_multisig(sigs, ws)
        else:
            ltx.tx_ins[idx].finalize_p2sh_p2wsh_multisig(sigs, ws)
        ok = ltx.verify_input(idx)
        info["signers"] = chosen
    elif typ == "p2tr-key":
        tweaked = privs[0].tweaked_key(info["root"])
        ok = ltx.sign_p2tr_keypath(idx, tweaked) if ht is None else ltx.sign_p2tr_keypath(idx, tweaked, hash_type=ht)
    elif typ == "p2tr-ms":
        ltx.initialize_p2tr_multisig(idx, cb, tap_script)
        xs = sorted(range(n), key=lambda k: ec.b32(C.mulg(key(keys[k]))[0]))
        chosen = xs[:m]
        sigs = [(ltx.get_sig_taproot(idx, privs[k], ext_flag=1) if ht is None else ltx.get_sig_taproot(idx, privs[k], ext_flag=1, hash_type=ht)) if k in chosen else b"" for k in range(n)]
        ok = ltx.finalize_p2tr_multisig(idx, sigs)
        info["signers"] = chosen
        wl = len(ltx.tx_ins[idx].witness.items)
        info.update(sig_at=[("wit", j) for j in range(wl - 2) if ltx.tx_ins[idx].witness.items[j]], script_at=("wit", wl - 2), cb_at=("wit", wl - 1))
    elif typ == "p2tr-pk":
        ltx.tx_ins[idx].witness = Witness([tap_script.raw_serialize(), cb.serialize()])
        sig = ltx.get_sig_taproot(idx, privs[0], ext_flag=1) if ht is None else ltx.get_sig_taproot(idx, privs[0], ext_flag=1, hash_type=ht)
        ltx.tx_ins[idx].witness.items.insert(0, sig)
        ok = ltx.verify_input(idx)
        info.update(sig_at=[("wit", 0)], script_at=("wit", 1), cb_at=("wit", 2))
    tx = abstract_of(ltx, spent)
    info["lib_ok"] = bool(ok)
    info["lib_signed"] = True
    if ht is not None and info["sigver"] in ("base", "v0"):
        # the library's ECDSA signing API has no hash-type parameter: the signatures of the input under test are
        # replaced by reference signatures of the SAME keys with hash type ht
        for j, at in enumerate(info["sig_at"]):
            put_at(tx, idx, at, ref_sign(tx, spent, idx, info, signer_secret(info, j, tx, idx), ht))
        info["lib_signed"] = False
    return tx, spent, idx, info


# ------------------------------------------------------------------ wire-level mutation helpers
def ss_items(tx, idx):
    """scriptSig as a list of pushed items (all scriptSigs the library builds are push-only)."""
    return [d if d is not None else op for op, d in interp.parse_script(tx["ins"][idx]["script"])]


def set_ss(tx, idx, items):
    tx["ins"][idx]["script"] = txref.script_from_items([x if isinstance(x, int) else bytes(x) for x in items])


def get_at(tx, idx, at):
    where, k = at
    if where == "ss":
        return ss_items(tx, idx)[k]
    return tx["ins"][idx]["witness"][k]


def put_at(tx, idx, at, val):
    where, k = at
    if where == "ss":
        it = ss_items(tx, idx)
        it[k] = val
        set_ss(tx, idx, it)
    else:
        tx["ins"][idx]["witness"][k] = val


def del_at(tx, idx, at):
    where, k = at
    if where == "ss":
        it = ss_items(tx, idx)
        del it[k]
        set_ss(tx, idx, it)
    else:
        del tx["ins"][idx]["witness"][k]


def ref_sign(tx, spent, idx, info, d, ht=None):
    """A signature by secret d over the CURRENT transaction, made by the reference signer."""
    sv = info["sigver"]
    if sv in ("base", "v0"):
        ht = 1 if ht is None else ht
        if sv == "base":
            z = txref.sighash_legacy(tx, idx, info["script_code"], ht)
        else:
            z = txref.sighash_bip143(tx, idx, info["script_code"], spent[idx][0], ht)
        return ec.der_sig(*C.ecdsa_sign(d, int.from_bytes(z, "big"))) + bytes([ht])
    ht = 0 if ht is None else ht
    w = tx["ins"][idx]["witness"]
    annex = w[-1] if len(w) >= 2 and w[-1] and w[-1][0] == 0x50 else None
    msg = txref.sighash_bip341(tx, idx, spent, ht, annex=annex, leaf_hash=info.get("leaf_hash") if sv == "tapscript" else None)
    if msg is None:
        return b"\x00" * 64
    s = C.schnorr_sign(d, msg, b"\x00" * 32)
    return s + (bytes([ht]) if ht else b"")


def mutations(info):
    """name -> function(tx, spent, idx, info) mutating in place (deep copies are made by the caller).
    Only mutations applicable to the base type are returned."""
    typ = info["type"]
    muts = {}
    sig_at = info.get("sig_at", [])
    sv = info["sigver"]

    def add(name, f):
        muts[name] = f

    for j, at in enumerate(sig_at):
        add(f"sig{j}-drop", lambda tx, sp, i, inf, at=at: del_at(tx, i, at))
        add(f"sig{j}-empty", lambda tx, sp, i, inf, at=at: put_at(tx, i, at, b""))
        add(f"sig{j}-foreign-key", lambda tx, sp, i, inf, at=at: put_at(tx, i, at, ref_sign(tx, sp, i, inf, key(FOREIGN))))
        add(f"sig{j}-flip-byte10", lambda tx, sp, i, inf, at=at: put_at(tx, i, at, flip(get_at(tx, i, at), 10)))
        add(f"sig{j}-flip-last-s-byte", lambda tx, sp, i, inf, at=at: put_at(tx, i, at, flip(get_at(tx, i, at), -2 if sv in ("base", "v0") else -1)))
        if sv in ("base", "v0"):
            for ht in (2, 3, 0x81):
                add(f"sig{j}-sighash-byte-{ht:02x}", lambda tx, sp, i, inf, at=at, ht=ht: put_at(tx, i, at, get_at(tx, i, at)[:-1] + bytes([ht])))
            add(f"sig{j}-truncated", lambda tx, sp, i, inf, at=at: put_at(tx, i, at, get_at(tx, i, at)[:-5]))
            add(f"sig{j}-high-s", lambda tx, sp, i, inf, at=at: put_at(tx, i, at, high_s(get_at(tx, i, at))))
        else:
            for ht in (1, 3, 0x81):
                add(f"sig{j}-sighash-byte-{ht:02x}", lambda tx, sp, i, inf, at=at, ht=ht: put_at(tx, i, at, get_at(tx, i, at)[:64] + bytes([ht])))
            add(f"sig{j}-explicit-default-00", lambda tx, sp, i, inf, at=at: put_at(tx, i, at, get_at(tx, i, at)[:64] + b"\x00"))
            add(f"sig{j}-63bytes", lambda tx, sp, i, inf, at=at: put_at(tx, i, at, get_at(tx, i, at)[:63]))
            add(f"sig{j}-resigned-sighash-01", lambda tx, sp, i, inf, at=at, j=j: put_at(tx, i, at, ref_sign(tx, sp, i, inf, signer_secret(inf, j, tx, i), 1)))
    if len(sig_at) >= 2:
        add("sigs-swapped", lambda tx, sp, i, inf: swap(tx, i, sig_at[0], sig_at[1]))
        add("sig0-duplicated-over-sig1", lambda tx, sp, i, inf: put_at(tx, i, sig_at[1], get_at(tx, i, sig_at[0])))
    if typ in ("p2sh", "p2wsh", "p2sh-p2wsh"):
        add("all-sigs-by-one-foreign-key", lambda tx, sp, i, inf: [put_at(tx, i, at, ref_sign(tx, sp, i, inf, key(FOREIGN))) for at in sig_at])
        add("one-good-rest-foreign", lambda tx, sp, i, inf: [put_at(tx, i, at, ref_sign(tx, sp, i, inf, key(FOREIGN))) for at in sig_at[1:]])
        add("dummy-nonempty", lambda tx, sp, i, inf: put_at(tx, i, inf["dummy_at"], b"\x01"))
        add("script-other-keys", lambda tx, sp, i, inf: put_at(tx, i, inf["script_at"], other_multisig(inf)))
        add("script-flip-byte", lambda tx, sp, i, inf: put_at(tx, i, inf["script_at"], flip(get_at(tx, i, inf["script_at"]), 5)))
        add("script-m-lowered", lambda tx, sp, i, inf: put_at(tx, i, inf["script_at"], bytes([0x51]) + get_at(tx, i, inf["script_at"])[1:]) if inf["m"] > 1 else put_at(tx, i, inf["script_at"], bytes([0x00]) + get_at(tx, i, inf["script_at"])[1:]))
        add("script-replaced-by-OP_1", lambda tx, sp, i, inf: put_at(tx, i, inf["script_at"], b"\x51"))
    if "pub_at" in info:
        add("pubkey-other", lambda tx, sp, i, inf: put_at(tx, i, inf["pub_at"], C.sec(C.mulg(key(FOREIGN)))))
        add("pubkey-other+its-signature", lambda tx, sp, i, inf: (put_at(tx, i, inf["pub_at"], C.sec(C.mulg(key(FOREIGN)))), put_at(tx, i, sig_at[0], ref_sign(tx, sp, i, inf, key(FOREIGN)))))
        add("pubkey-flip-prefix", lambda tx, sp, i, inf: put_at(tx, i, inf["pub_at"], flip(get_at(tx, i, inf["pub_at"]), 0)))
    if "cb_at" in info:
        add("cb-flip-parity", lambda tx, sp, i, inf: put_at(tx, i, inf["cb_at"], flip(get_at(tx, i, inf["cb_at"]), 0)))
        add("cb-flip-key-byte", lambda tx, sp, i, inf: put_at(tx, i, inf["cb_at"], flip(get_at(tx, i, inf["cb_at"]), 7)))
        add("cb-flip-last-byte", lambda tx, sp, i, inf: put_at(tx, i, inf["cb_at"], flip(get_at(tx, i, inf["cb_at"]), -1)))
        add("cb-truncated-32", lambda tx, sp, i, inf: put_at(tx, i, inf["cb_at"], get_at(tx, i, inf["cb_at"])[:-32] or b"\xc0"))
        add("cb-extended-32", lambda tx, sp, i, inf: put_at(tx, i, inf["cb_at"], get_at(tx, i, inf["cb_at"]) + b"\x00" * 32))
        add("cb-leaf-version-c2", lambda tx, sp, i, inf: put_at(tx, i, inf["cb_at"], bytes([get_at(tx, i, inf["cb_at"])[0] ^ 0x02]) + get_at(tx, i, inf["cb_at"])[1:]))
        add("leaf-script-flip-byte", lambda tx, sp, i, inf: put_at(tx, i, inf["script_at"], flip(get_at(tx, i, inf["script_at"]), 3)))
        add("leaf-script-replaced-by-OP_1", lambda tx, sp, i, inf: put_at(tx, i, inf["script_at"], b"\x51"))
        add("leaf-script-other-key", lambda tx, sp, i, inf: put_at(tx, i, inf["script_at"], get_at(tx, i, inf["script_at"]).replace(ec.b32(C.mulg(key(inf["keys"][0]))[0]), ec.b32(C.mulg(key(FOREIGN))[0]))))
    # committed transaction fields changed after signing
    add("tx-output-amount", lambda tx, sp, i, inf: tx["outs"][0].__setitem__("amount", tx["outs"][0]["amount"] + 1))
    add("tx-output-script", lambda tx, sp, i, inf: tx["outs"][1].__setitem__("script", b"\x51\x20" + b"\x67" * 32))
    add("tx-output-dropped", lambda tx, sp, i, inf: tx["outs"].pop())
    add("tx-sequence", lambda tx, sp, i, inf: tx["ins"][i].__setitem__("seq", tx["ins"][i]["seq"] - 1))
    add("tx-other-sequence", lambda tx, sp, i, inf: tx["ins"][1 - i].__setitem__("seq", tx["ins"][1 - i]["seq"] - 1))
    add("tx-locktime", lambda tx, sp, i, inf: tx.__setitem__("locktime", tx["locktime"] + 1))
    add("tx-version", lambda tx, sp, i, inf: tx.__setitem__("version", 1))
    add("tx-outpoint-index", lambda tx, sp, i, inf: tx["ins"][i].__setitem__("index", tx["ins"][i]["index"] + 1))
    add("tx-outpoint-txid", lambda tx, sp, i, inf: tx["ins"][i].__setitem__("prev", flip(tx["ins"][i]["prev"], 0)))
    add("tx-other-outpoint", lambda tx, sp, i, inf: tx["ins"][1 - i].__setitem__("index", 9))
    add("spent-amount", lambda tx, sp, i, inf: sp.__setitem__(i, (sp[i][0] + 1, sp[i][1])))
    add("other-spent-amount", lambda tx, sp, i, inf: sp.__setitem__(1 - i, (sp[1 - i][0] + 1, sp[1 - i][1])))
    # witness shape
    if sv != "base":
        add("witness-empty", lambda tx, sp, i, inf: tx["ins"][i].__setitem__("witness", []))
        add("witness-drop-last", lambda tx, sp, i, inf: tx["ins"][i]["witness"].pop())
        add("witness-drop-first", lambda tx, sp, i, inf: tx["ins"][i]["witness"].pop(0))
        add("witness-annex-only", lambda tx, sp, i, inf: tx["ins"][i].__setitem__("witness", [b"\x50\x01"]))
        add("witness-annex-only-64", lambda tx, sp, i, inf: tx["ins"][i].__setitem__("witness", [b"\x50" + b"\x00" * 63]))
        add("witness-annex-appended", lambda tx, sp, i, inf: tx["ins"][i]["witness"].append(b"\x50\xaa"))
        add("witness-extra-item-front", lambda tx, sp, i, inf: tx["ins"][i]["witness"].insert(0, b"\x01"))
        add("scriptsig-01-witness-intact", lambda tx, sp, i, inf: set_ss(tx, i, ss_items(tx, i) + [b"\x01"]))
        add("scriptsig-01-no-witness", lambda tx, sp, i, inf: (set_ss(tx, i, ss_items(tx, i) + [b"\x01"]), tx["ins"][i].__setitem__("witness", [])))
        add("scriptsig-01-only-no-witness", lambda tx, sp, i, inf: (set_ss(tx, i, [b"\x01"]), tx["ins"][i].__setitem__("witness", [])))
        add("scriptsig-OP_1-only-no-witness", lambda tx, sp, i, inf: (set_ss(tx, i, [0x51]), tx["ins"][i].__setitem__("witness", [])))
        if info.get("redeem"):
            add("scriptsig-01+redeem-no-witness", lambda tx, sp, i, inf: (set_ss(tx, i, [b"\x01", inf["redeem"]]), tx["ins"][i].__setitem__("witness", [])))
            add("scriptsig-extra-push-before-redeem", lambda tx, sp, i, inf: set_ss(tx, i, [b"\x01"] + ss_items(tx, i)))
            add("scriptsig-redeem-other-program", lambda tx, sp, i, inf: set_ss(tx, i, [flip(inf["redeem"], 5)]))
    else:
        add("witness-on-legacy", lambda tx, sp, i, inf: (tx["ins"][i].__setitem__("witness", [b"\x01"]), tx.__setitem__("segwit", True)))
        add("scriptsig-empty", lambda tx, sp, i, inf: set_ss(tx, i, []))
        add("scriptsig-01-only", lambda tx, sp, i, inf: set_ss(tx, i, [b"\x01"]))
        add("scriptsig-OP_1-only", lambda tx, sp, i, inf: set_ss(tx, i, [0x51]))
        add("scriptsig-extra-push-front", lambda tx, sp, i, inf: set_ss(tx, i, [b"\x01"] + ss_items(tx, i)))
        if typ == "p2sh":
            add("scriptsig-redeem-only", lambda tx, sp, i, inf: set_ss(tx, i, [inf["script"]]))
            add("scriptsig-01+redeem", lambda tx, sp, i, inf: set_ss(tx, i, [b"\x01", inf["script"]]))
            add("scriptsig-OP_0+redeem", lambda tx, sp, i, inf: set_ss(tx, i, [b"", inf["script"]]))
            add("scriptsig-OP_1s+redeem", lambda tx, sp, i, inf: set_ss(tx, i, [b""] + [b"\x01"] * inf["m"] + [inf["script"]]))
            add("scriptsig-extra-push-after-redeem", lambda tx, sp, i, inf: set_ss(tx, i, ss_items(tx, i) + [b"\x01"]))
            add("scriptsig-redeem-replaced-by-OP_1-script", lambda tx, sp, i, inf: set_ss(tx, i, [b"\x51"]))
    return muts


def signer_secret(info, j, tx, idx):
    if info["type"] == "p2tr-key":
        d = key(info["keys"][0])
        P = C.mulg(d)
        dd = d if P[1] % 2 == 0 else N - d
        Q, par, t = C.taproot_tweak(P[0], info["root"])
        return (dd + t) % N
    if "signers" in info:
        # info["signers"] holds positions in info["keys"]
        kk = info["keys"]
        if info["sigver"] in ("base", "v0"):
            xs = list(info["signers"])  # CHECKMULTISIG: signatures in script (SEC) order, as chosen by build_base
        else:
            xs = sorted(info["signers"], key=lambda k: ec.b32(C.mulg(key(kk[k]))[0]), reverse=True)
        return key(kk[xs[j]] if j < len(xs) else kk[0])
    return key(info["keys"][0])


def flip(b, pos, mask=0x01):
    b = bytearray(b)
    if not b:
        return b"\x01"
    b[pos] ^= mask
    return bytes(b)


def high_s(sig):
    rs = ec.der_parse_strict(sig[:-1])
    if rs is None:
        return sig
    return ec.der_sig(rs[0], N - rs[1]) + sig[-1:]


def swap(tx, idx, a, b):
    x, y = get_at(tx, idx, a), get_at(tx, idx, b)
    put_at(tx, idx, a, y)
    put_at(tx, idx, b, x)


def other_multisig(info):
    items, _ = multisig_script_items(info["m"], [FOREIGN + 1 + k for k in range(info["n"])])
    return txref.script_from_items(items)


def lib_verify(tx, spent, idx):
    from buidl.script import ScriptPubKey
    from buidl.tx import Tx

    def f():
        raw = txref.ser_tx(tx)
        ltx = Tx.parse(BytesIO(raw))
        for i, (amt, spk) in enumerate(spent):
            ltx.tx_ins[i]._value = amt
            ltx.tx_ins[i]._script_pubkey = ScriptPubKey.parse(BytesIO(txref.varbytes(spk)))
        return ltx.verify_input(idx)

    r = attempt(f)
    return (not isinstance(r, Rejected)) and r is True or (not isinstance(r, Rejected) and bool(r))


# ------------------------------------------------------------------ cases
def base_specs(tier):
    mn = [(1, 1), (1, 2), (2, 2), (2, 3)] if tier == "quick" else [(m, n) for n in range(1, 6) for m in range(1, n + 1)]
    specs = [("p2pkh", 1, 1, 0), ("p2pkh-u", 1, 1, 1), ("p2wpkh", 1, 1, 0), ("p2sh-p2wpkh", 1, 1, 1)]
    for m, n in mn:
        for t in ("p2sh", "p2wsh", "p2sh-p2wsh", "p2tr-ms"):
            specs.append((t, m, n, (m + n) % 2))
    for v in range(4):
        specs.append(("p2tr-key", 1, 1, v))
    specs += [("p2tr-pk", 1, 1, 0), ("p2tr-pk", 1, 1, 1)]
    return specs


def gen_spend(tier, seed):
    cases = []
    for spec in base_specs(tier):
        typ, m, n, v = spec
        # a structural stand-in for info to list applicable mutation names without signing anything
        names = mutation_names(spec)
        cases.append({"spec": list(spec), "devs": []})
        for nm in names:
            cases.append({"spec": list(spec), "devs": [nm]})
        if tier == "thorough" and (m, n) in ((1, 1), (1, 2), (2, 3)):
            core = [x for x in names if not x.startswith("tx-") or x in ("tx-locktime", "tx-output-amount")]
            for a, b in itertools.combinations(core, 2):
                cases.append({"spec": list(spec), "devs": [a, b]})
    return cases


def mutation_names(spec):
    typ, m, n, v = spec
    info = {"type": typ, "m": m, "n": n, "keys": list(range(n))}
    if typ in ("p2pkh", "p2pkh-u"):
        info.update(sigver="base", sig_at=[("ss", 0)], pub_at=("ss", 1))
    elif typ == "p2sh":
        info.update(sigver="base", sig_at=[("ss", 1 + j) for j in range(m)], script_at=("ss", m + 1), dummy_at=("ss", 0))
    elif typ in ("p2wsh", "p2sh-p2wsh"):
        info.update(sigver="v0", sig_at=[("wit", 1 + j) for j in range(m)], script_at=("wit", m + 1), dummy_at=("wit", 0), redeem=b"x" if typ != "p2wsh" else None)
    elif typ in ("p2wpkh", "p2sh-p2wpkh"):
        info.update(sigver="v0", sig_at=[("wit", 0)], pub_at=("wit", 1), redeem=b"x" if typ != "p2wpkh" else None)
    elif typ == "p2tr-key":
        info.update(sigver="tapkey", sig_at=[("wit", 0)])
    elif typ == "p2tr-ms":
        info.update(sigver="tapscript", sig_at=[("wit", j) for j in range(m)], script_at=("wit", n), cb_at=("wit", n + 1))
    elif typ == "p2tr-pk":
        info.update(sigver="tapscript", sig_at=[("wit", 0)], script_at=("wit", 1), cb_at=("wit", 2))
    return list(mutations(info))


def run_spend(case):
    import copy

    res = Res()
    spec = tuple(case["spec"])
    tx0, spent0, idx, info = build_base(spec)
    eng = case.get("eng", "spend")
    vc = {"engine": eng, "case": case}
    typ = spec[0]
    label = f"{typ}-{spec[1]}of{spec[2]}" + (f"-keys@{spec[4]}" if len(spec) > 4 and spec[4] else "")
    if not case["devs"]:
        ref_ok = interp.verify_input(tx0, idx, spent0, relaxed=True)
        strict = interp.verify_input(tx0, idx, spent0)
        lib_ok = info["lib_ok"] and lib_verify(tx0, spent0, idx)
        if not lib_ok:
            res.violation(f"C06/{eng}/{typ}/own-spend-rejected", vc, lib_ok, True, f"{label}: spend built and signed through the library does not verify")
        elif not ref_ok:
            res.violation(f"C06/{eng}/{typ}/own-spend-invalid-by-reference", vc, lib_ok, ref_ok, f"{label}: library accepts its own spend, reference consensus verifier rejects it")
        else:
            res.ok("own spend verifies (library and reference%s)" % ("" if strict else "; strict consensus rejects: malleability rule"), nontrivial=("base", spec), sample=case)
        return res
    tx, spent = copy.deepcopy(tx0), list(spent0)
    muts = mutations(info)
    for nm in case["devs"]:
        if nm not in muts:
            res.skip("mutation not applicable to the signed form")
            return res
        try:
            muts[nm](tx, spent, idx, info)
        except (IndexError, KeyError):
            res.skip("mutation not applicable after the previous one")
            return res
    if tx["segwit"] and not any(i["witness"] for i in tx["ins"]):
        tx["segwit"] = False
    if (tx, spent) == (tx0, list(spent0)):
        res.skip("mutation is the identity on this spend")
        return res
    # authorisation oracle: consensus without the malleability-only rules (the statement is about
    # authorisation; e.g. a valid witness next to a junk scriptSig is authorised although consensus rejects it)
    ref_ok = interp.verify_input(tx, idx, spent, relaxed=True)
    strict_ok = interp.verify_input(tx, idx, spent)
    assert ref_ok or not strict_ok
    lib_ok = lib_verify(tx, spent, idx)
    devs = "+".join(case["devs"])
    if lib_ok and not ref_ok:
        res.violation(f"C06/{eng}/{typ}/{devs}", vc, True, False, f"{label}: mutated spend [{devs}] verifies although consensus rejects it")
    elif lib_ok and ref_ok:
        res.ok("benign mutation (still authorised; strict consensus %s)" % ("accepts" if strict_ok else "rejects: malleability rule only"), nontrivial=None)
    elif not lib_ok and ref_ok:
        res.ok("library rejects a spend consensus accepts (completeness not claimed for mutated spends)")
    else:
        res.ok("unauthorised spend rejected", nontrivial=(spec, devs), sample=case if len(case["devs"]) == 1 and devs.startswith("scriptsig") else None)
    return res


# ------------------------------------------------------------------ signature-free scriptSigs, exhaustively
# alphabet of the scriptSig items; "R" = the element whose hash the spent script commits to (redeem script, witness
# program, public key), "S" = the multisig/witness script where one exists
SF_FULL = ["R", b"", b"\x01", 0x51, 0x61, 0x76, 0x75, 0x63, 0x64, 0x67, 0x68, 0x6A, 0x69, 0x74, 0x87, 0xA9, 0x6B, 0x6C, 0x6D, 0xB1, 0xAC, 0xAE, 0x7C, 0x73, 0x82, 0x91, "S"]
SF_CORE = ["R", b"", b"\x01", 0x51, 0x61, 0x76, 0x75, 0x63, 0x68, 0x67, 0x87, 0xA9, 0x74]
SF_TYPES = [("p2pkh", 1, 1, 0), ("p2sh", 1, 2, 1), ("p2sh", 2, 3, 1), ("p2sh-p2wpkh", 1, 1, 1), ("p2sh-p2wsh", 2, 3, 1), ("p2wpkh", 1, 1, 0), ("p2wsh", 1, 2, 1), ("p2tr-key", 1, 1, 0)]


def sf_name(x):
    return x if isinstance(x, str) else (("push" + x.hex()) if x else "OP_0") if isinstance(x, bytes) else "op%02x" % x


def gen_sigfree(tier, seed):
    full_len, core_len = (2, 3) if tier == "quick" else (3, 4)
    cases = []
    for spec in SF_TYPES:
        seqs = set()
        for L in range(1, full_len + 1):
            seqs.update(itertools.product(range(len(SF_FULL)), repeat=L))
        core_idx = [SF_FULL.index(x) for x in SF_CORE]
        for L in range(full_len + 1, core_len + 1):
            seqs.update(itertools.product(core_idx, repeat=L))
        seqs = sorted(seqs, key=lambda q: (len(q), q))
        for i in range(0, len(seqs), 64):
            cases.append({"spec": list(spec), "seqs": [list(q) for q in seqs[i : i + 64]]})
    return cases


def run_sigfree(case):
    import copy

    res = Res()
    spec = tuple(case["spec"])
    tx0, spent0, idx, info = build_base(spec)
    typ = spec[0]
    R = info.get("redeem") or info.get("script") or C.sec(C.mulg(key(0)))
    S = info.get("script") or R
    wit0 = tx0["ins"][idx].get("witness", [])
    for q in case["seqs"]:
        items = [R if SF_FULL[j] == "R" else S if SF_FULL[j] == "S" else SF_FULL[j] for j in q]
        name = " ".join(sf_name(SF_FULL[j]) for j in q)
        for keep_witness in ([False, True] if wit0 else [False]):
            tx = copy.deepcopy(tx0)
            tx["ins"][idx]["script"] = txref.script_from_items(items)
            if not keep_witness:
                tx["ins"][idx]["witness"] = []
            tx["segwit"] = any(i.get("witness") for i in tx["ins"])
            try:
                ref_ok = interp.verify_input(tx, idx, spent0, relaxed=True)
            except interp.OutOfStatement as e:
                # over-long numeric operands are a script error under consensus (the reference only refuses to
                # compare stack contents there); anything else outside the opcode set is skipped
                if "numeric operand" not in str(e):
                    res.skip("outside the library's opcode set")
                    continue
                ref_ok = False
            if not keep_witness:
                assert not ref_ok, ("reference accepts a signature-free spend", typ, name)
            lib_ok = lib_verify(tx, spent0, idx)
            vc = {"engine": "sigfree", "case": {"spec": list(spec), "seqs": [list(q)]}}
            if lib_ok and not ref_ok:
                cls = "no-signature-anywhere" if not keep_witness else "scriptsig-consensus-rejects"
                shape = "+".join(sorted(set("R" if SF_FULL[j] == "R" else "S" if SF_FULL[j] == "S" else "push" if isinstance(SF_FULL[j], bytes) else "opcode" for j in q)))
                res.violation(f"C06/sigfree/{typ}/{cls}/{shape}", vc, True, False, f"{typ}: scriptSig [{name}] ({'witness kept' if keep_witness else 'no witness'}) verifies although it carries no authorisation consensus accepts")
            elif not ref_ok:
                res.ok("signature-free scriptSig rejected", nontrivial=(typ, tuple(q), keep_witness), sample=vc["case"] if len(q) == 2 else None)
            else:
                res.ok("scriptSig junk beside an intact witness: consensus-authorised or library stricter")
    return res


# ------------------------------------------------------------------ guarded library call (non-termination is a verdict)
HANG_CPU_S = 10  # CPU seconds of the worker process (ITIMER_VIRTUAL); an honest verification needs well under one second


class DoesNotTerminate(BaseException):
    pass


def lib_verify_guarded(tx, spent, idx):
    """Tx.verify_input under a CPU-time limit: True / False (returned falsy or raised) / "hang"."""
    import signal

    def on_timer(*a):
        raise DoesNotTerminate()

    old = signal.signal(signal.SIGVTALRM, on_timer)
    signal.setitimer(signal.ITIMER_VIRTUAL, HANG_CPU_S)
    try:
        from buidl.script import ScriptPubKey
        from buidl.tx import Tx

        def f():
            ltx = Tx.parse(BytesIO(txref.ser_tx(tx)))
            for i, (amt, spk) in enumerate(spent):
                ltx.tx_ins[i]._value = amt
                ltx.tx_ins[i]._script_pubkey = ScriptPubKey.parse(BytesIO(txref.varbytes(spk)))
            return ltx.verify_input(idx)

        r = attempt(f)
    finally:
        signal.setitimer(signal.ITIMER_VIRTUAL, 0)
        signal.signal(signal.SIGVTALRM, old)
    if isinstance(r, Rejected):
        return "hang" if r.how == "DoesNotTerminate" else False
    return bool(r)


def ref_verify(tx, idx, spent):
    """authorisation-mode reference verdict; programs outside the library's opcode set -> None"""
    try:
        return interp.verify_input(tx, idx, spent, relaxed=True)
    except interp.OutOfStatement as e:
        return False if "numeric operand" in str(e) else None


# ------------------------------------------------------------------ attacker material (no key of any wallet involved)
ATT = 98  # index of the attacker's key


@functools.lru_cache(maxsize=1)
def attacker():
    d = key(ATT)
    P = C.mulg(d)
    pub = C.sec(P)
    leaf_script = b"\x51"  # OP_1
    lh = txref.tapleaf_hash(leaf_script)
    Q, par, _ = C.taproot_tweak(P[0], lh)
    cb = bytes([0xC0 | par]) + ec.b32(P[0])
    return {
        "d": d,
        "pub": pub,
        "A20": txref.h160(pub),  # P2WPKH program of the attacker's key
        "A32": txref.sha256(leaf_script),  # P2WSH program of the script OP_1
        "AQ": ec.b32(Q[0]),  # P2TR output key committing to the leaf OP_1 under the attacker's internal key
        "cb": cb,
        "F": ec.der_sig(*C.ecdsa_sign(d, 777)) + b"\x01",  # well-formed ECDSA signature over an unrelated message
        "G": C.schnorr_sign(d, b"\x07" * 32, b"\x00" * 32),  # well-formed Schnorr signature over an unrelated message
    }


# ------------------------------------------------------------------ hijack: witness-program shaped pushes in the scriptSig + a witness made by the attacker
HJ_FULL = ["R", b"", 0x51, b"\x51", "A20", "A32", "AQ", "F", "R20", "R32", b"\x01"]
HJ_CORE = ["R", b"", 0x51, b"\x51", "A20", "A32", "AQ"]
HJ_TYPES_QUICK = [("p2pkh", 1, 1, 0), ("p2sh", 1, 2, 1), ("p2sh", 2, 3, 1), ("p2sh-p2wpkh", 1, 1, 1), ("p2sh-p2wsh", 2, 3, 1)]
HJ_TYPES_MORE = [("p2wpkh", 1, 1, 0), ("p2wsh", 1, 2, 1), ("p2tr-key", 1, 1, 0)]
HJ_WITNESSES = ["none", "script-OP_1", "own-key", "own-taproot-leaf", "honest"]


def gen_hijack(tier, seed):
    full_len, core_len = (2, 3) if tier == "quick" else (3, 4)
    seqs = set()
    for L in range(1, full_len + 1):
        seqs.update(itertools.product(range(len(HJ_FULL)), repeat=L))
    core_idx = [HJ_FULL.index(x) for x in HJ_CORE]
    for L in range(full_len + 1, core_len + 1):
        seqs.update(itertools.product(core_idx, repeat=L))
    # the shortest P2PKH forms need four items: <program pair> <well-formed signature> <public key>
    seqs.update((a, b, HJ_FULL.index("F"), HJ_FULL.index("R")) for a in (1, 2) for b in (HJ_FULL.index("A20"), HJ_FULL.index("A32"), HJ_FULL.index("AQ")))
    seqs = sorted(seqs, key=lambda q: (len(q), q))
    cases = []
    for spec in HJ_TYPES_QUICK + (HJ_TYPES_MORE if tier == "thorough" else []):
        for i in range(0, len(seqs), 16):
            cases.append({"spec": list(spec), "seqs": [list(q) for q in seqs[i : i + 16]]})
    return cases


def run_hijack(case):
    import copy

    res = Res()
    spec = tuple(case["spec"])
    tx0, spent0, idx, info = build_base(spec)
    typ = spec[0]
    A = attacker()
    R = info.get("redeem") or info.get("script") or C.sec(C.mulg(key(info["keys"][0])))
    spk = spent0[idx][1]
    wit0 = tx0["ins"][idx].get("witness", [])
    sym = {"R": R, "R20": txref.h160(R), "R32": txref.sha256(R), "A20": A["A20"], "A32": A["A32"], "AQ": A["AQ"], "F": A["F"]}
    own_sig = {}
    for q in case["seqs"]:
        items = [sym[HJ_FULL[j]] if isinstance(HJ_FULL[j], str) else HJ_FULL[j] for j in q]
        name = " ".join(sf_name(HJ_FULL[j]) for j in q)
        script_sig = txref.script_from_items(items)
        for wname in HJ_WITNESSES:
            if wname == "honest" and not wit0:
                continue
            tx = copy.deepcopy(tx0)
            tx["ins"][idx]["script"] = script_sig
            if wname == "none":
                wit = []
            elif wname == "script-OP_1":
                wit = [b"\x51"]
            elif wname == "own-taproot-leaf":
                wit = [b"\x51", A["cb"]]
            elif wname == "honest":
                wit = list(wit0)
            else:
                # a signature by the attacker's own key over this transaction, legacy digest, script code = the scriptPubKey,
                # or for P2SH the last scriptSig push (what a verifier confused about the script would hash)
                if interp.is_p2sh(spk):
                    sc = items[-1] if isinstance(items[-1], bytes) else b""
                else:
                    sc = spk
                if sc not in own_sig:
                    tx["ins"][idx]["witness"] = []
                    z = txref.sighash_legacy(tx, idx, sc, 1)
                    own_sig[sc] = ec.der_sig(*C.ecdsa_sign(A["d"], int.from_bytes(z, "big"))) + b"\x01"
                wit = [own_sig[sc], A["pub"]]
            tx["ins"][idx]["witness"] = wit
            tx["segwit"] = any(i.get("witness") for i in tx["ins"])
            ref_ok = ref_verify(tx, idx, spent0)
            if ref_ok is None:
                res.skip("outside the library's opcode set")
                continue
            if wname != "honest":
                assert not ref_ok, ("reference accepts a spend without any signature of the wallet", typ, name, wname)
            lib = lib_verify_guarded(tx, spent0, idx)
            vc = {"engine": "hijack", "case": {"spec": list(spec), "seqs": [list(q)]}}
            if lib == "hang":
                res.violation(f"C06/hijack/{typ}/does-not-terminate", vc, "no result after %d CPU seconds" % HANG_CPU_S, False, f"{typ}: scriptSig [{name}] with witness '{wname}': Tx.verify_input does not terminate")
            elif lib and not ref_ok:
                res.violation(f"C06/hijack/{typ}/scriptsig-witness-program", vc, True, False, f"{typ}: scriptSig [{name}] with attacker-made witness '{wname}' verifies: no signature by any key of the output is present")
            elif not ref_ok:
                res.ok("spend without authorisation rejected", nontrivial=(typ, tuple(q), wname), sample=vc["case"] if len(q) == 2 and wname == "own-key" else None)
            else:
                res.ok("scriptSig junk beside an intact witness: consensus-authorised or library stricter")
    return res


# ------------------------------------------------------------------ witfree: witness stacks without any valid signature
# key sets: kbase 0 (the default wallet), 1 and 509 (public keys whose bytes, read as a script, execute without failing:
# 02d965.. / 0361ea..), 500 (not so)
WF_BASES_QUICK = [
    ("p2wpkh", 1, 1, 0, 1),
    ("p2sh-p2wpkh", 1, 1, 1, 1),
    ("p2wsh", 1, 2, 1),
    ("p2tr-key", 1, 1, 0),
    ("p2tr-pk", 1, 1, 0),
]
WF_BASES_MORE = [("p2wpkh", 1, 1, 0), ("p2sh-p2wsh", 2, 3, 1), ("p2tr-ms", 2, 3, 1), ("p2wpkh", 1, 1, 0, 509), ("p2wpkh", 1, 1, 0, 500), ("p2tr-pk", 1, 1, 1, 1), ("p2tr-ms", 1, 2, 1)]
WF_TAILS = ["none", "honest-tail", "foreign-sigs+honest-tail", "empty-sigs+honest-tail", "script-OP_1", "own-taproot-leaf"]
WF_FULL_MAX, WF_CORE_MAX = 14, 6


def wf_alphabet(info, tx0, idx):
    """(full alphabet, core alphabet, honest tail, number of signature slots, leading dummy, type-appropriate foreign signature)"""
    A = attacker()
    wit0 = tx0["ins"][idx]["witness"]
    sv = info["sigver"]
    if sv == "tapkey":
        tail, nsig, lead = [], 1, []
    elif sv == "tapscript":
        tail, nsig, lead = wit0[-2:], len(wit0) - 2, []
    elif "pub_at" in info:
        tail, nsig, lead = wit0[-1:], 1, []
    else:
        tail, nsig, lead = wit0[-1:], info["m"], [b""]
    J = A["F"] if sv == "v0" else A["G"]
    own = []
    for x in tail:
        own += [x, txref.sha256(x)] + ([txref.h160(x)] if len(x) == 33 else [])
    full = [b"", b"\x01", A["F"], A["G"], A["A20"], A["A32"], A["AQ"], A["pub"], b"\x50\x01"] + own
    core = [b"", b"\x01", J, A["AQ"]] + ([txref.sha256(tail[-1])] + ([txref.h160(tail[-1])] if len(tail[-1]) == 33 else []) if tail else [A["A32"]])
    return full, core, tail, nsig, lead, J


def wf_lengths(tier, typ, tail):
    """(max prefix length over the full alphabet, max prefix length over the core alphabet)"""
    taproot = typ.startswith("p2tr")
    if tier == "quick":
        if tail == "foreign-sigs+honest-tail":
            return 0, 2
        return (1, 2) if taproot else (1, 3)
    if tail == "foreign-sigs+honest-tail":
        return (1, 3) if taproot else (2, 4)
    return (2, 3) if taproot else (3, 4)


def gen_witfree(tier, seed):
    cases = []
    for spec in WF_BASES_QUICK + (WF_BASES_MORE if tier == "thorough" else []):
        for tail in WF_TAILS:
            if spec[0] == "p2tr-key" and tail in ("foreign-sigs+honest-tail", "empty-sigs+honest-tail", "honest-tail"):
                continue  # a key-path witness has no non-signature tail
            full_len, core_len = wf_lengths(tier, spec[0], tail)
            # prefixes are enumerated by position in the per-base alphabets; a case is one (base, tail, length, first item)
            for L in range(0, core_len + 1):
                which = "full" if L <= full_len else "core"
                if L == 0:
                    cases.append({"spec": list(spec), "tail": tail, "L": 0, "which": which, "first": None})
                else:
                    for first in range(WF_FULL_MAX if which == "full" else WF_CORE_MAX):
                        cases.append({"spec": list(spec), "tail": tail, "L": L, "which": which, "first": first})
    return cases


def run_witfree(case):
    import copy

    res = Res()
    spec = tuple(case["spec"])
    tx0, spent0, idx, info = build_base(spec)
    typ = spec[0]
    A = attacker()
    full, core, tail, nsig, lead, J = wf_alphabet(info, tx0, idx)
    alpha = full if case["which"] == "full" else core
    assert len(full) <= WF_FULL_MAX and len(core) <= WF_CORE_MAX
    tname = case["tail"]
    tl = {
        "none": [],
        "honest-tail": tail,
        "foreign-sigs+honest-tail": lead + [J] * nsig + tail,
        "empty-sigs+honest-tail": lead + [b""] * nsig + tail,
        "script-OP_1": [b"\x51"],
        "own-taproot-leaf": [b"\x51", A["cb"]],
    }[tname]
    L = case["L"]
    if L == 0:
        prefixes = [()]
    elif case["first"] >= len(alpha):
        return None
    else:
        prefixes = [(case["first"],) + rest for rest in itertools.product(range(len(alpha)), repeat=L - 1)]
    for q in prefixes:
        if case.get("only") is not None and list(q) != list(case["only"]):
            continue
        wit = [alpha[j] for j in q] + list(tl)
        tx = copy.deepcopy(tx0)
        tx["ins"][idx]["witness"] = wit
        tx["segwit"] = any(i.get("witness") for i in tx["ins"])
        ref_ok = ref_verify(tx, idx, spent0)
        if ref_ok is None:
            res.skip("outside the library's opcode set")
            continue
        assert not ref_ok, ("reference accepts a witness without any valid signature", typ, [x.hex() for x in wit])
        lib = lib_verify_guarded(tx, spent0, idx)
        vc = {"engine": "witfree", "case": dict(case, only=list(q))}
        shape = "[" + " ".join(wf_name(x, info, tx0, idx) for x in wit) + "]"
        if lib == "hang":
            res.violation(f"C06/witfree/{typ}/does-not-terminate", vc, "no result after %d CPU seconds" % HANG_CPU_S, False, f"{typ}: witness {shape}: Tx.verify_input does not terminate")
        elif lib:
            res.violation(f"C06/witfree/{typ}/" + ("tapscript" if typ.startswith("p2tr") else "v0") + "-nested-witness-program", vc, True, False, f"{typ}: witness {shape} (no valid signature in it) verifies")
        else:
            res.ok("witness without a valid signature rejected", nontrivial=(spec, tname, q), sample=vc["case"] if L == 2 and tname == "honest-tail" else None)
    return res


def wf_name(x, info, tx0, idx):
    A = attacker()
    names = {b"": "''", A["F"]: "foreign-ecdsa-sig", A["G"]: "foreign-schnorr-sig", A["A20"]: "h160(att-pub)", A["A32"]: "sha256(OP_1)", A["AQ"]: "att-output-key", A["pub"]: "att-pub", A["cb"]: "att-control-block"}
    if x in names:
        return names[x]
    for nm, y in zip(("item[-1]", "item[-2]"), reversed(tx0["ins"][idx]["witness"])):
        if x == y:
            return nm
        if x == txref.sha256(y):
            return f"sha256({nm})"
        if x == txref.h160(y):
            return f"h160({nm})"
    return x.hex()


# ------------------------------------------------------------------ keys: other key sets (fixed indexes, independent of the seed)
KEYSETS_QUICK = [1, 509]
KEYSETS_MORE = [500, 2, 506]
KEY_TYPES_QUICK = [("p2pkh", 1, 1, 0), ("p2wpkh", 1, 1, 0), ("p2sh-p2wpkh", 1, 1, 1), ("p2tr-key", 1, 1, 1), ("p2tr-pk", 1, 1, 1), ("p2wsh", 2, 3, 1)]
KEY_TYPES_MORE = [("p2pkh-u", 1, 1, 1), ("p2sh", 2, 3, 1), ("p2sh-p2wsh", 2, 3, 1), ("p2tr-ms", 2, 3, 1), ("p2tr-key", 1, 1, 0)]
KEY_MUTS = ["sig0-foreign-key", "sig0-flip-last-s-byte", "sig0-drop", "pubkey-other+its-signature", "script-other-keys", "leaf-script-other-key", "cb-flip-parity", "tx-output-amount"]


def gen_keys(tier, seed):
    cases = []
    ksets = KEYSETS_QUICK + (KEYSETS_MORE if tier == "thorough" else [])
    types = KEY_TYPES_QUICK + (KEY_TYPES_MORE if tier == "thorough" else [])
    for kb in ksets:
        for t in types:
            spec = list(t) + [kb]
            names = mutation_names(tuple(t))
            cases.append({"spec": spec, "devs": [], "eng": "keys"})
            for nm in (names if tier == "thorough" and kb in KEYSETS_QUICK else [x for x in KEY_MUTS if x in names]):
                cases.append({"spec": spec, "devs": [nm], "eng": "keys"})
    return cases


# ------------------------------------------------------------------ shapes / hashtypes: committed fields under every transaction shape and hash type
def shape_mutations(n_in, n_out, idx, sv):
    """mutations of committed data that make sense for any transaction shape: name -> f(tx, spent, idx) -> new idx"""
    muts = {}
    o = (idx + 1) % n_in  # another input

    def add(name, f):
        muts[name] = f

    def ret(i):
        return lambda *a: i

    add("out0-amount", lambda tx, sp, i: tx["outs"][0].__setitem__("amount", tx["outs"][0]["amount"] + 1))
    add("out-last-script", lambda tx, sp, i: tx["outs"][-1].__setitem__("script", b"\x51\x20" + b"\x67" * 32))
    add("out-added", lambda tx, sp, i: tx["outs"].append({"amount": 1, "script": b"\x51"}))
    add("out-dropped", lambda tx, sp, i: tx["outs"].pop())
    if n_out > 1:
        add("outs-reversed", lambda tx, sp, i: tx["outs"].reverse())
    if idx < n_out:
        add("out-same-index-amount", lambda tx, sp, i: tx["outs"][i].__setitem__("amount", tx["outs"][i]["amount"] + 1))
    add("own-sequence", lambda tx, sp, i: tx["ins"][i].__setitem__("seq", tx["ins"][i]["seq"] - 1))
    add("own-outpoint-index", lambda tx, sp, i: tx["ins"][i].__setitem__("index", tx["ins"][i]["index"] + 1))
    add("own-outpoint-txid", lambda tx, sp, i: tx["ins"][i].__setitem__("prev", flip(tx["ins"][i]["prev"], 31)))
    add("locktime", lambda tx, sp, i: tx.__setitem__("locktime", tx["locktime"] + 1))
    add("version", lambda tx, sp, i: tx.__setitem__("version", 1))
    add("own-spent-amount", lambda tx, sp, i: sp.__setitem__(i, (sp[i][0] + 1, sp[i][1])))
    add("input-added", lambda tx, sp, i: (tx["ins"].append({"prev": b"\x44" * 32, "index": 3, "script": b"", "seq": 5, "witness": []}), sp.append((777, b"\x51"))))
    if n_in > 1:
        add("other-sequence", lambda tx, sp, i: tx["ins"][o].__setitem__("seq", tx["ins"][o]["seq"] - 1))
        add("other-outpoint", lambda tx, sp, i: tx["ins"][o].__setitem__("index", 9))
        add("other-spent-amount", lambda tx, sp, i: sp.__setitem__(o, (sp[o][0] + 1, sp[o][1])))
        add("other-spent-script", lambda tx, sp, i: sp.__setitem__(o, (sp[o][0], b"\x51\x20" + b"\x68" * 32)))

        def drop(tx, sp, i):
            del tx["ins"][o]
            del sp[o]
            return i - 1 if o < i else i

        add("other-input-dropped", drop)

        def rotate(tx, sp, i):
            tx["ins"].append(tx["ins"].pop(0))
            sp.append(sp.pop(0))
            return (i - 1) % len(sp)

        add("inputs-rotated", rotate)
    return muts


def run_fields(case, kind):
    """one signed base, every shape mutation: library True => reference (authorisation mode) True"""
    import copy

    res = Res()
    spec = tuple(case["spec"])
    typ, m, n, variant, kbase, n_in, n_out, idx0, ht = spec_fields(spec)
    engine = "fields"
    vc0 = {"engine": engine, "case": case}
    cls = f"shapes/{typ}" if kind == "shapes" else f"hashtypes/{typ}/sighash-{ht:02x}" + ("-no-matching-output" if idx0 >= n_out else "")
    label = f"{typ} {m}of{n} in a {n_in}-input {n_out}-output transaction at input {idx0}" + (f", hash type {ht:#04x}" if ht is not None else "")
    built = attempt(build_base, spec)
    if isinstance(built, Rejected):
        if case.get("part", 0) != 0:
            return res  # reported by part 0
        if ht is not None and (ht & 3) == 3 and idx0 >= n_out and typ.startswith("p2tr"):
            res.ok("library refuses to sign SIGHASH_SINGLE without a matching output (BIP341: such a signature is invalid)", nontrivial=("nosign", spec))
            return res
        res.violation(f"C06/{engine}/{cls}/cannot-sign", vc0, repr(built), "signed spend", f"{label}: signing through the library raises")
        return res
    tx0, spent0, idx, info = built
    part = case.get("part", 0)
    level0 = part == 0 and not case.get("only")
    strict = interp.verify_input(tx0, idx, spent0) if level0 else None
    lib0 = lib_verify_guarded(tx0, spent0, idx) if level0 else None
    if not level0:
        if not info["lib_ok"] and info["lib_signed"]:
            return res  # reported by part 0
    elif info["lib_signed"]:
        if lib0 is not True or not info["lib_ok"]:
            res.violation(f"C06/{engine}/{cls}/own-spend-rejected", vc0, lib0, True, f"{label}: spend built and signed through the library does not verify")
            return res
        if not strict:
            res.violation(f"C06/{engine}/{cls}/own-spend-invalid-by-reference", vc0, True, False, f"{label}: library accepts its own spend, reference consensus verifier rejects it")
            return res
        res.ok("own spend verifies (library and reference)", nontrivial=("base", spec), sample=case)
    else:
        assert strict, ("reference rejects its own signature", spec)
        if lib0 is True:
            res.ok("spend signed by the right key (reference signer) verifies", nontrivial=("base", spec))
        else:
            res.ok("library rejects a spend consensus accepts (completeness not claimed for signatures the library cannot make)", nontrivial=("base-rej", spec))
    for j, (nm, f) in enumerate(shape_mutations(n_in, n_out, idx, info["sigver"]).items()):
        if case.get("only") and nm != case["only"]:
            continue
        if not case.get("only") and "part" in case and j % FIELD_PARTS != part:
            continue
        tx, sp = copy.deepcopy(tx0), list(spent0)
        i2 = f(tx, sp, idx)
        i2 = idx if not isinstance(i2, int) or isinstance(i2, bool) else i2
        tx["segwit"] = any(i.get("witness") for i in tx["ins"])
        ref_ok = interp.verify_input(tx, i2, sp, relaxed=True)
        lib = lib_verify_guarded(tx, sp, i2)
        vc = {"engine": engine, "case": dict(case, only=nm)}
        if lib == "hang":
            res.violation(f"C06/{engine}/{cls}/does-not-terminate", vc, "hang", False, f"{label}: [{nm}] does not terminate")
        elif lib and not ref_ok:
            res.violation(f"C06/{engine}/{cls}/{nm}", vc, True, False, f"{label}: after [{nm}] the signature still verifies although it does not commit to the changed transaction")
        elif lib:
            res.ok("change not committed by this hash type / signature version: still authorised", nontrivial=("free", spec, nm))
        elif ref_ok:
            res.ok("library rejects a spend consensus accepts (completeness not claimed for mutated spends)")
        else:
            res.ok("signature over a different transaction rejected", nontrivial=(spec, nm))
    return res


SHAPE_TYPES_QUICK = [("p2pkh", 1, 1, 0), ("p2sh-p2wpkh", 1, 1, 1), ("p2tr-key", 1, 1, 1), ("p2tr-pk", 1, 1, 1)]
SHAPE_TYPES_MORE = [("p2sh", 2, 3, 1), ("p2wsh", 2, 3, 1), ("p2wpkh", 1, 1, 0), ("p2sh-p2wsh", 1, 2, 1), ("p2tr-ms", 2, 3, 1)]
SHAPES_QUICK = [(1, 1, 0), (3, 3, 2)]


def gen_shapes(tier, seed):
    if tier == "quick":
        shapes, types = SHAPES_QUICK, SHAPE_TYPES_QUICK
    else:
        shapes = [(a, b, i) for a in (1, 2, 3) for b in (1, 2, 3) for i in range(a)]
        types = SHAPE_TYPES_QUICK + SHAPE_TYPES_MORE
    return [{"spec": list(t) + [0, a, b, i]} for t in types for (a, b, i) in shapes]


HT_TYPES = [("p2tr-key", 1, 1, 1), ("p2pkh", 1, 1, 0), ("p2wpkh", 1, 1, 0)]
HT_TYPES_MORE = [("p2tr-pk", 1, 1, 1), ("p2sh-p2wpkh", 1, 1, 1), ("p2wsh", 1, 1, 1), ("p2sh", 1, 1, 1), ("p2tr-ms", 1, 1, 1)]


def gen_hashtypes(tier, seed):
    hts = [2, 3, 0x81] if tier == "quick" else [1, 2, 3, 0x81, 0x82, 0x83]
    types = HT_TYPES + (HT_TYPES_MORE if tier == "thorough" else [])
    cases = []
    for t in types:
        for ht in hts:
            cases.append({"spec": list(t) + [0, 2, 2, 0, ht]})
            if tier == "thorough":
                cases.append({"spec": list(t) + [0, 3, 3, 1, ht]})
            if ht & 3 == 3:
                cases.append({"spec": list(t) + [0, 2, 1, 1, ht]})  # SIGHASH_SINGLE without a matching output
    return cases


FIELD_PARTS = 3


def gen_fields(tier, seed):
    cases = [dict(c, kind="shapes") for c in gen_shapes(tier, seed)] + [dict(c, kind="hashtypes") for c in gen_hashtypes(tier, seed)]
    # a case is one signed base and every FIELD_PARTS-th mutation (part 0 also checks the unmodified spend)
    return [dict(c, part=p) for c in cases for p in range(FIELD_PARTS)]


def run_fields_case(case):
    return run_fields(case, case["kind"])


# ------------------------------------------------------------------ taptree: annex and deep script trees
TT_QUICK = [("key", 0, True, 0), ("pk", 3, True, 0), ("pk", 3, True, 1), ("pk", 3, False, 1)]
TT_MORE = [("key", 0, True, 1), ("pk", 3, False, 0), ("ms", 2, True, 0), ("ms", 2, True, 1), ("key", 0, False, 0), ("key", 0, False, 1), ("pk", 1, True, 0), ("pk", 5, True, 1), ("ms", 4, False, 0), ("ms", 4, False, 1)]


@functools.lru_cache(maxsize=8)
def build_tap(kind, depth, annex, want_parity):
    """a taproot spend signed through the library (get_sig_taproot on a pre-filled witness): key path with annex, or a
    leaf at the given depth of a script tree, with/without annex; the internal key is chosen so that the output key has
    the wanted parity.  Returns (tx, spent, idx, info) like build_base."""
    L = lib_objects()
    pecc, Script, Tx, TxIn, TxOut, Witness, taproot = L["pecc"], L["Script"], L["Tx"], L["TxIn"], L["TxOut"], L["Witness"], L["taproot"]
    from buidl.script import ScriptPubKey

    ax = [b"\x50\xde\xad"] if annex else []
    idx, amount = 1, 1234567
    n = 3 if kind == "ms" else 1
    keys = [600 + j for j in range(n)]
    privs = [pecc.PrivateKey(key(k)) for k in keys]
    info = {"type": "p2tr-" + kind, "m": 2 if kind == "ms" else 1, "n": n, "keys": keys}
    if kind == "key":
        kidx = next(k for k in range(700, 900) if C.taproot_tweak(C.mulg(key(k))[0], b"")[1] == want_parity)
        privs = [pecc.PrivateKey(key(kidx))]
        info.update(keys=[kidx], sigver="tapkey", root=b"", sig_at=[("wit", 0)])
        spk = privs[0].point.p2tr_script(b"").raw_serialize()
    else:
        tap_script = taproot.MultiSigTapScript([p.point for p in privs], 2) if kind == "ms" else taproot.P2PKTapScript(privs[0].point)
        leaf = tap_script.tap_leaf()
        tree = leaf
        for d in range(depth):
            sib = taproot.TapLeaf(Script([bytes([0x10 + d]) * 32, 0xAC]))
            if d % 2:
                sib = taproot.TapBranch(sib, taproot.TapLeaf(Script([bytes([0x20 + d]) * 32, 0xAC])))
            tree = taproot.TapBranch(tree, sib) if d % 2 else taproot.TapBranch(sib, tree)
        root = tree.hash()
        kint = next(k for k in range(700, 900) if C.taproot_tweak(C.mulg(key(k))[0], root)[1] == want_parity)
        internal = pecc.PrivateKey(key(kint)).point
        cb = tree.control_block(internal, leaf)
        spk = internal.p2tr_script(root).raw_serialize()
        info.update(sigver="tapscript", script=tap_script.raw_serialize(), leaf_hash=leaf.hash(), depth=len(cb.hashes))
    other_spk = b"\x76\xa9\x14" + txref.h160(C.sec(C.mulg(key(FOREIGN)))) + b"\x88\xac"
    spent = [(5000, other_spk), (amount, spk)]
    tins = []
    for i in range(2):
        ti = TxIn(bytes([0x31 + i]) * 32, i, None, 0xFFFFFFFD)
        ti._value = spent[i][0]
        ti._script_pubkey = ScriptPubKey.parse(BytesIO(txref.varbytes(spent[i][1])))
        tins.append(ti)
    ltx = Tx(2, tins, [TxOut(amount - 3000, L["P2PKHScriptPubKey"](b"\x55" * 20))], 0, network="mainnet", segwit=True)
    if kind == "key":
        ltx.tx_ins[idx].witness = Witness([b""] + ax)  # placeholder for the signature, so that the annex is seen
        sig = ltx.get_sig_taproot(idx, privs[0].tweaked_key(b""))
        ltx.tx_ins[idx].witness = Witness([sig] + ax)
    else:
        tail = [tap_script.raw_serialize(), cb.serialize()] + ax
        ltx.tx_ins[idx].witness = Witness(list(tail))
        order = sorted(range(n), key=lambda k: ec.b32(C.mulg(key(keys[k]))[0]))
        chosen = order[: info["m"]]
        sigs = [ltx.get_sig_taproot(idx, privs[k], ext_flag=1) if k in chosen else b"" for k in reversed(order)]
        ltx.tx_ins[idx].witness = Witness(sigs + tail)
        info.update(signers=chosen, sig_at=[("wit", j) for j in range(n) if sigs[j]], script_at=("wit", n), cb_at=("wit", n + 1))
    ok = ltx.verify_input(idx)
    tx = abstract_of(ltx, spent)
    info.update(lib_ok=bool(ok), annex_at=len(tx["ins"][idx]["witness"]) - 1 if annex else None)
    return tx, spent, idx, info


def tap_mutations(info, tx0, idx):
    muts = {}
    w0 = tx0["ins"][idx]["witness"]

    def W(tx, i):
        return tx["ins"][i]["witness"]

    s0 = info["sig_at"][0]
    muts["sig0-flip-last-byte"] = lambda tx, sp, i: put_at(tx, i, s0, flip(get_at(tx, i, s0), -1))
    muts["sig0-foreign-key"] = lambda tx, sp, i: put_at(tx, i, s0, ref_sign(tx, sp, i, info, key(FOREIGN)))
    muts["sig0-empty"] = lambda tx, sp, i: put_at(tx, i, s0, b"")
    if info["annex_at"] is not None:
        a = info["annex_at"]
        muts["annex-changed"] = lambda tx, sp, i: W(tx, i).__setitem__(a, flip(W(tx, i)[a], -1))
        muts["annex-extended"] = lambda tx, sp, i: W(tx, i).__setitem__(a, W(tx, i)[a] + b"\x00")
        muts["annex-removed"] = lambda tx, sp, i: W(tx, i).pop()
        muts["annex-doubled"] = lambda tx, sp, i: W(tx, i).append(W(tx, i)[a])
        muts["annex-moved-to-front"] = lambda tx, sp, i: W(tx, i).insert(0, W(tx, i).pop())
        muts["annex-marker-lost"] = lambda tx, sp, i: W(tx, i).__setitem__(a, b"\x51" + W(tx, i)[a][1:])

        def resign_without(tx, sp, i):
            ax = W(tx, i).pop()
            put_at(tx, i, s0, ref_sign(tx, sp, i, info, signer_secret(info, 0, tx, i)))
            W(tx, i).append(ax)

        muts["annex-added-after-signing"] = resign_without
    else:
        muts["annex-appended"] = lambda tx, sp, i: W(tx, i).append(b"\x50\xaa")
    if "cb_at" in info:
        c = info["cb_at"][1]
        depth = info["depth"]

        def cbm(g):
            return lambda tx, sp, i: W(tx, i).__setitem__(c, g(W(tx, i)[c]))

        for j in range(depth):
            muts[f"path-element-{j}-flipped"] = cbm(lambda b, j=j: flip(b, 33 + 32 * j + 5))
        muts["path-first-element-removed"] = cbm(lambda b: b[:33] + b[65:])
        muts["path-last-element-removed"] = cbm(lambda b: b[:-32])
        muts["path-element-duplicated"] = cbm(lambda b: b + b[-32:])
        if depth >= 2:
            muts["path-first-two-swapped"] = cbm(lambda b: b[:33] + b[65:97] + b[33:65] + b[97:])
            muts["path-reversed"] = cbm(lambda b: b[:33] + b"".join(reversed([b[33 + 32 * j : 65 + 32 * j] for j in range(depth)])))
        muts["cb-parity-flipped"] = cbm(lambda b: flip(b, 0))
        muts["cb-internal-key-flipped"] = cbm(lambda b: flip(b, 20))
        muts["leaf-script-flipped"] = lambda tx, sp, i: put_at(tx, i, info["script_at"], flip(get_at(tx, i, info["script_at"]), 3))
        muts["leaf-script-and-cb-swapped"] = lambda tx, sp, i: swap(tx, i, info["script_at"], info["cb_at"])
    return muts


def gen_taptree(tier, seed):
    bases = TT_QUICK + (TT_MORE if tier == "thorough" else [])
    return [{"kind": k, "depth": d, "annex": a, "parity": p} for (k, d, a, p) in bases]


def run_taptree(case):
    import copy

    res = Res()
    tx0, spent0, idx, info = build_tap(case["kind"], case["depth"], case["annex"], case["parity"])
    typ = info["type"]
    cls = f"{typ}/" + ("annex" if case["annex"] else "no-annex")
    label = f"{typ} " + (f"leaf at depth {info.get('depth')} " if "depth" in info else "") + ("with annex" if case["annex"] else "without annex") + f", output key parity {case['parity']}"
    vc0 = {"engine": "taptree", "case": case}
    strict = interp.verify_input(tx0, idx, spent0)
    lib0 = lib_verify_guarded(tx0, spent0, idx)
    if lib0 is not True or not info["lib_ok"]:
        res.violation(f"C06/taptree/{cls}/own-spend-rejected", vc0, lib0, True, f"{label}: spend signed through the library does not verify")
        return res
    if not strict:
        res.violation(f"C06/taptree/{cls}/own-spend-invalid-by-reference", vc0, True, False, f"{label}: library accepts its own spend, reference consensus verifier rejects it")
        return res
    res.ok("own spend verifies (library and reference)", nontrivial=("base", tuple(sorted(case.items()))), sample=case)
    for nm, f in tap_mutations(info, tx0, idx).items():
        if case.get("only") and nm != case["only"]:
            continue
        tx, sp = copy.deepcopy(tx0), list(spent0)
        try:
            f(tx, sp, idx)
        except (IndexError, KeyError):
            res.skip("mutation not applicable")
            continue
        ref_ok = interp.verify_input(tx, idx, sp, relaxed=True)
        lib = lib_verify_guarded(tx, sp, idx)
        vc = {"engine": "taptree", "case": dict(case, only=nm)}
        if lib == "hang":
            res.violation(f"C06/taptree/{cls}/does-not-terminate", vc, "hang", False, f"{label}: [{nm}] does not terminate")
        elif lib and not ref_ok:
            res.violation(f"C06/taptree/{cls}/{nm}", vc, True, False, f"{label}: mutated spend [{nm}] verifies although consensus rejects it")
        elif lib:
            res.ok("benign mutation (still authorised)")
        elif ref_ok:
            res.ok("library rejects a spend consensus accepts (completeness not claimed for mutated spends)")
        else:
            res.ok("unauthorised spend rejected", nontrivial=(tuple(sorted(case.items())), nm))
    return res


# ------------------------------------------------------------------ tapslots: k-of-n tapscript multisig, every assignment of the signature slots
TS_SLOTS = ["v", "e", "f", "w", "o", "x", "k", "s"]
TS_WHAT = {
    "v": "signature by the slot's key over this spend",
    "e": "empty",
    "f": "signature by a foreign key over this spend",
    "w": "signature by the slot's key over another transaction (locktime + 1)",
    "o": "valid signature of the NEXT script key placed in this slot",
    "x": "signature by the slot's key with an explicit 00 hash-type byte (65 bytes)",
    "k": "signature by the slot's key over the key-path message (no leaf hash)",
    "s": "the slot's valid signature cut to 63 bytes",
}


def gen_tapslots(tier, seed):
    kn = [(1, 1), (2, 2)] + ([(1, 2), (1, 3), (2, 3), (3, 3)] if tier == "thorough" else [])
    return [{"k": k, "n": n, "first": a} for (k, n) in kn for a in TS_SLOTS if not (n == 1 and a == "o")]


def run_tapslots(case):
    import copy

    res = Res()
    k, n = case["k"], case["n"]
    spec = ("p2tr-ms", k, n, 1)
    tx0, spent0, idx, info = build_base(spec)
    kk = info["keys"]
    # witness position p (0 = first item) belongs to the key with the (n-1-p)-th smallest x-only public key
    order = sorted(range(n), key=lambda j: ec.b32(C.mulg(key(kk[j]))[0]))
    slot_key = [kk[order[n - 1 - p]] for p in range(n)]
    base = copy.deepcopy(tx0)
    other = copy.deepcopy(tx0)
    other["locktime"] += 1
    sigs = []
    for p in range(n):
        d = key(slot_key[p])
        v = ref_sign(base, spent0, idx, info, d)
        msg_key_path = txref.sighash_bip341(base, idx, spent0, 0, annex=None, leaf_hash=None)
        sigs.append(
            {
                "v": v,
                "e": b"",
                "f": ref_sign(base, spent0, idx, info, key(FOREIGN)),
                "w": ref_sign(other, spent0, idx, info, d),
                "o": ref_sign(base, spent0, idx, info, key(slot_key[(p + 1) % n])),
                "x": v + b"\x00",
                "k": C.schnorr_sign(d, msg_key_path, b"\x00" * 32),
                "s": v[:63],
            }
        )
    alphabet = [a for a in TS_SLOTS if not (n == 1 and a == "o")]
    for rest in itertools.product(alphabet, repeat=n - 1):
        combo = (case["first"],) + rest
        if case.get("only") and list(combo) != list(case["only"]):
            continue
        tx = copy.deepcopy(tx0)
        for p in range(n):
            tx["ins"][idx]["witness"][p] = sigs[p][combo[p]]
        valid = sum(1 for a in combo if a in ("v", "x"))
        honest = valid == k and all(a in ("v", "e") for a in combo)
        allowed = valid == k  # the leaf demands exactly k valid signatures by distinct script keys (<count> k OP_EQUAL)
        strict = interp.verify_input(tx, idx, spent0)
        assert not strict or honest, ("reference (strict) accepts a non-honest slot assignment", k, n, combo)
        assert strict or not honest, ("reference (strict) rejects an honest slot assignment", k, n, combo)
        lib = lib_verify_guarded(tx, spent0, idx)
        vc = {"engine": "tapslots", "case": dict(case, only=list(combo))}
        what = f"{k}-of-{n} tapscript multisig, signature slots (witness order) {'/'.join(combo)}"
        if lib == "hang":
            res.violation("C06/tapslots/does-not-terminate", vc, "hang", False, what + ": does not terminate")
        elif lib and not allowed:
            res.violation(f"C06/tapslots/{k}of{n}/accepts-{valid}-valid-signatures", vc, True, False, what + f": accepted with {valid} valid signatures by script keys, the leaf requires exactly {k}")
        elif honest and not lib:
            res.violation(f"C06/tapslots/{k}of{n}/rejects-honest", vc, False, True, what + ": exactly k script keys signed, rejected")
        elif lib:
            res.ok("k valid signatures by distinct script keys: accepted" + ("" if honest else " (beside non-empty invalid signatures or an explicit 00 byte: consensus rejects, authorisation is intact)"), nontrivial=("acc", k, n, combo))
        else:
            res.ok("rejected" + ("" if not allowed else " although k valid signatures are present (library stricter; consensus rejects too)"), nontrivial=("rej", k, n, combo))
    return res


# ------------------------------------------------------------------ toy instance: CHECKMULTISIG exhaustively
def toy_nonce(c, d, z, salt=0):
    """deterministic nonce with r != 0 and s != 0 on the toy curve"""
    import hashlib

    for ctr in range(1000):
        k = 1 + int.from_bytes(hashlib.sha256(b"c06toy" + bytes([salt, ctr]) + d.to_bytes(2, "big") + z.to_bytes(32, "big")).digest(), "big") % (c.n - 1)
        if c.ecdsa_sign_k(d, z, k) is not None:
            return k
    raise RuntimeError("no nonce")


def gen_toy_ms(toy):
    def g(tier, seed):
        n = toy[1]
        cases = []
        for a, b in itertools.combinations(range(1, n), 2):
            cases.append({"toy": list(toy), "keys": [a, b]})
        step = 7 if tier == "quick" else 1
        for t in list(itertools.combinations(range(1, n), 3))[::step]:
            cases.append({"toy": list(toy), "keys": list(t)})
        return cases

    return g


def run_toy_ms(case):
    from buidl import pecc
    from mc.core import current_toy

    res = Res()
    toy = tuple(case["toy"])
    assert current_toy() == toy and pecc.N == toy[1]
    c = ec.toy_curve(*toy)
    keys = case["keys"]
    n = len(keys)
    foreign = next(d for d in range(1, c.n) if d not in keys and c.mulg(d)[0] not in [c.mulg(k)[0] for k in keys])
    secs = [c.sec(c.mulg(d)) for d in keys]
    order = sorted(range(n), key=lambda i: secs[i])
    vc0 = {"engine": f"toy-multisig-{toy[0]}", "toy": list(toy)}
    only = case.get("only")
    for m in range(1, n + 1):
        script = bytes([0x50 + m]) + b"".join(txref.push(secs[i]) for i in order) + bytes([0x50 + n, 0xAE])
        for stype in ("p2sh", "p2wsh"):
            amount = 70000
            spk = b"\xa9\x14" + txref.h160(script) + b"\x87" if stype == "p2sh" else b"\x00\x20" + txref.sha256(script)
            base = {"version": 2, "locktime": 0, "segwit": stype == "p2wsh", "ins": [{"prev": b"\x31" * 32, "index": 1, "script": b"", "seq": 0xFFFFFFFD, "witness": []}], "outs": [{"amount": 60000, "script": b"\x51"}]}
            spent = [(amount, spk)]
            if stype == "p2sh":
                z = int.from_bytes(txref.sighash_legacy(base, 0, script, 1), "big")
            else:
                z = int.from_bytes(txref.sighash_bip143(base, 0, script, amount, 1), "big")
            sigs = {}
            for j, d in list(enumerate(keys)) + [("f", foreign)]:
                rs = c.ecdsa_sign_k(d, z, toy_nonce(c, d, z))
                sigs[j] = ec.der_sig(*rs) + b"\x01"
            # a signature by a script key over ANOTHER transaction
            z2 = (z + 1) % 2**256
            sigs["w"] = ec.der_sig(*c.ecdsa_sign_k(keys[0], z2, toy_nonce(c, keys[0], z2, 1))) + b"\x01"
            sigs["e"] = b""
            alphabet = list(range(n)) + ["f", "w", "e"]
            for combo in itertools.product(alphabet, repeat=m):
                if only and only != [m, stype, [str(x) for x in combo]]:
                    continue
                items = [b""] + [sigs[x] for x in combo]
                tx = copy_tx(base)
                if stype == "p2sh":
                    tx["ins"][0]["script"] = txref.script_from_items(items + [script])
                else:
                    tx["ins"][0]["witness"] = items + [script]
                ref_ok = interp.verify_input(tx, 0, spent, c, relaxed=True)
                lib_ok = lib_verify(tx, spent, 0)
                vc = dict(vc0, case=dict(case, only=[m, stype, [str(x) for x in combo]]))
                honest = all(isinstance(x, int) for x in combo) and [order.index(x) for x in combo] == sorted(order.index(x) for x in combo) and len(set(combo)) == m
                if lib_ok and not ref_ok:
                    kinds = "".join("k" if isinstance(x, int) else x for x in combo)
                    res.violation(f"C06/toy-multisig/{stype}/{m}of{n}/accepts-{kinds}", vc, True, False, f"{m}-of-{n} {stype}: signature slots {combo} accepted although the reference rejects")
                elif honest and not lib_ok:
                    res.violation(f"C06/toy-multisig/{stype}/{m}of{n}/rejects-honest", vc, False, True, f"{m}-of-{n} {stype}: distinct script keys signing in script order rejected")
                else:
                    res.evaluations += 1
                    res.outcomes["rejected==ref" if not lib_ok and not ref_ok else ("accepted==ref" if lib_ok else "library stricter than reference")] += 1
                    res.nontrivial_bulk += 1
    return res


def copy_tx(tx):
    import copy

    return copy.deepcopy(tx)


def engines(tier, seed):
    toy = (43, 31)
    return [
        Engine(
            f"toy-multisig-{toy[0]}",
            gen_toy_ms(toy),
            run_toy_ms,
            toy=toy,
            kind="E3",
            rule="toy curve p=43 n=31: every pair and every 7th triple (thorough: every triple) of script keys x every m <= n x {P2SH, P2WSH} x every assignment of the m signature slots from {signature by each script key, by a foreign key, by a script key over another transaction, empty}: Tx.verify_input True => reference (toy-curve, authorisation mode) valid; distinct keys in script order must be accepted",
        ),
        Engine(
            "spend",
            gen_spend,
            run_spend,
            kind="E1",
            chunk=12,
            rule="bases: P2PKH (compressed, uncompressed), P2WPKH, P2SH-P2WPKH, P2SH / P2WSH / P2SH-P2WSH / tapscript multisig for (m,n) in {1of1,1of2,2of2,2of3} (thorough: all 1<=m<=n<=5), P2TR key path (both internal-key parities, with/without tree), P2TR P2PK leaf — each built and signed through the library; level 0 must verify under library and reference; level 1 = every applicable single mutation of a ~75-entry wire-level catalogue (signatures dropped/emptied/foreign/flipped/reordered/duplicated/re-hash-typed, pubkey/script/control-block changes, committed tx fields, witness shapes, signature-free scriptSigs), thorough adds all pairs for three wallets; oracle: library True => reference consensus verifier valid; non-trivial = mutated spend the reference rejects",
        ),
        Engine(
            "sigfree",
            gen_sigfree,
            run_sigfree,
            kind="E1",
            chunk=4,
            rule="for 8 signed bases (P2PKH, P2SH 1of2/2of3, P2SH-P2WPKH, P2SH-P2WSH, P2WPKH, P2WSH, P2TR key path) the scriptSig is replaced by EVERY sequence over a 27-item alphabet (redeem script / witness program / public key push, multisig script push, OP_0, push 01, OP_1, NOP, DUP, DROP, IF, NOTIF, ELSE, ENDIF, RETURN, VERIFY, DEPTH, EQUAL, HASH160, TOALTSTACK, FROMALTSTACK, 2DROP, CLTV, CHECKSIG, CHECKMULTISIG, SWAP, IFDUP, SIZE, NOT) up to length 2 (thorough 3) and over a 13-item core up to length 3 (thorough 4), with the witness emptied and with it kept; oracle: library True => reference verifier (scriptSig and scriptPubKey evaluated separately, BIP16 push-only) valid; with the witness emptied the reference itself must reject every sequence",
        ),
        Engine(
            "hijack",
            gen_hijack,
            run_hijack,
            kind="E1",
            chunk=1,
            rule="witness-program shaped pushes in the scriptSig next to a witness made by the attacker: for the signed bases P2PKH, P2SH 1of2/2of3, P2SH-P2WPKH, P2SH-P2WSH 2of3 (thorough: also P2WPKH, P2WSH, P2TR key path) the scriptSig is replaced by EVERY sequence over an 11-item alphabet (R = redeem script / witness program / public key push, OP_0, OP_1, push 51 (the script OP_1), h160(attacker pubkey), sha256(script OP_1), the attacker's taproot output key committing to a leaf OP_1, a well-formed ECDSA signature by the attacker over an unrelated message, h160(R), sha256(R), push 01) up to length 2 (thorough 3) and over the first 7 items up to length 3 (thorough 4), plus the six 4-item forms [OP_0|OP_1, program, signature, R]; each crossed with the witnesses {none, [51], [attacker signature over the legacy digest of this transaction with script code = scriptPubKey (P2SH: last scriptSig push), attacker pubkey], [51, attacker control block], the honest witness}; the library call runs under a 10 CPU-second limit (no result = violation 'does-not-terminate'); oracle: library True => reference verifier (authorisation mode) valid, and the reference itself must reject every case without the honest witness; non-trivial = rejected spend",
        ),
        Engine(
            "witfree",
            gen_witfree,
            run_witfree,
            kind="E1",
            chunk=3,
            rule="witness stacks that contain no valid signature: signed bases P2WPKH and P2SH-P2WPKH (key index 1: SEC bytes execute as a harmless script), P2WSH 1of2, P2TR key path, P2TR P2PK leaf (thorough adds P2WPKH with key indexes 0, 509, 500, P2SH-P2WSH 2of3, tapscript 2of3 and 1of2, P2PK leaf in a tree) keep their honest scriptSig; the witness is prefix ++ tail with tail in {nothing, the honest non-signature tail (public key | witness script | leaf script + control block), well-formed foreign signatures in every signature slot + honest tail, empty signatures + honest tail, [51], [51, attacker control block]} and EVERY prefix up to length 1 (thorough: 3, taproot 2) over the per-base alphabet {'', 01, foreign ECDSA signature, foreign Schnorr signature, h160(attacker pubkey), sha256(script OP_1), attacker taproot output key, attacker pubkey, annex 5001, and each honest tail item x with sha256(x) and (33-byte x) h160(x)} and up to length 3 (taproot 2; thorough 4, taproot 3) over the core {'', 01, type-appropriate foreign signature, attacker output key, sha256/h160 of the last tail item}; with the foreign-signature tail the prefix bound is core length 2 (thorough: full 2 / core 4, taproot full 1 / core 3); 10 CPU-second limit per library call (no result = violation); oracle: the reference verifier must reject every case (asserted) and Tx.verify_input must not return True; non-trivial = every case",
        ),
        Engine(
            "keys",
            gen_keys,
            run_spend,
            kind="E1",
            chunk=6,
            rule="key sets other than the default one, fixed key indexes independent of the seed (quick: first key index 1 and 509 (SEC bytes execute as a harmless script, even / odd y); thorough adds 500, 2, 506): P2PKH, P2WPKH, P2SH-P2WPKH, P2TR key path (with script tree), P2TR P2PK leaf, P2WSH 2of3 (thorough adds uncompressed P2PKH, P2SH 2of3, P2SH-P2WSH 2of3, tapscript 2of3, P2TR key path without tree) built and signed through the library; level 0 must verify under library and reference; level 1: the applicable ones of 8 key-sensitive mutations (foreign-key signature, flipped s, dropped signature, other pubkey with its own signature, script / leaf script with other keys, control-block parity, output amount), thorough: for key indexes 1 and 509 the whole single-mutation catalogue of the spend engine; oracle as in spend",
        ),
        Engine(
            "fields",
            gen_fields,
            run_fields_case,
            kind="E1",
            chunk=1,
            rule="committed transaction data under every transaction shape and hash type. (shapes) bases P2PKH, P2SH-P2WPKH, P2TR key path, P2TR P2PK leaf (thorough adds P2SH 2of3, P2WSH 2of3, P2WPKH, P2SH-P2WSH 1of2, tapscript 2of3) signed through the library as input idx of an n_in-input n_out-output transaction for (n_in, n_out, idx) in {(1,1,0), (3,3,2)} (thorough: every 1 <= n_in, n_out <= 3 and every idx). (hashtypes) hash types other than ALL/DEFAULT by the RIGHT key: P2TR key path signed through the library (sign_p2tr_keypath hash_type=), P2PKH and P2WPKH signed by the reference signer with the wallet key (thorough adds P2TR P2PK leaf and tapscript 1of1 through get_sig_taproot hash_type=, P2SH-P2WPKH, P2WSH 1of1, P2SH 1of1) with hash type in {02, 03, 81} (thorough {01, 02, 03, 81, 82, 83}) in a 2x2 transaction (thorough also 3x3 at input 1), and for SINGLE also as input 1 of a 2-input 1-output transaction (no matching output: the library must refuse to sign for taproot). Library-signed level 0 must verify under library and strict reference; then each of up to 20 changes of committed data (output amount / script / added / dropped / reversed / same-index amount, own sequence / outpoint / spent amount, other sequence / outpoint / spent amount / spent scriptPubKey, locktime, version, input added / dropped / inputs rotated); 10 CPU-second limit per library call; oracle: library True => reference (authorisation mode) valid, i.e. exactly the data the hash type and signature version leave open may change; non-trivial = rejected change",
        ),
        Engine(
            "tapslots",
            gen_tapslots,
            run_tapslots,
            kind="E1",
            chunk=1,
            rule="k-of-n tapscript multisig (real curve), (k,n) in {1of1, 2of2} (thorough adds 1of2, 1of3, 2of3, 3of3), base built and signed through the library; EVERY assignment of the n signature slots from {valid signature of the slot's key, empty, foreign-key signature, the slot key's signature over another transaction, the next script key's valid signature, valid signature + explicit 00 byte, the slot key's key-path signature (no leaf hash), valid signature cut to 63 bytes} (signatures made by the reference signer); oracle (spec formula, BIP342 leaf <count> k OP_EQUAL): Tx.verify_input True => exactly k slots hold a valid signature of their own key; exactly k valid + otherwise empty slots must be accepted; the strict reference verifier must agree with 'honest' (asserted); 10 CPU-second limit per library call",
        ),
        Engine(
            "taptree",
            gen_taptree,
            run_taptree,
            kind="E1",
            chunk=1,
            rule="taproot spends with an annex and deep script trees, signed through the library (get_sig_taproot on a pre-filled witness): key path + annex, P2PK leaf at depth 3 with annex (output-key parity 0 and 1) and without (parity 1) (thorough adds the other parities, 2of3 multisig leaf at depth 2 + annex and depth 4, key path without annex, P2PK leaf at depth 1 and 5 + annex), the internal key being chosen for the stated output-key parity; level 0 must verify under library and strict reference; mutations: signature flipped / foreign / empty, annex changed / extended / removed / doubled / moved to front / marker lost / added after signing (or appended when absent), every path element flipped, first / last path element removed, element duplicated, first two swapped, path reversed, control-block parity / internal key flipped, leaf script flipped, leaf script and control block swapped; oracle: library True => reference (authorisation mode) valid",
        ),
    ]
