"""C06 — input verification accepts properly signed spends and nothing unauthorised.

E1 spend: for every standard output type the library can sign, a spend is built and signed THROUGH THE LIBRARY API
   (level 0: verify_input must be True), then every mutation of a catalogue is applied at the wire level
   (level 1; thorough: all pairs) and Tx.verify_input is compared with the reference consensus verifier:
   library True  =>  reference valid.
"""
import functools
import itertools
from io import BytesIO

from mc.core import Engine, Res, attempt, Rejected, filler_int
from mc.ref import ec, txref, interp

PROP = "C06"
N = ec.SECP.n
C = ec.SECP


def key(i):
    return filler_int(0, "c06key", i, 1, N - 1)


FOREIGN = 99  # index of a key outside every script


# ------------------------------------------------------------------ building bases through the library
def lib_objects():
    from buidl import pecc
    from buidl.script import Script, RedeemScript, WitnessScript, P2PKHScriptPubKey, P2TRScriptPubKey
    from buidl.tx import Tx, TxIn, TxOut
    from buidl.witness import Witness
    from buidl import taproot

    return locals()


def multisig_script_items(m, keys):
    secs = sorted(C.sec(C.mulg(key(k))) for k in keys)
    return [0x50 + m] + secs + [0x50 + len(keys), 0xAE], secs


def abstract_of(ltx, spent):
    ins = []
    for i in ltx.tx_ins:
        ins.append({"prev": bytes(i.prev_tx), "index": i.prev_index, "script": i.script_sig.raw_serialize(), "seq": int(i.sequence), "witness": [bytes(x) for x in i.witness.items]})
    return {
        "version": ltx.version,
        "locktime": int(ltx.locktime),
        "segwit": any(i["witness"] for i in ins),
        "ins": ins,
        "outs": [{"amount": o.amount, "script": o.script_pubkey.raw_serialize()} for o in ltx.tx_outs],
    }


@functools.lru_cache(maxsize=8)
def build_base(spec):
    """spec: tuple (type, m, n, variant). Returns (abstract tx, spent list, idx, info) built and signed by buidl."""
    L = lib_objects()
    pecc, Script, Tx, TxIn, TxOut, Witness, taproot = L["pecc"], L["Script"], L["Tx"], L["TxIn"], L["TxOut"], L["Witness"], L["taproot"]
    typ, m, n, variant = spec
    idx = variant % 2
    keys = list(range(n))
    privs = [pecc.PrivateKey(key(k)) for k in keys]
    amount = 1000000 + variant
    info = {"type": typ, "m": m, "n": n, "keys": keys}
    # spent script for the input under test
    if typ in ("p2pkh", "p2pkh-u"):
        comp = typ == "p2pkh"
        privs[0] = pecc.PrivateKey(key(0), compressed=comp)
        sec = C.sec(C.mulg(key(0)), comp)
        spk = b"\x76\xa9\x14" + txref.h160(sec) + b"\x88\xac"
        info.update(sigver="base", script_code=spk, sig_at=[("ss", 0)], pub_at=("ss", 1))
    elif typ in ("p2sh", "p2wsh", "p2sh-p2wsh"):
        items, secs = multisig_script_items(m, keys)
        ms = txref.script_from_items(items)
        info.update(script=ms, script_code=ms, secs=secs)
        if typ == "p2sh":
            spk = b"\xa9\x14" + txref.h160(ms) + b"\x87"
            info.update(sigver="base", sig_at=[("ss", 1 + j) for j in range(m)], script_at=("ss", m + 1), dummy_at=("ss", 0))
        elif typ == "p2wsh":
            spk = b"\x00\x20" + txref.sha256(ms)
            info.update(sigver="v0", sig_at=[("wit", 1 + j) for j in range(m)], script_at=("wit", m + 1), dummy_at=("wit", 0))
        else:
            redeem = b"\x00\x20" + txref.sha256(ms)
            spk = b"\xa9\x14" + txref.h160(redeem) + b"\x87"
            info.update(sigver="v0", sig_at=[("wit", 1 + j) for j in range(m)], script_at=("wit", m + 1), dummy_at=("wit", 0), redeem=redeem)
    elif typ in ("p2wpkh", "p2sh-p2wpkh"):
        sec = C.sec(C.mulg(key(0)))
        prog = b"\x00\x14" + txref.h160(sec)
        sc = b"\x76\xa9\x14" + txref.h160(sec) + b"\x88\xac"
        spk = prog if typ == "p2wpkh" else b"\xa9\x14" + txref.h160(prog) + b"\x87"
        info.update(sigver="v0", script_code=sc, sig_at=[("wit", 0)], pub_at=("wit", 1), redeem=prog if typ != "p2wpkh" else None)
    elif typ == "p2tr-key":
        # variant selects: with/without script tree; the key index walks to cover both internal-key parities
        want_odd = (variant // 2) % 2
        kidx = next(k for k in range(200, 400) if (C.mulg(key(k))[1] & 1) == want_odd)
        info["keys"] = [kidx]
        privs = [pecc.PrivateKey(key(kidx))]
        root = b"" if variant % 2 == 0 else taproot.TapLeaf(Script([b"\x07" * 32, 0xAC])).hash()
        spk_obj = privs[0].point.p2tr_script(root)
        spk = spk_obj.raw_serialize()
        info.update(sigver="tapkey", sig_at=[("wit", 0)], root=root)
    elif typ in ("p2tr-ms", "p2tr-pk"):
        points = [p.point for p in privs]
        if typ == "p2tr-ms":
            tap_script = taproot.MultiSigTapScript(points, m)
        else:
            tap_script = taproot.P2PKTapScript(points[0])
        leaf = tap_script.tap_leaf()
        other = taproot.TapLeaf(Script([b"\x09" * 32, 0xAC]))
        tree = taproot.TapBranch(leaf, other) if variant % 2 else leaf
        internal = pecc.PrivateKey(key(150 + variant)).point
        root = tree.hash()
        cb = tree.control_block(internal, leaf)
        spk = internal.p2tr_script(root).raw_serialize()
        info.update(sigver="tapscript", script=tap_script.raw_serialize(), leaf_hash=leaf.hash())
    else:
        raise ValueError(typ)
    # transaction: two inputs, two outputs; the other input is an unsigned P2PKH of a foreign key
    other_spk = b"\x76\xa9\x14" + txref.h160(C.sec(C.mulg(key(FOREIGN)))) + b"\x88\xac"
    spent = [None, None]
    spent[idx] = (amount, spk)
    spent[1 - idx] = (5000, other_spk)
    tins = []
    for i in range(2):
        ti = TxIn(bytes([0x21 + i]) * 32, i + variant, None, 0xFFFFFFFE - i)
        ti._value = spent[i][0]
        ti._script_pubkey = L["Script"].parse(BytesIO(txref.varbytes(spent[i][1])))
        from buidl.script import ScriptPubKey

        ti._script_pubkey = ScriptPubKey.parse(BytesIO(txref.varbytes(spent[i][1])))
        tins.append(ti)
    touts = [TxOut(amount - 2000, L["P2PKHScriptPubKey"](b"\x55" * 20)), TxOut(1500, L["P2TRScriptPubKey"](b"\x66" * 32))]
    ltx = Tx(2, tins, touts, 17 + variant, network="mainnet", segwit=typ not in ("p2pkh", "p2pkh-u", "p2sh"))
    signers = privs[:m] if typ in ("p2sh", "p2wsh", "p2sh-p2wsh", "p2tr-ms") else privs[:1]
    if typ in ("p2pkh", "p2pkh-u"):
        ok = ltx.sign_p2pkh(idx, privs[0])
    elif typ == "p2wpkh":
        ok = ltx.sign_p2wpkh(idx, privs[0])
    elif typ == "p2sh-p2wpkh":
        ok = ltx.sign_p2sh_p2wpkh(idx, privs[0])
    elif typ == "p2sh":
        redeem = L["RedeemScript"].convert(info["script"])
        # signatures must follow the order of the keys in the script
        order = sorted(range(n), key=lambda k: C.sec(C.mulg(key(k))))
        chosen = order[:m]
        sigs = [ltx.get_sig_legacy(idx, privs[k], redeem_script=redeem) for k in chosen]
        ltx.tx_ins[idx].finalize_p2sh_multisig(sigs, redeem)
        ok = ltx.verify_input(idx)
        info["signers"] = chosen
    elif typ in ("p2wsh", "p2sh-p2wsh"):
        ws = L["WitnessScript"].convert(info["script"])
        order = sorted(range(n), key=lambda k: C.sec(C.mulg(key(k))))
        chosen = order[:m]
        sigs = [ltx.get_sig_segwit(idx, privs[k], witness_script=ws) for k in chosen]
        if typ == "p2wsh":
            ltx.tx_ins[idx].finalize_p2wsh_multisig(sigs, ws)
        else:
            ltx.tx_ins[idx].finalize_p2sh_p2wsh_multisig(sigs, ws)
        ok = ltx.verify_input(idx)
        info["signers"] = chosen
    elif typ == "p2tr-key":
        tweaked = privs[0].tweaked_key(info["root"])
        ok = ltx.sign_p2tr_keypath(idx, tweaked)
    elif typ == "p2tr-ms":
        ltx.initialize_p2tr_multisig(idx, cb, tap_script)
        xs = sorted(range(n), key=lambda k: ec.b32(C.mulg(key(k))[0]))
        chosen = xs[:m]
        sigs = [ltx.get_sig_taproot(idx, privs[k], ext_flag=1) if k in chosen else b"" for k in range(n)]
        ok = ltx.finalize_p2tr_multisig(idx, sigs)
        info["signers"] = chosen
        wl = len(ltx.tx_ins[idx].witness.items)
        info.update(sig_at=[("wit", j) for j in range(wl - 2) if ltx.tx_ins[idx].witness.items[j]], script_at=("wit", wl - 2), cb_at=("wit", wl - 1))
    elif typ == "p2tr-pk":
        ltx.tx_ins[idx].witness = Witness([tap_script.raw_serialize(), cb.serialize()])
        sig = ltx.get_sig_taproot(idx, privs[0], ext_flag=1)
        ltx.tx_ins[idx].witness.items.insert(0, sig)
        ok = ltx.verify_input(idx)
        info.update(sig_at=[("wit", 0)], script_at=("wit", 1), cb_at=("wit", 2))
    tx = abstract_of(ltx, spent)
    info["lib_ok"] = bool(ok)
    return tx, spent, idx, info


# ------------------------------------------------------------------ wire-level mutation helpers
def ss_items(tx, idx):
    """scriptSig as a list of pushed items (all scriptSigs the library builds are push-only)."""
    return [d if d is not None else op for op, d in interp.parse_script(tx["ins"][idx]["script"])]


def set_ss(tx, idx, items):
    tx["ins"][idx]["script"] = txref.script_from_items([x if isinstance(x, int) else bytes(x) for x in items])


def get_at(tx, idx, at):
    where, k = at
    if where == "ss":
        return ss_items(tx, idx)[k]
    return tx["ins"][idx]["witness"][k]


def put_at(tx, idx, at, val):
    where, k = at
    if where == "ss":
        it = ss_items(tx, idx)
        it[k] = val
        set_ss(tx, idx, it)
    else:
        tx["ins"][idx]["witness"][k] = val


def del_at(tx, idx, at):
    where, k = at
    if where == "ss":
        it = ss_items(tx, idx)
        del it[k]
        set_ss(tx, idx, it)
    else:
        del tx["ins"][idx]["witness"][k]


def ref_sign(tx, spent, idx, info, d, ht=None):
    """A signature by secret d over the CURRENT transaction, made by the reference signer."""
    sv = info["sigver"]
    if sv in ("base", "v0"):
        ht = 1 if ht is None else ht
        if sv == "base":
            z = txref.sighash_legacy(tx, idx, info["script_code"], ht)
        else:
            z = txref.sighash_bip143(tx, idx, info["script_code"], spent[idx][0], ht)
        return ec.der_sig(*C.ecdsa_sign(d, int.from_bytes(z, "big"))) + bytes([ht])
    ht = 0 if ht is None else ht
    w = tx["ins"][idx]["witness"]
    annex = w[-1] if len(w) >= 2 and w[-1] and w[-1][0] == 0x50 else None
    msg = txref.sighash_bip341(tx, idx, spent, ht, annex=annex, leaf_hash=info.get("leaf_hash") if sv == "tapscript" else None)
    if msg is None:
        return b"\x00" * 64
    s = C.schnorr_sign(d, msg, b"\x00" * 32)
    return s + (bytes([ht]) if ht else b"")


def mutations(info):
    """name -> function(tx, spent, idx, info) mutating in place (deep copies are made by the caller).
    Only mutations applicable to the base type are returned."""
    typ = info["type"]
    muts = {}
    sig_at = info.get("sig_at", [])
    sv = info["sigver"]

    def add(name, f):
        muts[name] = f

    for j, at in enumerate(sig_at):
        add(f"sig{j}-drop", lambda tx, sp, i, inf, at=at: del_at(tx, i, at))
        add(f"sig{j}-empty", lambda tx, sp, i, inf, at=at: put_at(tx, i, at, b""))
        add(f"sig{j}-foreign-key", lambda tx, sp, i, inf, at=at: put_at(tx, i, at, ref_sign(tx, sp, i, inf, key(FOREIGN))))
        add(f"sig{j}-flip-byte10", lambda tx, sp, i, inf, at=at: put_at(tx, i, at, flip(get_at(tx, i, at), 10)))
        add(f"sig{j}-flip-last-s-byte", lambda tx, sp, i, inf, at=at: put_at(tx, i, at, flip(get_at(tx, i, at), -2 if sv in ("base", "v0") else -1)))
        if sv in ("base", "v0"):
            for ht in (2, 3, 0x81):
                add(f"sig{j}-sighash-byte-{ht:02x}", lambda tx, sp, i, inf, at=at, ht=ht: put_at(tx, i, at, get_at(tx, i, at)[:-1] + bytes([ht])))
            add(f"sig{j}-truncated", lambda tx, sp, i, inf, at=at: put_at(tx, i, at, get_at(tx, i, at)[:-5]))
            add(f"sig{j}-high-s", lambda tx, sp, i, inf, at=at: put_at(tx, i, at, high_s(get_at(tx, i, at))))
        else:
            for ht in (1, 3, 0x81):
                add(f"sig{j}-sighash-byte-{ht:02x}", lambda tx, sp, i, inf, at=at, ht=ht: put_at(tx, i, at, get_at(tx, i, at)[:64] + bytes([ht])))
            add(f"sig{j}-explicit-default-00", lambda tx, sp, i, inf, at=at: put_at(tx, i, at, get_at(tx, i, at)[:64] + b"\x00"))
            add(f"sig{j}-63bytes", lambda tx, sp, i, inf, at=at: put_at(tx, i, at, get_at(tx, i, at)[:63]))
            add(f"sig{j}-resigned-sighash-01", lambda tx, sp, i, inf, at=at, j=j: put_at(tx, i, at, ref_sign(tx, sp, i, inf, signer_secret(inf, j, tx, i), 1)))
    if len(sig_at) >= 2:
        add("sigs-swapped", lambda tx, sp, i, inf: swap(tx, i, sig_at[0], sig_at[1]))
        add("sig0-duplicated-over-sig1", lambda tx, sp, i, inf: put_at(tx, i, sig_at[1], get_at(tx, i, sig_at[0])))
    if typ in ("p2sh", "p2wsh", "p2sh-p2wsh"):
        add("all-sigs-by-one-foreign-key", lambda tx, sp, i, inf: [put_at(tx, i, at, ref_sign(tx, sp, i, inf, key(FOREIGN))) for at in sig_at])
        add("one-good-rest-foreign", lambda tx, sp, i, inf: [put_at(tx, i, at, ref_sign(tx, sp, i, inf, key(FOREIGN))) for at in sig_at[1:]])
        add("dummy-nonempty", lambda tx, sp, i, inf: put_at(tx, i, inf["dummy_at"], b"\x01"))
        add("script-other-keys", lambda tx, sp, i, inf: put_at(tx, i, inf["script_at"], other_multisig(inf)))
        add("script-flip-byte", lambda tx, sp, i, inf: put_at(tx, i, inf["script_at"], flip(get_at(tx, i, inf["script_at"]), 5)))
        add("script-m-lowered", lambda tx, sp, i, inf: put_at(tx, i, inf["script_at"], bytes([0x51]) + get_at(tx, i, inf["script_at"])[1:]) if inf["m"] > 1 else put_at(tx, i, inf["script_at"], bytes([0x00]) + get_at(tx, i, inf["script_at"])[1:]))
        add("script-replaced-by-OP_1", lambda tx, sp, i, inf: put_at(tx, i, inf["script_at"], b"\x51"))
    if "pub_at" in info:
        add("pubkey-other", lambda tx, sp, i, inf: put_at(tx, i, inf["pub_at"], C.sec(C.mulg(key(FOREIGN)))))
        add("pubkey-other+its-signature", lambda tx, sp, i, inf: (put_at(tx, i, inf["pub_at"], C.sec(C.mulg(key(FOREIGN)))), put_at(tx, i, sig_at[0], ref_sign(tx, sp, i, inf, key(FOREIGN)))))
        add("pubkey-flip-prefix", lambda tx, sp, i, inf: put_at(tx, i, inf["pub_at"], flip(get_at(tx, i, inf["pub_at"]), 0)))
    if "cb_at" in info:
        add("cb-flip-parity", lambda tx, sp, i, inf: put_at(tx, i, inf["cb_at"], flip(get_at(tx, i, inf["cb_at"]), 0)))
        add("cb-flip-key-byte", lambda tx, sp, i, inf: put_at(tx, i, inf["cb_at"], flip(get_at(tx, i, inf["cb_at"]), 7)))
        add("cb-flip-last-byte", lambda tx, sp, i, inf: put_at(tx, i, inf["cb_at"], flip(get_at(tx, i, inf["cb_at"]), -1)))
        add("cb-truncated-32", lambda tx, sp, i, inf: put_at(tx, i, inf["cb_at"], get_at(tx, i, inf["cb_at"])[:-32] or b"\xc0"))
        add("cb-extended-32", lambda tx, sp, i, inf: put_at(tx, i, inf["cb_at"], get_at(tx, i, inf["cb_at"]) + b"\x00" * 32))
        add("cb-leaf-version-c2", lambda tx, sp, i, inf: put_at(tx, i, inf["cb_at"], bytes([get_at(tx, i, inf["cb_at"])[0] ^ 0x02]) + get_at(tx, i, inf["cb_at"])[1:]))
        add("leaf-script-flip-byte", lambda tx, sp, i, inf: put_at(tx, i, inf["script_at"], flip(get_at(tx, i, inf["script_at"]), 3)))
        add("leaf-script-replaced-by-OP_1", lambda tx, sp, i, inf: put_at(tx, i, inf["script_at"], b"\x51"))
        add("leaf-script-other-key", lambda tx, sp, i, inf: put_at(tx, i, inf["script_at"], get_at(tx, i, inf["script_at"]).replace(ec.b32(C.mulg(key(inf["keys"][0]))[0]), ec.b32(C.mulg(key(FOREIGN))[0]))))
    # committed transaction fields changed after signing
    add("tx-output-amount", lambda tx, sp, i, inf: tx["outs"][0].__setitem__("amount", tx["outs"][0]["amount"] + 1))
    add("tx-output-script", lambda tx, sp, i, inf: tx["outs"][1].__setitem__("script", b"\x51\x20" + b"\x67" * 32))
    add("tx-output-dropped", lambda tx, sp, i, inf: tx["outs"].pop())
    add("tx-sequence", lambda tx, sp, i, inf: tx["ins"][i].__setitem__("seq", tx["ins"][i]["seq"] - 1))
    add("tx-other-sequence", lambda tx, sp, i, inf: tx["ins"][1 - i].__setitem__("seq", tx["ins"][1 - i]["seq"] - 1))
    add("tx-locktime", lambda tx, sp, i, inf: tx.__setitem__("locktime", tx["locktime"] + 1))
    add("tx-version", lambda tx, sp, i, inf: tx.__setitem__("version", 1))
    add("tx-outpoint-index", lambda tx, sp, i, inf: tx["ins"][i].__setitem__("index", tx["ins"][i]["index"] + 1))
    add("tx-outpoint-txid", lambda tx, sp, i, inf: tx["ins"][i].__setitem__("prev", flip(tx["ins"][i]["prev"], 0)))
    add("tx-other-outpoint", lambda tx, sp, i, inf: tx["ins"][1 - i].__setitem__("index", 9))
    add("spent-amount", lambda tx, sp, i, inf: sp.__setitem__(i, (sp[i][0] + 1, sp[i][1])))
    add("other-spent-amount", lambda tx, sp, i, inf: sp.__setitem__(1 - i, (sp[1 - i][0] + 1, sp[1 - i][1])))
    # witness shape
    if sv != "base":
        add("witness-empty", lambda tx, sp, i, inf: tx["ins"][i].__setitem__("witness", []))
        add("witness-drop-last", lambda tx, sp, i, inf: tx["ins"][i]["witness"].pop())
        add("witness-drop-first", lambda tx, sp, i, inf: tx["ins"][i]["witness"].pop(0))
        add("witness-annex-only", lambda tx, sp, i, inf: tx["ins"][i].__setitem__("witness", [b"\x50\x01"]))
        add("witness-annex-only-64", lambda tx, sp, i, inf: tx["ins"][i].__setitem__("witness", [b"\x50" + b"\x00" * 63]))
        add("witness-annex-appended", lambda tx, sp, i, inf: tx["ins"][i]["witness"].append(b"\x50\xaa"))
        add("witness-extra-item-front", lambda tx, sp, i, inf: tx["ins"][i]["witness"].insert(0, b"\x01"))
        add("scriptsig-01-witness-intact", lambda tx, sp, i, inf: set_ss(tx, i, ss_items(tx, i) + [b"\x01"]))
        add("scriptsig-01-no-witness", lambda tx, sp, i, inf: (set_ss(tx, i, ss_items(tx, i) + [b"\x01"]), tx["ins"][i].__setitem__("witness", [])))
        add("scriptsig-01-only-no-witness", lambda tx, sp, i, inf: (set_ss(tx, i, [b"\x01"]), tx["ins"][i].__setitem__("witness", [])))
        add("scriptsig-OP_1-only-no-witness", lambda tx, sp, i, inf: (set_ss(tx, i, [0x51]), tx["ins"][i].__setitem__("witness", [])))
        if info.get("redeem"):
            add("scriptsig-01+redeem-no-witness", lambda tx, sp, i, inf: (set_ss(tx, i, [b"\x01", inf["redeem"]]), tx["ins"][i].__setitem__("witness", [])))
            add("scriptsig-extra-push-before-redeem", lambda tx, sp, i, inf: set_ss(tx, i, [b"\x01"] + ss_items(tx, i)))
            add("scriptsig-redeem-other-program", lambda tx, sp, i, inf: set_ss(tx, i, [flip(inf["redeem"], 5)]))
    else:
        add("witness-on-legacy", lambda tx, sp, i, inf: (tx["ins"][i].__setitem__("witness", [b"\x01"]), tx.__setitem__("segwit", True)))
        add("scriptsig-empty", lambda tx, sp, i, inf: set_ss(tx, i, []))
        add("scriptsig-01-only", lambda tx, sp, i, inf: set_ss(tx, i, [b"\x01"]))
        add("scriptsig-OP_1-only", lambda tx, sp, i, inf: set_ss(tx, i, [0x51]))
        add("scriptsig-extra-push-front", lambda tx, sp, i, inf: set_ss(tx, i, [b"\x01"] + ss_items(tx, i)))
        if typ == "p2sh":
            add("scriptsig-redeem-only", lambda tx, sp, i, inf: set_ss(tx, i, [inf["script"]]))
            add("scriptsig-01+redeem", lambda tx, sp, i, inf: set_ss(tx, i, [b"\x01", inf["script"]]))
            add("scriptsig-OP_0+redeem", lambda tx, sp, i, inf: set_ss(tx, i, [b"", inf["script"]]))
            add("scriptsig-OP_1s+redeem", lambda tx, sp, i, inf: set_ss(tx, i, [b""] + [b"\x01"] * inf["m"] + [inf["script"]]))
            add("scriptsig-extra-push-after-redeem", lambda tx, sp, i, inf: set_ss(tx, i, ss_items(tx, i) + [b"\x01"]))
            add("scriptsig-redeem-replaced-by-OP_1-script", lambda tx, sp, i, inf: set_ss(tx, i, [b"\x51"]))
    return muts


def signer_secret(info, j, tx, idx):
    if info["type"] == "p2tr-key":
        d = key(info["keys"][0])
        P = C.mulg(d)
        dd = d if P[1] % 2 == 0 else N - d
        Q, par, t = C.taproot_tweak(P[0], info["root"])
        return (dd + t) % N
    if "signers" in info:
        xs = sorted(info["signers"], key=lambda k: ec.b32(C.mulg(key(k))[0]), reverse=True)
        return key(xs[j] if j < len(xs) else info["keys"][0])
    return key(info["keys"][0])


def flip(b, pos, mask=0x01):
    b = bytearray(b)
    if not b:
        return b"\x01"
    b[pos] ^= mask
    return bytes(b)


def high_s(sig):
    rs = ec.der_parse_strict(sig[:-1])
    if rs is None:
        return sig
    return ec.der_sig(rs[0], N - rs[1]) + sig[-1:]


def swap(tx, idx, a, b):
    x, y = get_at(tx, idx, a), get_at(tx, idx, b)
    put_at(tx, idx, a, y)
    put_at(tx, idx, b, x)


def other_multisig(info):
    items, _ = multisig_script_items(info["m"], [FOREIGN + 1 + k for k in range(info["n"])])
    return txref.script_from_items(items)


def lib_verify(tx, spent, idx):
    from buidl.script import ScriptPubKey
    from buidl.tx import Tx

    def f():
        raw = txref.ser_tx(tx)
        ltx = Tx.parse(BytesIO(raw))
        for i, (amt, spk) in enumerate(spent):
            ltx.tx_ins[i]._value = amt
            ltx.tx_ins[i]._script_pubkey = ScriptPubKey.parse(BytesIO(txref.varbytes(spk)))
        return ltx.verify_input(idx)

    r = attempt(f)
    return (not isinstance(r, Rejected)) and r is True or (not isinstance(r, Rejected) and bool(r))


# ------------------------------------------------------------------ cases
def base_specs(tier):
    mn = [(1, 1), (1, 2), (2, 2), (2, 3)] if tier == "quick" else [(m, n) for n in range(1, 6) for m in range(1, n + 1)]
    specs = [("p2pkh", 1, 1, 0), ("p2pkh-u", 1, 1, 1), ("p2wpkh", 1, 1, 0), ("p2sh-p2wpkh", 1, 1, 1)]
    for m, n in mn:
        for t in ("p2sh", "p2wsh", "p2sh-p2wsh", "p2tr-ms"):
            specs.append((t, m, n, (m + n) % 2))
    for v in range(4):
        specs.append(("p2tr-key", 1, 1, v))
    specs += [("p2tr-pk", 1, 1, 0), ("p2tr-pk", 1, 1, 1)]
    return specs


def gen_spend(tier, seed):
    cases = []
    for spec in base_specs(tier):
        typ, m, n, v = spec
        # a structural stand-in for info to list applicable mutation names without signing anything
        names = mutation_names(spec)
        cases.append({"spec": list(spec), "devs": []})
        for nm in names:
            cases.append({"spec": list(spec), "devs": [nm]})
        if tier == "thorough" and (m, n) in ((1, 1), (1, 2), (2, 3)):
            core = [x for x in names if not x.startswith("tx-") or x in ("tx-locktime", "tx-output-amount")]
            for a, b in itertools.combinations(core, 2):
                cases.append({"spec": list(spec), "devs": [a, b]})
    return cases


def mutation_names(spec):
    typ, m, n, v = spec
    info = {"type": typ, "m": m, "n": n, "keys": list(range(n))}
    if typ in ("p2pkh", "p2pkh-u"):
        info.update(sigver="base", sig_at=[("ss", 0)], pub_at=("ss", 1))
    elif typ == "p2sh":
        info.update(sigver="base", sig_at=[("ss", 1 + j) for j in range(m)], script_at=("ss", m + 1), dummy_at=("ss", 0))
    elif typ in ("p2wsh", "p2sh-p2wsh"):
        info.update(sigver="v0", sig_at=[("wit", 1 + j) for j in range(m)], script_at=("wit", m + 1), dummy_at=("wit", 0), redeem=b"x" if typ != "p2wsh" else None)
    elif typ in ("p2wpkh", "p2sh-p2wpkh"):
        info.update(sigver="v0", sig_at=[("wit", 0)], pub_at=("wit", 1), redeem=b"x" if typ != "p2wpkh" else None)
    elif typ == "p2tr-key":
        info.update(sigver="tapkey", sig_at=[("wit", 0)])
    elif typ == "p2tr-ms":
        info.update(sigver="tapscript", sig_at=[("wit", j) for j in range(m)], script_at=("wit", n), cb_at=("wit", n + 1))
    elif typ == "p2tr-pk":
        info.update(sigver="tapscript", sig_at=[("wit", 0)], script_at=("wit", 1), cb_at=("wit", 2))
    return list(mutations(info))


def run_spend(case):
    import copy

    res = Res()
    spec = tuple(case["spec"])
    tx0, spent0, idx, info = build_base(spec)
    vc = {"engine": "spend", "case": case}
    typ = spec[0]
    label = f"{typ}-{spec[1]}of{spec[2]}"
    if not case["devs"]:
        ref_ok = interp.verify_input(tx0, idx, spent0, relaxed=True)
        strict = interp.verify_input(tx0, idx, spent0)
        lib_ok = info["lib_ok"] and lib_verify(tx0, spent0, idx)
        if not lib_ok:
            res.violation(f"C06/spend/{typ}/own-spend-rejected", vc, lib_ok, True, f"{label}: spend built and signed through the library does not verify")
        elif not ref_ok:
            res.violation(f"C06/spend/{typ}/own-spend-invalid-by-reference", vc, lib_ok, ref_ok, f"{label}: library accepts its own spend, reference consensus verifier rejects it")
        else:
            res.ok("own spend verifies (library and reference%s)" % ("" if strict else "; strict consensus rejects: malleability rule"), nontrivial=("base", spec), sample=case)
        return res
    tx, spent = copy.deepcopy(tx0), list(spent0)
    muts = mutations(info)
    for nm in case["devs"]:
        if nm not in muts:
            res.skip("mutation not applicable to the signed form")
            return res
        try:
            muts[nm](tx, spent, idx, info)
        except (IndexError, KeyError):
            res.skip("mutation not applicable after the previous one")
            return res
    if tx["segwit"] and not any(i["witness"] for i in tx["ins"]):
        tx["segwit"] = False
    if (tx, spent) == (tx0, list(spent0)):
        res.skip("mutation is the identity on this spend")
        return res
    # authorisation oracle: consensus without the malleability-only rules (the statement is about
    # authorisation; e.g. a valid witness next to a junk scriptSig is authorised although consensus rejects it)
    ref_ok = interp.verify_input(tx, idx, spent, relaxed=True)
    strict_ok = interp.verify_input(tx, idx, spent)
    assert ref_ok or not strict_ok
    lib_ok = lib_verify(tx, spent, idx)
    devs = "+".join(case["devs"])
    if lib_ok and not ref_ok:
        res.violation(f"C06/spend/{typ}/{devs}", vc, True, False, f"{label}: mutated spend [{devs}] verifies although consensus rejects it")
    elif lib_ok and ref_ok:
        res.ok("benign mutation (still authorised; strict consensus %s)" % ("accepts" if strict_ok else "rejects: malleability rule only"), nontrivial=None)
    elif not lib_ok and ref_ok:
        res.ok("library rejects a spend consensus accepts (completeness not claimed for mutated spends)")
    else:
        res.ok("unauthorised spend rejected", nontrivial=(spec, devs), sample=case if len(case["devs"]) == 1 and devs.startswith("scriptsig") else None)
    return res


# ------------------------------------------------------------------ signature-free scriptSigs, exhaustively
# alphabet of the scriptSig items; "R" = the element whose hash the spent script commits to (redeem script, witness
# program, public key), "S" = the multisig/witness script where one exists
SF_FULL = ["R", b"", b"\x01", 0x51, 0x61, 0x76, 0x75, 0x63, 0x64, 0x67, 0x68, 0x6A, 0x69, 0x74, 0x87, 0xA9, 0x6B, 0x6C, 0x6D, 0xB1, 0xAC, 0xAE, 0x7C, 0x73, 0x82, 0x91, "S"]
SF_CORE = ["R", b"", b"\x01", 0x51, 0x61, 0x76, 0x75, 0x63, 0x68, 0x67, 0x87, 0xA9, 0x74]
SF_TYPES = [("p2pkh", 1, 1, 0), ("p2sh", 1, 2, 1), ("p2sh", 2, 3, 1), ("p2sh-p2wpkh", 1, 1, 1), ("p2sh-p2wsh", 2, 3, 1), ("p2wpkh", 1, 1, 0), ("p2wsh", 1, 2, 1), ("p2tr-key", 1, 1, 0)]


def sf_name(x):
    return x if isinstance(x, str) else (("push" + x.hex()) if x else "OP_0") if isinstance(x, bytes) else "op%02x" % x


def gen_sigfree(tier, seed):
    full_len, core_len = (2, 3) if tier == "quick" else (3, 4)
    cases = []
    for spec in SF_TYPES:
        seqs = set()
        for L in range(1, full_len + 1):
            seqs.update(itertools.product(range(len(SF_FULL)), repeat=L))
        core_idx = [SF_FULL.index(x) for x in SF_CORE]
        for L in range(full_len + 1, core_len + 1):
            seqs.update(itertools.product(core_idx, repeat=L))
        seqs = sorted(seqs, key=lambda q: (len(q), q))
        for i in range(0, len(seqs), 64):
            cases.append({"spec": list(spec), "seqs": [list(q) for q in seqs[i : i + 64]]})
    return cases


def run_sigfree(case):
    import copy

    res = Res()
    spec = tuple(case["spec"])
    tx0, spent0, idx, info = build_base(spec)
    typ = spec[0]
    R = info.get("redeem") or info.get("script") or C.sec(C.mulg(key(0)))
    S = info.get("script") or R
    wit0 = tx0["ins"][idx].get("witness", [])
    for q in case["seqs"]:
        items = [R if SF_FULL[j] == "R" else S if SF_FULL[j] == "S" else SF_FULL[j] for j in q]
        name = " ".join(sf_name(SF_FULL[j]) for j in q)
        for keep_witness in ([False, True] if wit0 else [False]):
            tx = copy.deepcopy(tx0)
            tx["ins"][idx]["script"] = txref.script_from_items(items)
            if not keep_witness:
                tx["ins"][idx]["witness"] = []
            tx["segwit"] = any(i.get("witness") for i in tx["ins"])
            try:
                ref_ok = interp.verify_input(tx, idx, spent0, relaxed=True)
            except interp.OutOfStatement as e:
                # over-long numeric operands are a script error under consensus (the reference only refuses to
                # compare stack contents there); anything else outside the opcode set is skipped
                if "numeric operand" not in str(e):
                    res.skip("outside the library's opcode set")
                    continue
                ref_ok = False
            if not keep_witness:
                assert not ref_ok, ("reference accepts a signature-free spend", typ, name)
            lib_ok = lib_verify(tx, spent0, idx)
            vc = {"engine": "sigfree", "case": {"spec": list(spec), "seqs": [list(q)]}}
            if lib_ok and not ref_ok:
                cls = "no-signature-anywhere" if not keep_witness else "scriptsig-consensus-rejects"
                shape = "+".join(sorted(set("R" if SF_FULL[j] == "R" else "S" if SF_FULL[j] == "S" else "push" if isinstance(SF_FULL[j], bytes) else "opcode" for j in q)))
                res.violation(f"C06/sigfree/{typ}/{cls}/{shape}", vc, True, False, f"{typ}: scriptSig [{name}] ({'witness kept' if keep_witness else 'no witness'}) verifies although it carries no authorisation consensus accepts")
            elif not ref_ok:
                res.ok("signature-free scriptSig rejected", nontrivial=(typ, tuple(q), keep_witness), sample=vc["case"] if len(q) == 2 else None)
            else:
                res.ok("scriptSig junk beside an intact witness: consensus-authorised or library stricter")
    return res


# ------------------------------------------------------------------ toy instance: CHECKMULTISIG exhaustively
def toy_nonce(c, d, z, salt=0):
    """deterministic nonce with r != 0 and s != 0 on the toy curve"""
    import hashlib

    for ctr in range(1000):
        k = 1 + int.from_bytes(hashlib.sha256(b"c06toy" + bytes([salt, ctr]) + d.to_bytes(2, "big") + z.to_bytes(32, "big")).digest(), "big") % (c.n - 1)
        if c.ecdsa_sign_k(d, z, k) is not None:
            return k
    raise RuntimeError("no nonce")


def gen_toy_ms(toy):
    def g(tier, seed):
        n = toy[1]
        cases = []
        for a, b in itertools.combinations(range(1, n), 2):
            cases.append({"toy": list(toy), "keys": [a, b]})
        step = 7 if tier == "quick" else 1
        for t in list(itertools.combinations(range(1, n), 3))[::step]:
            cases.append({"toy": list(toy), "keys": list(t)})
        return cases

    return g


def run_toy_ms(case):
    from buidl import pecc
    from mc.core import current_toy

    res = Res()
    toy = tuple(case["toy"])
    assert current_toy() == toy and pecc.N == toy[1]
    c = ec.toy_curve(*toy)
    keys = case["keys"]
    n = len(keys)
    foreign = next(d for d in range(1, c.n) if d not in keys and c.mulg(d)[0] not in [c.mulg(k)[0] for k in keys])
    secs = [c.sec(c.mulg(d)) for d in keys]
    order = sorted(range(n), key=lambda i: secs[i])
    vc0 = {"engine": f"toy-multisig-{toy[0]}", "toy": list(toy)}
    only = case.get("only")
    for m in range(1, n + 1):
        script = bytes([0x50 + m]) + b"".join(txref.push(secs[i]) for i in order) + bytes([0x50 + n, 0xAE])
        for stype in ("p2sh", "p2wsh"):
            amount = 70000
            spk = b"\xa9\x14" + txref.h160(script) + b"\x87" if stype == "p2sh" else b"\x00\x20" + txref.sha256(script)
            base = {"version": 2, "locktime": 0, "segwit": stype == "p2wsh", "ins": [{"prev": b"\x31" * 32, "index": 1, "script": b"", "seq": 0xFFFFFFFD, "witness": []}], "outs": [{"amount": 60000, "script": b"\x51"}]}
            spent = [(amount, spk)]
            if stype == "p2sh":
                z = int.from_bytes(txref.sighash_legacy(base, 0, script, 1), "big")
            else:
                z = int.from_bytes(txref.sighash_bip143(base, 0, script, amount, 1), "big")
            sigs = {}
            for j, d in list(enumerate(keys)) + [("f", foreign)]:
                rs = c.ecdsa_sign_k(d, z, toy_nonce(c, d, z))
                sigs[j] = ec.der_sig(*rs) + b"\x01"
            # a signature by a script key over ANOTHER transaction
            z2 = (z + 1) % 2**256
            sigs["w"] = ec.der_sig(*c.ecdsa_sign_k(keys[0], z2, toy_nonce(c, keys[0], z2, 1))) + b"\x01"
            sigs["e"] = b""
            alphabet = list(range(n)) + ["f", "w", "e"]
            for combo in itertools.product(alphabet, repeat=m):
                if only and only != [m, stype, [str(x) for x in combo]]:
                    continue
                items = [b""] + [sigs[x] for x in combo]
                tx = copy_tx(base)
                if stype == "p2sh":
                    tx["ins"][0]["script"] = txref.script_from_items(items + [script])
                else:
                    tx["ins"][0]["witness"] = items + [script]
                ref_ok = interp.verify_input(tx, 0, spent, c, relaxed=True)
                lib_ok = lib_verify(tx, spent, 0)
                vc = dict(vc0, case=dict(case, only=[m, stype, [str(x) for x in combo]]))
                honest = all(isinstance(x, int) for x in combo) and [order.index(x) for x in combo] == sorted(order.index(x) for x in combo) and len(set(combo)) == m
                if lib_ok and not ref_ok:
                    kinds = "".join("k" if isinstance(x, int) else x for x in combo)
                    res.violation(f"C06/toy-multisig/{stype}/{m}of{n}/accepts-{kinds}", vc, True, False, f"{m}-of-{n} {stype}: signature slots {combo} accepted although the reference rejects")
                elif honest and not lib_ok:
                    res.violation(f"C06/toy-multisig/{stype}/{m}of{n}/rejects-honest", vc, False, True, f"{m}-of-{n} {stype}: distinct script keys signing in script order rejected")
                else:
                    res.evaluations += 1
                    res.outcomes["rejected==ref" if not lib_ok and not ref_ok else ("accepted==ref" if lib_ok else "library stricter than reference")] += 1
                    res.nontrivial_bulk += 1
    return res


def copy_tx(tx):
    import copy

    return copy.deepcopy(tx)


def engines(tier, seed):
    toy = (43, 31)
    return [
        Engine(
            f"toy-multisig-{toy[0]}",
            gen_toy_ms(toy),
            run_toy_ms,
            toy=toy,
            kind="E3",
            rule="toy curve p=43 n=31: every pair and every 7th triple (thorough: every triple) of script keys x every m <= n x {P2SH, P2WSH} x every assignment of the m signature slots from {signature by each script key, by a foreign key, by a script key over another transaction, empty}: Tx.verify_input True => reference (toy-curve, authorisation mode) valid; distinct keys in script order must be accepted",
        ),
        Engine(
            "spend",
            gen_spend,
            run_spend,
            kind="E1",
            chunk=12,
            rule="bases: P2PKH (compressed, uncompressed), P2WPKH, P2SH-P2WPKH, P2SH / P2WSH / P2SH-P2WSH / tapscript multisig for (m,n) in {1of1,1of2,2of2,2of3} (thorough: all 1<=m<=n<=5), P2TR key path (both internal-key parities, with/without tree), P2TR P2PK leaf — each built and signed through the library; level 0 must verify under library and reference; level 1 = every applicable single mutation of a ~75-entry wire-level catalogue (signatures dropped/emptied/foreign/flipped/reordered/duplicated/re-hash-typed, pubkey/script/control-block changes, committed tx fields, witness shapes, signature-free scriptSigs), thorough adds all pairs for three wallets; oracle: library True => reference consensus verifier valid; non-trivial = mutated spend the reference rejects",
        ),
        Engine(
            "sigfree",
            gen_sigfree,
            run_sigfree,
            kind="E1",
            chunk=4,
            rule="for 8 signed bases (P2PKH, P2SH 1of2/2of3, P2SH-P2WPKH, P2SH-P2WSH, P2WPKH, P2WSH, P2TR key path) the scriptSig is replaced by EVERY sequence over a 27-item alphabet (redeem script / witness program / public key push, multisig script push, OP_0, push 01, OP_1, NOP, DUP, DROP, IF, NOTIF, ELSE, ENDIF, RETURN, VERIFY, DEPTH, EQUAL, HASH160, TOALTSTACK, FROMALTSTACK, 2DROP, CLTV, CHECKSIG, CHECKMULTISIG, SWAP, IFDUP, SIZE, NOT) up to length 2 (thorough 3) and over a 13-item core up to length 3 (thorough 4), with the witness emptied and with it kept; oracle: library True => reference verifier (scriptSig and scriptPubKey evaluated separately, BIP16 push-only) valid; with the witness emptied the reference itself must reject every sequence",
        ),
    ]
