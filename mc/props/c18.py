"""C18 — BIP158 compact filters and BIP37 bloom filters: no false negatives, specified encoding.

All engines are E1 enumerations of the real code against mc.ref.filterref:

`siphash`   every message length 0..70 (+255..257, 511, 512, 600) x key alphabet (boundary keys, every single-bit
            key) x byte patterns, through `_siphash`, `SipHash_2_4(...).hash()/digest()`, every 2-way split of
            `update`, and the `(hash * F) >> 64` range mapping.
`murmur`    every message length 0..70 (+ a few longer) x seed alphabet (boundaries, every single-bit seed) x
            byte patterns incl. a hot byte at every position.
`golomb`    every x of the tier's range: `encode_golomb`/`pack_bits` bit exact, `unpack_bits`/`decode_golomb`
            inverts and consumes exactly the code.
`bitpack`   every bit string up to a length bound, patterns for every length up to 64 (and 65..80).
`gcsvalues` every delta tuple of length 0..3 over a boundary delta alphabet (incl. delta 0) through
            `serialize_gcs` / `decode_gcs` / `CompactFilter.parse(...).serialize()`.
`gcs`       element sets (size x script length x key), plus sets forced to contain two elements with the
            same mapped value: bytes, decode, membership of every inserted element via
            `CompactFilter.parse`, `CompactFilter(key, hashed_items)`, `CFilterMessage.parse`.
`headers`   `CFHeadersMessage` constructor/parse: last header equals the reference chain, every prefix.
`bloom`     size x function count x tweak x item sequences: bit field after every `add`, `filter_bytes`,
            `filterload` layout, every inserted item present under the BIP37 matching rule.
`bloomsize` every filter size of the tier's range: exactly the reference bit positions are set.
`elemlist`  element LISTS with repeated entries (BIP158 elements form a set: N counts distinct elements) and other
            container forms (tuple, set, frozenset, reversed, rotated) through `hashed_items` / `encode_gcs`.
`ctorforms` `CompactFilter(key, values)` for every permutation of small value tuples and unsorted element-derived lists.
`blockvec`  the six BIP158 test blocks through `Block.parse(...).get_outpoints()` + `encode_gcs` against the published
            filter / header; every `TxOut.script_pubkey` object present in the published filter.
`scriptobj` membership through library script objects (`Script.parse(raw=)`, stream parse, `ScriptPubKey.parse`,
            `Script(commands)`, typed ScriptPubKey classes) over non-minimal / truncated / boundary pushes and templates.
`sipseq`    every chunking of the `update()` stream from a step alphabet with `hash()` after every chunk, strides,
            `copy()`, two live objects.
`golombhi`  Golomb values from 2^26 up to 2000*M-1: windows around powers of two, N*M-1, every quotient boundary.
`gcssizes`  every set size 0..300 (thorough 0..600, 1998, 1999) through the `gcs` checks.
`bloomhist` bloom add-histories (repeats, long, bytearray items, two live filters) and murmur3 with unreduced seeds.
`msgforms`  `CFilterMessage` constructor (display-order block hash) and one header chain split over 2..3 messages.
"""
import itertools
from io import BytesIO

from mc.core import Engine, Res, attempt, Rejected, filler, H
from mc.ref import filterref as R

PROP = "C18"
M = R.BIP158_M
P = R.BIP158_P


# ---------------------------------------------------------------- alphabets
def named_keys(tier, seed):
    ks = [
        ("zero", bytes(16)),
        ("ff", b"\xff" * 16),
        ("inc", bytes(range(16))),
        ("ascii", b"0123456789ABCDEF"),
        ("k0-top", bytes(7) + b"\x80" + bytes(8)),
        ("k1-top", bytes(15) + b"\x80"),
        ("k0-ff", b"\xff" * 8 + bytes(8)),
        ("k1-ff", bytes(8) + b"\xff" * 8),
    ]
    nf = 4 if tier == "quick" else 12
    ks += [(f"filler{i}", filler(seed, "c18key", i, 16)) for i in range(nf)]
    return ks


def bit_keys():
    return [(f"bit{i}", (1 << i).to_bytes(16, "little")) for i in range(128)]


def pattern(name, n, seed):
    if name == "zeros":
        return bytes(n)
    if name == "ff":
        return b"\xff" * n
    if name == "inc":
        return bytes(i & 0xFF for i in range(n))
    if name == "x80":
        return b"\x80" * n
    if name == "filler":
        return filler(seed, "c18msg", n, n)
    raise ValueError(name)


PATTERNS = ["zeros", "ff", "inc", "x80", "filler"]
LENGTHS = list(range(0, 71))
LONG_LENGTHS = [255, 256, 257, 511, 512, 600]
RANGES = [1, 2, M, 2 * M, 3 * M, 100 * M, 2000 * M, 2**32 - 1, 2**32, 2**64 - 1]


def viol(res, engine, case, cls, observed, expected, what):
    res.violation(f"{PROP}/{engine}/{cls}", {"engine": engine, "case": case}, observed, expected, what)


def hx(x):
    if isinstance(x, Rejected):
        return repr(x)
    if isinstance(x, (bytes, bytearray)):
        return bytes(x).hex()[:160]
    return x


def len_class(n):
    """tail length and block count class of a message length (fingerprint component)"""
    return f"len%8={n % 8}" + ("/len>=256" if n >= 256 else "")


# ---------------------------------------------------------------- siphash
def gen_siphash(tier, seed):
    cases = []
    keys = named_keys(tier, seed) + bit_keys()
    if tier == "thorough":
        keys += [(f"nbit{i}", (((1 << 128) - 1) ^ (1 << i)).to_bytes(16, "little")) for i in range(128)]
    split_max = 24 if tier == "quick" else 70
    for kn, k in keys:
        for p in PATTERNS:
            cases.append({"key": k.hex(), "kn": kn, "pat": p, "seed": seed, "split_max": split_max, "split3_max": 0 if tier == "quick" else 17})
    # a hot byte at every position of every length, boundary keys only
    for kn, k in named_keys(tier, seed)[:4] if tier == "quick" else named_keys(tier, seed):
        for hot in (0xFF, 0x01, 0x80):
            cases.append({"key": k.hex(), "kn": kn, "pat": f"hot{hot}", "seed": seed, "split_max": -1, "split3_max": 0})
    return cases


def run_siphash(case):
    from buidl.compactfilter import _siphash, hash_to_range
    from buidl.siphash import SipHash_2_4

    res = Res()
    key = bytes.fromhex(case["key"])
    seed = case["seed"]
    pat = case["pat"]
    if pat.startswith("hot"):
        hot = int(pat[3:])
        msgs = []
        for n in LENGTHS[1:]:
            for pos in range(n):
                m = bytearray(n)
                m[pos] = hot
                msgs.append(bytes(m))
    else:
        msgs = [pattern(pat, n, seed) for n in LENGTHS + LONG_LENGTHS]
    n_ok = 0
    for msg in msgs:
        want = R.siphash24(key, msg)
        n = len(msg)
        got = attempt(_siphash, key, msg)
        if got != want:
            viol(res, "siphash", case, f"_siphash/{len_class(n)}", hx(got), want, f"_siphash differs from SipHash-2-4 (len {n})")
            continue
        got = attempt(lambda: SipHash_2_4(key, msg).hash())
        if got != want:
            viol(res, "siphash", case, f"ctor-hash/{len_class(n)}", hx(got), want, f"SipHash_2_4(key, msg).hash() differs (len {n})")
            continue
        got = attempt(lambda: SipHash_2_4(key, msg).digest())
        if got != want.to_bytes(8, "little"):
            viol(res, "siphash", case, f"digest/{len_class(n)}", hx(got), want.to_bytes(8, "little").hex(), f"digest() is not the little-endian hash (len {n})")
            continue
        n_ok += 3
        # every 2-way split of the message through update()
        if n <= case["split_max"]:
            for a in range(n + 1):
                got = attempt(lambda: SipHash_2_4(key).update(msg[:a]).update(msg[a:]).hash())
                if got != want:
                    viol(res, "siphash", case, f"split/first-update={'<8' if a < 8 else '>=8'}-bytes", hx(got), want, f"update({a} bytes).update({n - a} bytes) differs from one-shot hash")
                else:
                    n_ok += 1
        if n <= case["split3_max"]:
            for a in range(n + 1):
                for b in range(a, n + 1):
                    got = attempt(lambda: SipHash_2_4(key, msg[:a]).update(msg[a:b]).update(msg[b:]).hash())
                    if got != want:
                        viol(res, "siphash", case, f"split3/{len_class(n)}", hx(got), want, f"3-way split {a},{b} of {n} bytes differs")
                    else:
                        n_ok += 1
        # range mapping
        if n in (0, 1, 7, 8, 25, 70, 600):
            for f in RANGES:
                got = attempt(hash_to_range, key, msg, f)
                exp = (want * f) >> 64
                if got != exp:
                    viol(res, "siphash", case, f"hash_to_range/F={f}", hx(got), exp, "hash_to_range is not (siphash * F) >> 64")
                else:
                    n_ok += 1
    res.bulk("siphash==ref", n_ok, n_ok)
    if not res.samples:
        res.samples.append({"key": case["kn"], "pat": pat, "messages": len(msgs)})
    return res


# ---------------------------------------------------------------- murmur3
def seed_alphabet(tier, seed):
    s = [0, 1, 2, 0x7FFFFFFF, 0x80000000, 0xFFFFFFFE, 0xFFFFFFFF, R.BIP37_MUL, (2 * R.BIP37_MUL) & R.M32, (49 * R.BIP37_MUL + 0xFFFFFFFF) & R.M32]
    s += [1 << i for i in range(32)]
    nf = 4 if tier == "quick" else 32
    s += [int.from_bytes(filler(seed, "c18seed", i, 4), "big") for i in range(nf)]
    if tier == "thorough":
        s += [R.M32 ^ (1 << i) for i in range(32)]
    out = []
    for x in s:
        if x not in out:
            out.append(x)
    return out


def gen_murmur(tier, seed):
    cases = []
    for s in seed_alphabet(tier, seed):
        for p in PATTERNS + ["hot255", "hot128", "hot1"]:
            cases.append({"mseed": s, "pat": p, "seed": seed})
    return cases


def run_murmur(case):
    from buidl.helper import murmur3

    res = Res()
    s = case["mseed"]
    pat = case["pat"]
    if pat.startswith("hot"):
        hot = int(pat[3:])
        msgs = []
        for n in LENGTHS[1:]:
            for pos in range(n):
                m = bytearray(n)
                m[pos] = hot
                msgs.append(bytes(m))
    else:
        msgs = [pattern(pat, n, case["seed"]) for n in LENGTHS + LONG_LENGTHS]
    n_ok = 0
    for msg in msgs:
        want = R.murmur3_32(msg, s)
        got = attempt(murmur3, msg, seed=s)
        if got != want:
            n = len(msg)
            viol(res, "murmur", case, f"len%4={n % 4}/blocks={'0' if n < 4 else '1+'}", hx(got), want, f"murmur3 differs from MurmurHash3_x86_32 (len {n}, seed {s:#x})")
        else:
            n_ok += 1
    if s == 0 and pat == "zeros":
        got = attempt(murmur3, b"")
        if got != R.murmur3_32(b"", 0):
            viol(res, "murmur", case, "default-seed", hx(got), 0, "murmur3 default seed is not 0")
        else:
            n_ok += 1
    res.bulk("murmur3==ref", n_ok, n_ok)
    if not res.samples:
        res.samples.append({"seed": s, "pat": pat, "messages": len(msgs)})
    return res


# ---------------------------------------------------------------- golomb
GCHUNK = 1 << 14


def gen_golomb(tier, seed):
    cases = []
    top = 1 << 26
    if tier == "thorough":
        for lo in range(0, top, GCHUNK):
            cases.append({"lo": lo, "hi": lo + GCHUNK})
    else:
        for lo in range(0, 1 << 21, GCHUNK):
            cases.append({"lo": lo, "hi": lo + GCHUNK})
        # windows around every quotient boundary above 2^21 and the top of the range
        for q in range(5, 129):
            b = q << 19
            cases.append({"lo": b - 64, "hi": min(b + 64, top)})
        cases.append({"lo": top - GCHUNK, "hi": top})
    return cases


def run_golomb(case):
    from buidl.compactfilter import encode_golomb, decode_golomb, pack_bits, unpack_bits

    res = Res()
    n_ok = 0
    bad = 0

    def fast(x, ref):
        bits = encode_golomb(x, P)
        n = len(bits)
        packed = pack_bits(bits)
        ub = unpack_bits(ref)
        y = decode_golomb(ub, P)
        return n, packed, y, len(ub)

    # the code of a value must not change because it was packed before (a shared/memoised list padded in place)
    probe = [case["lo"], case["lo"] + 1, case["hi"] - 1]
    for x in probe:
        first = attempt(lambda: list(encode_golomb(x, P)))
        attempt(lambda: pack_bits(encode_golomb(x, P)))
        second = attempt(lambda: list(encode_golomb(x, P)))
        if first != second:
            viol(res, "golomb", case, "encode-changes-after-pack_bits", hx(second) if isinstance(second, Rejected) else len(second), len(first) if not isinstance(first, Rejected) else "?", f"encode_golomb({x}) returns a different code after pack_bits was applied to an earlier result")
            break

    for x in range(case["lo"], case["hi"]):
        ref = R.golomb_bytes(x, P)
        nbits = (x >> P) + 1 + P
        # fast path: the whole round trip in one call; any deviation is classified step by step below
        try:
            if fast(x, ref) == (nbits, ref, x, len(ref) * 8 - nbits):
                n_ok += 1
                continue
        except Exception:  # noqa
            pass
        qc = f"q={x >> P}" if (x >> P) < 3 else "q>=3"
        bits = attempt(encode_golomb, x, P)
        if isinstance(bits, Rejected) or len(bits) != nbits:
            bad += 1
            if bad < 5:
                viol(res, "golomb", case, f"encode-length/{qc}", hx(bits) if isinstance(bits, Rejected) else len(bits), nbits, f"encode_golomb({x}) has the wrong number of bits")
            continue
        packed = attempt(pack_bits, bits)
        if packed != ref:
            bad += 1
            if bad < 5:
                viol(res, "golomb", case, f"encode-bits/{qc}", hx(packed), ref.hex(), f"pack_bits(encode_golomb({x}, 19)) differs from the BIP158 code")
            continue
        ub = attempt(unpack_bits, ref)
        y = attempt(decode_golomb, ub, P) if not isinstance(ub, Rejected) else ub
        if y != x:
            bad += 1
            if bad < 5:
                viol(res, "golomb", case, f"decode/{qc}", hx(y), x, f"decode_golomb does not invert the code of {x}")
            continue
        if len(ub) != len(ref) * 8 - nbits:
            bad += 1
            if bad < 5:
                viol(res, "golomb", case, f"decode-consumed/{qc}", len(ref) * 8 - len(ub), nbits, f"decode_golomb consumed the wrong number of bits for {x}")
            continue
        n_ok += 1
    if bad >= 5:
        res.bulk("VIOLATION", bad - 4)
        res.n_violations += bad - 4
    res.bulk("golomb encode==ref, decode inverts", n_ok, n_ok)
    if case["lo"] % (1 << 19) == 0:
        res.samples.append({"range": [case["lo"], case["hi"]]})
    return res


# ---------------------------------------------------------------- bit packing
def gen_bitpack(tier, seed):
    full = 12 if tier == "quick" else 16
    cases = [{"kind": "all", "len": n} for n in range(0, full + 1)]
    cases += [{"kind": "patterns", "len": n} for n in range(0, 81)]
    cases += [{"kind": "unpack1"}]
    cases += [{"kind": "unpack2", "hi": h} for h in (range(256) if tier == "thorough" else (0, 1, 0x7F, 0x80, 0xFF))]
    return cases


def run_bitpack(case):
    from buidl.compactfilter import pack_bits, unpack_bits

    res = Res()
    n_ok = 0

    def check(bits):
        nonlocal n_ok
        n = len(bits)
        want = R.pack(bits)
        arg = list(bits)
        got = attempt(pack_bits, arg)
        if got != want:
            viol(res, "bitpack", case, f"pack/len%8={n % 8}", hx(got), want.hex(), f"pack_bits of {n} bits differs from MSB-first packing")
            return
        back = attempt(unpack_bits, want)
        if isinstance(back, Rejected) or list(back) != bits + [0] * (-n % 8):
            viol(res, "bitpack", case, f"unpack/len%8={n % 8}", hx(back), bits, f"unpack_bits(pack_bits(b)) is not b plus zero padding ({n} bits)")
            return
        n_ok += 1

    k = case["kind"]
    if k == "all":
        n = case["len"]
        for v in range(1 << n):
            check([(v >> (n - 1 - i)) & 1 for i in range(n)])
    elif k == "patterns":
        n = case["len"]
        pats = [[0] * n, [1] * n, [i & 1 for i in range(n)], [(i + 1) & 1 for i in range(n)]]
        for pos in range(n):
            a = [0] * n
            a[pos] = 1
            b = [1] * n
            b[pos] = 0
            pats += [a, b]
        # booleans instead of ints (encode_golomb emits booleans for the remainder bits)
        pats += [[bool(i % 3 == 0) for i in range(n)]]
        for bits in pats:
            check([int(b) for b in bits])
        got = attempt(pack_bits, [bool(i % 3 == 0) for i in range(n)])
        want = R.pack([int(i % 3 == 0) for i in range(n)])
        if got != want:
            viol(res, "bitpack", case, "pack/bool", hx(got), want.hex(), "pack_bits of boolean bits differs")
        else:
            n_ok += 1
    elif k == "unpack1":
        for b in range(256):
            got = attempt(unpack_bits, bytes([b]))
            if isinstance(got, Rejected) or list(got) != R.unpack(bytes([b])):
                viol(res, "bitpack", case, "unpack/byte", hx(got), R.unpack(bytes([b])), f"unpack_bits of byte {b:#x}")
            else:
                n_ok += 1
    else:
        h = case["hi"]
        for lo in range(256):
            d = bytes([h, lo, h ^ lo])
            got = attempt(unpack_bits, d)
            if isinstance(got, Rejected) or list(got) != R.unpack(d):
                viol(res, "bitpack", case, "unpack/bytes", hx(got), R.unpack(d), f"unpack_bits of {d.hex()}")
            else:
                n_ok += 1
    res.bulk("pack/unpack==ref", n_ok, n_ok)
    return res


# ---------------------------------------------------------------- value lists <-> GCS bytes
DELTAS = [0, 1, 2, (1 << 19) - 1, 1 << 19, (1 << 19) + 1, (1 << 20) - 1, 1 << 20, 1 << 25, (1 << 26) - 1]


def gen_gcsvalues(tier, seed):
    cases = [{"deltas": []}]
    alpha = DELTAS
    maxlen = 3 if tier == "quick" else 4
    for n in range(1, maxlen + 1):
        for t in itertools.product(alpha, repeat=n):
            cases.append({"deltas": list(t)})
    # deltas of 2^26 and above, up to the largest value of a 2000-element filter (N*M - 1)
    for n in range(1, 4):
        for t in itertools.product(HI_DELTAS, repeat=n):
            if max(t) >= 1 << 26:  # DELTAS stays below 2^26: no tuple is enumerated twice
                cases.append({"deltas": list(t)})
    # long runs (count boundaries of the CompactSize prefix), strictly increasing values
    for n in (252, 253, 254, 1000):
        cases.append({"deltas": [1 + (i * 7919) % 3000000 for i in range(n)]})
    return cases


def run_gcsvalues(case):
    from buidl.compactfilter import serialize_gcs, decode_gcs, CompactFilter

    res = Res()
    key = bytes(16)
    vals = list(itertools.accumulate(case["deltas"]))
    dup = len(set(vals)) < len(vals)
    cls = "duplicate-values" if dup else "distinct-values"
    nt = tuple(case["deltas"]) if vals else None
    want = R.gcs_from_values(vals)
    assert R.gcs_values(want) == vals
    got = attempt(serialize_gcs, list(vals))
    if got != want:
        viol(res, "gcsvalues", case, f"serialize_gcs/n={min(len(vals), 4)}", hx(got), want.hex(), "serialize_gcs differs from the BIP158 encoding of the value list")
    else:
        res.ok("serialize_gcs==ref", nt)
    back = attempt(decode_gcs, key, want)
    if isinstance(back, Rejected) or list(back) != vals:
        viol(res, "gcsvalues", case, f"decode_gcs/n={min(len(vals), 4)}", hx(back) if isinstance(back, Rejected) else list(back)[:8], vals[:8], "decode_gcs does not invert the encoding")
    else:
        res.ok("decode_gcs inverts")
    cf = attempt(CompactFilter.parse, key, want)
    rs = attempt(cf.serialize) if not isinstance(cf, Rejected) else cf
    if rs != want:
        viol(res, "gcsvalues", case, f"reserialize/{cls}", hx(rs), want.hex(), "CompactFilter.parse(b).serialize() != b")
    else:
        res.ok("parse->serialize identity", sample={"deltas": case["deltas"]} if len(vals) == 3 else None)
    return res


# ---------------------------------------------------------------- filters from element sets
class RawScript:
    """Carrier for arbitrary script bytes: CompactFilter.__contains__ only calls raw_serialize()."""

    def __init__(self, raw):
        self.raw = raw

    def raw_serialize(self):
        return self.raw


def p2pkh_item(seed, j):
    return b"\x76\xa9\x14" + H("c18el", seed, j)[:20] + b"\x88\xac"


def make_elements(seed, n, L):
    """n distinct elements of script length L (or the named length mix)."""
    if L == "mixed":
        out = []
        for j in range(n):
            if j == 0:
                out.append(b"")
            elif j == 1:
                out.append(b"\x00")
            elif j == 2:
                out.append(b"\x6a")
            else:
                ln = 2 + (j * 37) % 599
                out.append(j.to_bytes(2, "big") + filler(seed, "c18el", j, ln - 2))
        return out
    if L == 0:
        assert n <= 1
        return [b""] * n
    if L == 1:
        assert n <= 256
        return [bytes([(j * 77 + 81) & 0xFF]) for j in range(n)]  # 77 is odd: a permutation of the byte values
    if L == 25:
        return [p2pkh_item(seed, j) for j in range(n)]
    if L == 22:
        return [b"\x00\x14" + H("c18el22", seed, j)[:20] for j in range(n)]
    if L == 34:
        return [b"\x51\x20" + H("c18el34", seed, j) for j in range(n)]
    return [j.to_bytes(2, "big") + filler(seed, "c18el", j, L - 2) for j in range(n)]


def feasible(n, L):
    if L == 0:
        return n <= 1
    if L == 1:
        return n <= 256
    return True


def gen_gcs(tier, seed):
    cases = []
    if tier == "quick":
        keys = named_keys(tier, seed)[:3] + named_keys(tier, seed)[8:10]
        sizes = [0, 1, 2, 3, 100, 252, 253, 2000]
        lens = [0, 1, 25, 600, "mixed"]
        csizes = [2, 3, 100, 253, 2000]
        ckeys = keys
    else:
        keys = named_keys(tier, seed)
        sizes = [0, 1, 2, 3, 4, 10, 100, 252, 253, 254, 1000, 2000]
        lens = [0, 1, 2, 22, 25, 34, 75, 76, 255, 256, 600, "mixed"]
        csizes = [2, 3, 4, 10, 100, 252, 253, 1000, 2000]
        ckeys = keys
    for kn, k in keys:
        for n in sizes:
            for L in lens:
                if tier == "quick" and n == 2000 and L == 600 and kn not in ("zero", "filler0"):
                    continue
                if feasible(n, L) and not (n == 0 and L != 0):
                    cases.append({"key": k.hex(), "kn": kn, "n": n, "L": L, "collide": False, "seed": seed})
    for kn, k in ckeys:
        for n in csizes:
            cases.append({"key": k.hex(), "kn": kn, "n": n, "L": 25, "collide": True, "seed": seed})
    # every single-bit key with small sets
    for kn, k in bit_keys():
        for n, L in ((1, 25), (3, "mixed")) if tier == "quick" else ((1, 25), (3, "mixed"), (2, 600), (100, 25)):
            cases.append({"key": k.hex(), "kn": kn, "n": n, "L": L, "collide": False, "seed": seed})
    # heavy cases first so that the pool tail is short
    cases.sort(key=lambda c: -(c["n"] * (c["L"] if isinstance(c["L"], int) else 300)))
    return cases


def real_script(raw):
    """A genuine buidl Script for P2PKH-shaped elements, or None."""
    from buidl.script import Script

    if len(raw) == 25 and raw[:3] == b"\x76\xa9\x14" and raw[23:] == b"\x88\xac":
        s = attempt(lambda: Script([0x76, 0xA9, raw[3:23], 0x88, 0xAC]))
        if not isinstance(s, Rejected) and attempt(s.raw_serialize) == raw:
            return s
    return None


def run_gcs(case):
    from buidl.compactfilter import hashed_items, encode_gcs, decode_gcs, CompactFilter, CFilterMessage

    res = Res()
    key = bytes.fromhex(case["key"])
    n, L, seed = case["n"], case["L"], case["seed"]
    if case["collide"]:
        i, j, v = R.find_collision(key, n, lambda t: p2pkh_item(seed, t))
        rest = [t for t in range(n + 2) if t not in (i, j)][: n - 2]
        idx = sorted(rest + [i, j])
        els = [p2pkh_item(seed, t) for t in idx]
        res.notes["collision_search_items"] = j + 1
    else:
        els = make_elements(seed, n, L)
    assert len(set(els)) == n == len(els)
    vals = R.hashed_set(key, els)
    ref = R.gcs_from_values(vals)
    assert R.gcs_values(ref) == vals
    dup = len(set(vals)) < len(vals)
    assert dup or not case["collide"]
    cls = "value-collision" if dup else "distinct-values"
    nt = (case["kn"], n, L, case["collide"])
    smp = {"key": case["kn"], "n": n, "L": L, "collision": dup, "filter_len": len(ref)}

    got = attempt(hashed_items, key, list(els))
    if isinstance(got, Rejected) or list(got) != vals:
        viol(res, "gcs", case, f"hashed_items/{cls}", hx(got) if isinstance(got, Rejected) else list(got)[:6], vals[:6], "hashed_items differs from the sorted SipHash range mapping over F = N*M")
    else:
        res.ok("hashed_items==ref", nt)
    enc = attempt(encode_gcs, key, list(els))
    if enc != ref:
        viol(res, "gcs", case, f"encode_gcs/{cls}", hx(enc), ref.hex()[:160], "encode_gcs differs from the BIP158 filter bytes")
    else:
        res.ok("encode_gcs==ref", nt, sample=smp if n in (3, 100) else None)
    dec = attempt(decode_gcs, key, ref)
    if isinstance(dec, Rejected) or list(dec) != vals:
        viol(res, "gcs", case, f"decode_gcs/{cls}", hx(dec) if isinstance(dec, Rejected) else list(dec)[:6], vals[:6], "decode_gcs does not invert encode_gcs")
    else:
        res.ok("decode_gcs inverts", nt)

    def members(name, contains, nonempty_only=False):
        """every inserted element must be reported present"""
        missing = 0
        first = None
        err = None
        for e in els:
            r = attempt(contains, e)
            if r is not True:
                missing += 1
                if first is None:
                    first = e
                    err = r
        if missing:
            viol(
                res,
                "gcs",
                case,
                f"false-negative/{cls}" if dup else f"false-negative/{name}/{cls}",
                {"missing": missing, "of": len(els), "first_missing": first.hex()[:80], "returned": repr(err)},
                "every inserted element is reported present",
                f"{name}: inserted elements are not reported present ({missing} of {len(els)})",
            )
        else:
            res.ok(f"members present via {name}", nt if els else None, n=max(1, len(els)))

    cf = attempt(CompactFilter.parse, key, ref)
    if isinstance(cf, Rejected):
        viol(res, "gcs", case, f"parse-rejected/{cls}", repr(cf), "parses", "CompactFilter.parse rejects a BIP158 filter")
    else:
        members("CompactFilter.parse", lambda e: RawScript(e) in cf)
        members("compute_hash", lambda e: cf.compute_hash(e) in cf.hashes)
        if L == 25:
            scripts = {e: real_script(e) for e in els}
            if all(s is not None for s in scripts.values()):
                members("CompactFilter.parse+Script", lambda e: scripts[e] in cf)
            else:
                res.skip("Script([..]).raw_serialize() does not reproduce the P2PKH bytes (C04's subject)")
        rs = attempt(cf.serialize)
        if rs != ref:
            viol(res, "gcs", case, f"reserialize/{cls}", hx(rs), ref.hex()[:160], "CompactFilter.parse(b).serialize() != b")
        else:
            res.ok("parse->serialize identity", nt)
        fh = attempt(cf.hash)
        if fh != R.filter_hash(ref):
            viol(res, "gcs", case, f"reserialize/{cls}" if dup else f"filter-hash/{cls}", hx(fh), R.filter_hash(ref).hex(), "CompactFilter.hash() is not the double-SHA256 of the filter bytes")
        else:
            res.ok("filter hash==ref")
    # direct construction from the hashed items
    cf2 = attempt(lambda: CompactFilter(key, hashed_items(key, list(els))))
    if isinstance(cf2, Rejected):
        viol(res, "gcs", case, f"construct-rejected/{cls}", repr(cf2), "constructs", "CompactFilter(key, hashed_items(...)) raises")
    else:
        members("CompactFilter(key, hashed_items)", lambda e: RawScript(e) in cf2)
        rs = attempt(cf2.serialize)
        if rs != ref:
            viol(res, "gcs", case, f"reserialize/{cls}" if dup else f"construct-serialize/{cls}", hx(rs), ref.hex()[:160], "CompactFilter(key, hashed_items(...)).serialize() differs from the BIP158 filter bytes")
        else:
            res.ok("construct->serialize==ref")
    # the network path: key = first 16 bytes of the block hash in wire order
    wire_hash = key + filler(seed, "c18blk", 0, 16)
    payload = b"\x00" + wire_hash + R.compact_size(len(ref)) + ref
    msg = attempt(CFilterMessage.parse, BytesIO(payload))
    if isinstance(msg, Rejected):
        viol(res, "gcs", case, f"cfilter-parse-rejected/{cls}", repr(msg), "parses", "CFilterMessage.parse rejects a well-formed cfilter payload")
    else:
        members("CFilterMessage.parse", lambda e: RawScript(e) in msg)
        obs = attempt(lambda: (msg.filter_type, msg.block_hash, msg.filter_bytes, msg.hash()))
        exp = (0, wire_hash[::-1], ref, R.filter_hash(ref))
        if obs != exp:
            viol(res, "gcs", case, "cfilter-fields", hx(obs) if isinstance(obs, Rejected) else [hx(x) for x in obs], [hx(x) for x in exp], "CFilterMessage fields / hash differ from the payload")
        else:
            res.ok("cfilter fields==ref")
    return res


# ---------------------------------------------------------------- filter headers
def gen_headers(tier, seed):
    cases = []
    lens = [0, 1, 2, 3, 4, 5, 100, 2000] if tier == "quick" else [0, 1, 2, 3, 4, 5, 6, 7, 8, 100, 252, 253, 1999, 2000]
    for n in lens:
        for prev in ("zero", "ff", "filler"):
            for hs in ("filler", "same", "equal-prev", "palindrome"):
                for via in ("ctor", "parse"):
                    cases.append({"n": n, "prev": prev, "hashes": hs, "via": via, "seed": seed})
    for i in range(len(R.BIP158_VECTORS)):
        cases.append({"vector": i, "seed": seed})
    return cases


def run_headers(case):
    from buidl.compactfilter import CFHeadersMessage, CompactFilter, encode_gcs

    res = Res()
    seed = case["seed"]
    if "vector" in case:
        # end to end on a real block: library-built filter -> library hash -> library chaining
        height, bhash, blk, prev_scripts, prev_header, want_filter, want_header = R.BIP158_VECTORS[case["vector"]]
        raw = bytes.fromhex("".join(blk))
        key = R.key_from_block_hash_wire(R.dsha(raw[:80]))
        els = set(s for s in R._block_output_scripts(raw) if s and s[0] != 0x6A) | set(bytes.fromhex(s) for s in prev_scripts if s)
        els = sorted(els)
        ref = R.gcs_build(key, els)
        prev = bytes.fromhex(prev_header)[::-1]
        exp = R.filter_header(R.filter_hash(ref), prev)

        def e2e():
            b = encode_gcs(key, list(els))
            fh = CompactFilter.parse(key, b).hash()
            return CFHeadersMessage(0, bytes.fromhex(bhash), prev, [fh]).last_header

        got = attempt(e2e)
        if got != exp:
            viol(res, "headers", case, "end-to-end", hx(got), exp.hex(), f"filter header of block {height} built through the library differs from BIP157")
        else:
            res.ok("end-to-end header==ref", ("vector", height), sample={"height": height, "header": exp[::-1].hex()})
        return res
    n = case["n"]
    prev = {"zero": bytes(32), "ff": b"\xff" * 32, "filler": filler(seed, "c18prev", 0, 32)}[case["prev"]]
    if case["hashes"] == "filler":
        hs = [filler(seed, "c18fh", i, 32) for i in range(n)]
    elif case["hashes"] == "same":
        hs = [filler(seed, "c18fh", 0, 32)] * n
    elif case["hashes"] == "equal-prev":
        hs = [prev] * n
    else:
        hs = [filler(seed, "c18pal", i, 16) + filler(seed, "c18pal", i, 16)[::-1] for i in range(n)]
    chain = R.header_chain(prev, hs)
    stop = filler(seed, "c18stop", 0, 32)
    n_pref = 0
    for k in sorted(set(list(range(0, min(n, 8) + 1)) + [n])):
        want = chain[k - 1] if k else prev
        if case["via"] == "ctor":
            m = attempt(CFHeadersMessage, 0, stop, prev, list(hs[:k]))
        else:
            payload = b"\x00" + stop[::-1] + prev + R.compact_size(k) + b"".join(hs[:k])
            m = attempt(CFHeadersMessage.parse, BytesIO(payload))
        got = attempt(lambda: m.last_header) if not isinstance(m, Rejected) else m
        if got != want:
            viol(res, "headers", case, f"{case['via']}/n={'0' if k == 0 else '1' if k == 1 else '2+'}", hx(got), want.hex(), f"last_header after {k} filter hashes is not the BIP157 chain dSHA256(filter_hash || prev)")
        else:
            n_pref += 1
            if case["via"] == "parse":
                f = attempt(lambda: (m.filter_type, m.stop_hash, m.previous_filter_header, list(m.filter_hashes)))
                if f != (0, stop, prev, hs[:k]):
                    viol(res, "headers", case, "parse-fields", hx(f), "fields of the payload", "CFHeadersMessage.parse fields differ from the payload")
    if n_pref:
        res.ok("last_header==ref chain", (n, case["prev"], case["hashes"], case["via"]) if n else None, n=n_pref, sample={"n": n, "via": case["via"]} if n == 3 else None)
    return res


# ---------------------------------------------------------------- bloom
def bloom_items(kind, seed):
    if kind == "lens":
        return [pattern("filler", n, seed) for n in LENGTHS]
    if kind == "small":
        return [H("c18bi", seed, 0)[:20], H("c18bi", seed, 1), H("c18bi", seed, 2) + b"\x01\x00\x00\x00"]
    if kind == "edge":
        return [b"", b"\x00", b"\xff\xff\xff\xff", b"\x80" * 7, bytes(70)]
    if kind == "none":
        return []
    raise ValueError(kind)


def tweak_alphabet(tier, seed):
    t = [0, 1, 0x7FFFFFFF, 0x80000000, 0xFFFFFFFF, 99, int.from_bytes(filler(seed, "c18tweak", 0, 4), "big")]
    if tier == "thorough":
        t += [1 << i for i in range(1, 31)]
        t += [(-(i * R.BIP37_MUL)) & R.M32 for i in (1, 2, 49)]  # seeds wrapping to exactly 0
        t += [int.from_bytes(filler(seed, "c18tweak", i, 4), "big") for i in range(1, 6)]
    out = []
    for x in t:
        if x not in out:
            out.append(x)
    return out


def gen_bloom(tier, seed):
    cases = []
    tw = tweak_alphabet(tier, seed)
    if tier == "quick":
        combos = [(s, f) for s in (1, 2, 7, 8, 252, 253, 36000) for f in (1, 2, 50)]
        kinds = ["lens", "small", "edge", "none"]
    else:
        combos = [(s, f) for s in (1, 8, 253) for f in range(1, 51)]
        combos += [(s, f) for s in (2, 3, 7, 9, 252, 255, 256, 257) for f in (1, 2, 3, 10, 49, 50)]
        combos += [(s, f) for s in (1000, 4096, 35999, 36000) for f in (1, 2, 3, 49, 50)]
        kinds = ["lens", "small", "edge", "none"]
    for s, f in combos:
        for t in tw:
            for k in kinds:
                if k == "none" and (f not in (1, 50) or t not in (0, 0xFFFFFFFF)):
                    continue
                cases.append({"size": s, "nf": f, "tweak": t, "items": k, "seed": seed})
    cases.sort(key=lambda c: -c["size"])
    return cases


def run_bloom(case):
    from buidl.bloomfilter import BloomFilter

    res = Res()
    size, nf, tweak = case["size"], case["nf"], case["tweak"]
    items = bloom_items(case["items"], case["seed"])
    nt = (size, nf, tweak, case["items"])
    bf = attempt(BloomFilter, size, nf, tweak)
    if isinstance(bf, Rejected):
        viol(res, "bloom", case, "construct", repr(bf), "constructs", "BloomFilter(size, function_count, tweak) raises")
        return res
    vd = bytearray(size)
    step_check = size <= 256
    bad = False
    for it in items:
        r = attempt(bf.add, it)
        R.bloom_insert(vd, it, nf, tweak)
        if isinstance(r, Rejected):
            viol(res, "bloom", case, f"add-raises/len%4={len(it) % 4}", repr(r), "item added", f"BloomFilter.add raises for a {len(it)}-byte item")
            bad = True
            break
        if step_check:
            fb = attempt(bf.filter_bytes)
            if fb != bytes(vd):
                viol(res, "bloom", case, f"bits-after-add/len%4={len(it) % 4}", hx(fb), bytes(vd).hex()[:160], f"bit field after adding a {len(it)}-byte item differs from BIP37 (murmur3 seed i*0xFBA4C795+tweak, modulo size*8)")
                bad = True
                break
            res.ok("bits after add==ref")
            # filterload in between the adds: a later filterload must show the items added since
            msg = attempt(bf.filterload)
            want = R.filterload_payload(vd, nf, tweak, 1)
            if isinstance(msg, Rejected) or attempt(lambda: msg.payload) != want:
                viol(res, "bloom", case, "filterload-between-adds", hx(msg) if isinstance(msg, Rejected) else hx(attempt(lambda: msg.payload)), want.hex()[-40:], "filterload() issued between add() calls does not carry the current bit field")
                bad = True
                break
    if bad:
        return res
    fb = attempt(bf.filter_bytes)
    if fb != bytes(vd):
        viol(res, "bloom", case, "filter_bytes", hx(fb), bytes(vd).hex()[:160], "filter_bytes() differs from the BIP37 bit field (bit i at byte i>>3, mask 1<<(i&7))")
        return res
    res.ok("filter_bytes==ref", nt, sample={"size": size, "nf": nf, "tweak": tweak, "items": len(items)} if size == 7 and nf == 2 else None)
    # every inserted item is present under the BIP37 matching rule evaluated on the library's bytes
    missing = [it for it in items if not R.bloom_contains(fb, it, nf, tweak)]
    if missing:
        viol(res, "bloom", case, "false-negative", {"missing": len(missing), "first": missing[0].hex()}, "all inserted items match", "an inserted item does not match the serialized filter")
    elif items:
        res.ok("members present", n=len(items))
    for flag in (0, 1, 2):
        msg = attempt(bf.filterload, flag)
        obs = attempt(lambda: (msg.command, msg.payload, msg.serialize())) if not isinstance(msg, Rejected) else msg
        want = R.filterload_payload(vd, nf, tweak, flag)
        if obs != (b"filterload", want, want):
            viol(res, "bloom", case, "filterload", hx(obs) if isinstance(obs, Rejected) else [hx(x) for x in obs], want.hex()[-40:], "filterload message differs from varint(size) || bits || nHashFuncs LE32 || nTweak LE32 || nFlags")
        else:
            res.ok("filterload==ref")
    msg = attempt(bf.filterload)
    want = R.filterload_payload(vd, nf, tweak, 1)
    if isinstance(msg, Rejected) or attempt(lambda: msg.payload) != want:
        viol(res, "bloom", case, "filterload-default-flag", hx(msg), want.hex()[-40:], "filterload() default flag is not BLOOM_UPDATE_ALL (1)")
    else:
        res.ok("filterload default==ref")
    # one more item after filterload was used: the next filterload / filter_bytes must include it
    extra = b"added-after-filterload:" + bytes([size % 256, nf % 256])
    r = attempt(bf.add, extra)
    R.bloom_insert(vd, extra, nf, tweak)
    msg = attempt(bf.filterload)
    want = R.filterload_payload(vd, nf, tweak, 1)
    if isinstance(r, Rejected) or isinstance(msg, Rejected) or attempt(lambda: msg.payload) != want or attempt(bf.filter_bytes) != bytes(vd):
        viol(res, "bloom", case, "stale-after-filterload", hx(msg) if isinstance(msg, Rejected) else hx(attempt(lambda: msg.payload))[-40:], want.hex()[-40:], "an item added after filterload() is missing from the next filterload() / filter_bytes()")
    else:
        res.ok("add after filterload visible")
    return res


BS_CHUNK = 16


def gen_bloomsize(tier, seed):
    if tier == "quick":
        sizes = list(range(1, 2049)) + list(range(35745, 36001))
    else:
        sizes = list(range(1, 36001))
    cases = []
    for i in range(0, len(sizes), BS_CHUNK):
        cases.append({"sizes": sizes[i : i + BS_CHUNK], "seed": seed})
    return cases


def run_bloomsize(case):
    from buidl.bloomfilter import BloomFilter

    res = Res()
    seed = case["seed"]
    items = [H("c18bs", seed, 0)[:20], H("c18bs", seed, 1)]
    n_ok = 0
    for size in case["sizes"]:
        for nf, tweak in ((3, 0), (11, 0xFFFFFFFF)) if size <= 4096 or size >= 35745 else ((3 + size % 5, (size * 0x01000193) & 0xFFFFFFFF),):
            want = set()
            for it in items:
                want.update(R.bloom_positions(it, size, nf, tweak))

            def go():
                bf = BloomFilter(size, nf, tweak)
                for it in items:
                    bf.add(it)
                return bf.bit_field

            field = attempt(go)
            okay = (
                not isinstance(field, Rejected)
                and len(field) == size * 8
                and field.count(1) == len(want)
                and field.count(0) == size * 8 - len(want)
                and all(field[p] == 1 for p in want)
            )
            if not okay:
                got = repr(field) if isinstance(field, Rejected) else sorted(i for i, b in enumerate(field) if b)[:40]
                viol(res, "bloomsize", {"sizes": [size], "seed": seed}, f"positions/nf={nf}", got, sorted(want)[:40], f"set bits differ from murmur3(seed i*0xFBA4C795+tweak) mod {size * 8}")
            else:
                n_ok += 1
    res.bulk("bit positions==ref", n_ok, n_ok)
    return res


# ---------------------------------------------------------------- element lists with repeats / container forms
def elem_keys(tier, seed):
    ks = named_keys(tier, seed)
    return [ks[0], ks[2], ks[8]] if tier == "quick" else ks[:10]


REPEAT_PATTERNS = ["first-twice", "first-again-last", "all-twice", "triple", "all-same"]
FORM_PATTERNS = ["tuple", "set", "frozenset", "reversed", "rotated"]


def gen_elemlist(tier, seed):
    cases = []
    sizes = [1, 2, 3, 10, 252, 253] if tier == "quick" else [1, 2, 3, 4, 10, 100, 252, 253, 254, 1000]
    for kn, k in elem_keys(tier, seed):
        for n in sizes:
            for L in (25, "mixed"):
                for pat in REPEAT_PATTERNS + FORM_PATTERNS:
                    cases.append({"key": k.hex(), "kn": kn, "n": n, "L": L, "pattern": pat, "seed": seed})
    cases.sort(key=lambda c: -c["n"])
    return cases


def run_elemlist(case):
    from buidl.compactfilter import hashed_items, encode_gcs, CompactFilter

    res = Res()
    key = bytes.fromhex(case["key"])
    n, L, seed, pat = case["n"], case["L"], case["seed"], case["pattern"]
    base = make_elements(seed, n, L)
    assert len(set(base)) == n
    if pat == "first-twice":
        arg = [base[0]] + base
    elif pat == "first-again-last":
        arg = base + [base[0]]
    elif pat == "all-twice":
        arg = base + base[::-1]
    elif pat == "triple":
        m = base[n // 2]
        arg = [m] + base + [m]
    elif pat == "all-same":
        arg = [base[-1]] * (n + 1)
    elif pat == "tuple":
        arg = tuple(base)
    elif pat == "set":
        arg = set(base)
    elif pat == "frozenset":
        arg = frozenset(base)
    elif pat == "reversed":
        arg = base[::-1]
    elif pat == "rotated":
        arg = base[n // 2 :] + base[: n // 2]
    else:
        raise ValueError(pat)
    repeats = pat in REPEAT_PATTERNS
    cls = "raw-duplicates" if repeats else f"form={pat}"
    uniq = sorted(set(arg))
    assert (len(uniq) < len(arg)) == repeats
    # BIP158: the elements form a set; N is the number of distinct elements
    vals = R.hashed_set(key, uniq)
    ref = R.gcs_from_values(vals)
    nt = (case["kn"], n, L, pat)

    def fresh():
        return type(arg)(arg) if not isinstance(arg, list) else list(arg)

    a = fresh()
    got = attempt(hashed_items, key, a)
    if isinstance(got, Rejected) or list(got) != vals:
        viol(res, "elemlist", case, f"hashed_items/{cls}", hx(got) if isinstance(got, Rejected) else {"n_values": len(got), "first": list(got)[:6]}, {"n_values": len(vals), "first": vals[:6]}, "hashed_items differs from the sorted SipHash range mapping of the element SET over F = N*M (N = number of distinct elements)")
    else:
        res.ok("hashed_items==ref", nt)
    if a != arg:
        viol(res, "elemlist", case, "input-mutated", "argument changed", "argument unchanged", "hashed_items modified the container it was given")
    a = fresh()
    enc = attempt(encode_gcs, key, a)
    if enc != ref:
        viol(res, "elemlist", case, f"encode_gcs/{cls}", hx(enc), ref.hex()[:160], "encode_gcs differs from the BIP158 filter of the element set")
    else:
        res.ok("encode_gcs==ref", nt, sample={"key": case["kn"], "n": n, "pattern": pat, "filter_len": len(ref)} if n == 3 and L == 25 else None)
    if a != arg:
        viol(res, "elemlist", case, "input-mutated", "argument changed", "argument unchanged", "encode_gcs modified the container it was given")
    again = attempt(encode_gcs, key, a)
    if again != enc:
        viol(res, "elemlist", case, "unstable", hx(again), hx(enc), "encode_gcs gives a different result when called a second time with the same argument")
    else:
        res.ok("second call identical")
    # the library's own filter must report every element it was built from
    if isinstance(enc, (bytes, bytearray)):
        cf = attempt(CompactFilter.parse, key, bytes(enc))
        missing = [e for e in uniq if isinstance(cf, Rejected) or attempt(lambda: RawScript(e) in cf) is not True]
        if missing:
            viol(res, "elemlist", case, f"false-negative/{cls}", {"missing": len(missing), "of": len(uniq), "first": missing[0].hex()[:80]}, "every element present", "an element of the list is not reported present by the filter encode_gcs built from it")
        else:
            res.ok("members present in own filter", n=len(uniq))
    cf2 = attempt(lambda: CompactFilter(key, hashed_items(key, fresh())))
    rs = attempt(cf2.serialize) if not isinstance(cf2, Rejected) else cf2
    if rs != ref:
        viol(res, "elemlist", case, f"construct-serialize/{cls}", hx(rs), ref.hex()[:160], "CompactFilter(key, hashed_items(key, elements)).serialize() differs from the BIP158 filter of the element set")
    else:
        missing = [e for e in uniq if attempt(lambda: RawScript(e) in cf2) is not True]
        if missing:
            viol(res, "elemlist", case, f"false-negative/{cls}", {"missing": len(missing), "of": len(uniq)}, "every element present", "CompactFilter(key, hashed_items(...)) does not report an element present")
        else:
            res.ok("construct: serialize==ref, members present", n=max(1, len(uniq)))
    return res


# ---------------------------------------------------------------- CompactFilter constructor input forms
CTOR_DELTAS = [0, 1, (1 << 19) - 1, 1 << 19, 1 << 20, (1 << 26) - 1]


def gen_ctorforms(tier, seed):
    cases = []
    maxlen = 3 if tier == "quick" else 4
    for n in range(2, maxlen + 1):
        for t in itertools.product(CTOR_DELTAS, repeat=n):
            cases.append({"kind": "values", "deltas": list(t)})
    for kn, k in elem_keys(tier, seed)[:3]:
        for n in (3, 100) if tier == "quick" else (3, 4, 100, 253, 1000):
            for order in ("reversed", "rotated", "evens-odds"):
                for form in ("list", "tuple"):
                    cases.append({"kind": "elements", "key": k.hex(), "kn": kn, "n": n, "order": order, "form": form, "seed": seed})
    return cases


def run_ctorforms(case):
    from buidl.compactfilter import CompactFilter

    res = Res()
    if case["kind"] == "values":
        key = bytes(16)
        vals = list(itertools.accumulate(case["deltas"]))
        want = R.gcs_from_values(vals)
        fh = R.filter_hash(want)
        n_ok = 0
        for perm in sorted(set(itertools.permutations(vals))):
            for form in ("list", "tuple"):
                arg = list(perm) if form == "list" else tuple(perm)
                keep = list(perm)
                srt = list(perm) == vals
                cls = ("sorted" if srt else "unsorted") + f"-{form}"
                cf = attempt(CompactFilter, key, arg)
                if isinstance(cf, Rejected):
                    viol(res, "ctorforms", case, f"construct-rejected/{cls}", repr(cf), "constructs", f"CompactFilter(key, {form} of hashed values {list(perm)}) raises")
                    continue
                rs = attempt(cf.serialize)
                if rs != want:
                    viol(res, "ctorforms", case, f"serialize/{cls}", hx(rs), want.hex(), f"CompactFilter(key, {list(perm)}).serialize() is not the BIP158 encoding of the sorted values")
                    continue
                if attempt(cf.hash) != fh or attempt(cf.serialize) != want:
                    viol(res, "ctorforms", case, f"hash-or-second-serialize/{cls}", "differs", fh.hex(), "hash() / a second serialize() differ from the encoding of the sorted values")
                    continue
                if list(arg) != keep:
                    viol(res, "ctorforms", case, "input-mutated", list(arg), keep, "CompactFilter(key, values) reordered / changed the list it was given")
                    continue
                n_ok += 1
        res.bulk("ctor(any order)->serialize==ref", n_ok, n_ok)
        return res
    key = bytes.fromhex(case["key"])
    n, order, form, seed = case["n"], case["order"], case["form"], case["seed"]
    els = make_elements(seed, n, 25)
    vals = R.hashed_set(key, els)
    want = R.gcs_from_values(vals)
    if order == "reversed":
        arg = vals[::-1]
    elif order == "rotated":
        arg = vals[n // 2 :] + vals[: n // 2]
    else:
        arg = vals[0::2] + vals[1::2]
    keep = list(arg)
    arg = list(arg) if form == "list" else tuple(arg)
    cls = f"unsorted-{form}"
    nt = (case["kn"], n, order, form)
    cf = attempt(CompactFilter, key, arg)
    if isinstance(cf, Rejected):
        viol(res, "ctorforms", case, f"construct-rejected/{cls}", repr(cf), "constructs", "CompactFilter(key, unsorted hashed values) raises")
        return res
    rs = attempt(cf.serialize)
    if rs != want:
        viol(res, "ctorforms", case, f"serialize/{cls}", hx(rs), want.hex()[:160], "CompactFilter(key, unsorted hashed values).serialize() is not the BIP158 filter")
    else:
        res.ok("ctor(unsorted)->serialize==ref", nt)
    missing = [e for e in els if attempt(lambda: RawScript(e) in cf) is not True]
    if missing:
        viol(res, "ctorforms", case, f"false-negative/{cls}", {"missing": len(missing), "of": n}, "every element present", "CompactFilter built from unsorted hashed values does not report an element present")
    else:
        res.ok("members present", n=n)
    if list(arg) != keep:
        viol(res, "ctorforms", case, "input-mutated", "argument changed", "argument unchanged", "CompactFilter(key, values) reordered / changed the list it was given")
    else:
        res.ok("input unchanged")
    return res


# ---------------------------------------------------------------- BIP158 vectors through the library's block walk
def nonleading_op_return(script):
    """True when an OP_RETURN opcode (not push data) occurs after the first position."""
    i = 0
    n = len(script)
    while i < n:
        op = script[i]
        if op == 0x6A and i > 0:
            return True
        i += 1
        if 1 <= op <= 75:
            i += op
        elif op == 76:
            i += 1 + (script[i] if i < n else 0)
        elif op == 77:
            i += 2 + int.from_bytes(script[i : i + 2], "little")
        elif op == 78:
            i += 4 + int.from_bytes(script[i : i + 4], "little")
    return False


def gen_blockvec(tier, seed):
    return [{"vector": i} for i in range(len(R.BIP158_VECTORS))]


def run_blockvec(case):
    from buidl.block import Block
    from buidl.compactfilter import encode_gcs, CompactFilter, CFilterMessage, CFHeadersMessage
    from buidl.helper import filter_null
    from buidl.script import Script

    res = Res()
    height, bhash, blk, prev_scripts, prev_header, want_filter, want_header = R.BIP158_VECTORS[case["vector"]]
    raw = bytes.fromhex("".join(blk))
    want_filter = bytes.fromhex(want_filter)
    outs = R._block_output_scripts(raw)
    prevs = [bytes.fromhex(s) for s in prev_scripts]
    if any(nonleading_op_return(s) for s in outs + prevs):
        res.skip("vector contains an OP_RETURN after the first opcode (element selection of such scripts is not C18's subject)")
        return res
    prev = bytes.fromhex(prev_header)[::-1]

    def build():
        b = Block.parse(BytesIO(raw))
        key = b.hash()[::-1][:16]
        items = filter_null(list(prevs) + list(b.get_outpoints()))
        enc = encode_gcs(key, items)
        fh = CompactFilter.parse(key, enc).hash()
        return b, enc, CFHeadersMessage(0, b.hash(), prev, [fh]).last_header

    got = attempt(build)
    if isinstance(got, Rejected):
        viol(res, "blockvec", case, "rejected", repr(got), "filter built", f"building the basic filter of BIP158 test block {height} through Block.parse / get_outpoints / encode_gcs raises")
        return res
    b, enc, hdr = got
    if enc != want_filter:
        viol(res, "blockvec", case, "filter-bytes", hx(enc), want_filter.hex(), f"basic filter of BIP158 test block {height} built from Block.get_outpoints() + spent scripts differs from the published vector")
    else:
        res.ok("block filter==published vector", ("vector", height), sample={"height": height, "filter": want_filter.hex()[:40]})
    if hdr != bytes.fromhex(want_header)[::-1]:
        viol(res, "blockvec", case, "header", hx(hdr), want_header, f"filter header of block {height} differs from the published vector")
    else:
        res.ok("block filter header==published vector")
    # every output script object of the parsed block and every spent script is reported present by the published filter
    msg = attempt(CFilterMessage, 0, bytes.fromhex(bhash), want_filter)
    if isinstance(msg, Rejected):
        viol(res, "blockvec", case, "rejected", repr(msg), "parses", "CFilterMessage rejects the published filter")
        return res
    objs = [o.script_pubkey for t in b.txs for o in t.tx_outs]
    assert len(objs) == len(outs)
    missing = 0
    n = 0
    for o, s in zip(objs, outs):
        if not s or s[0] == 0x6A:
            continue
        n += 1
        if attempt(lambda: o in msg) is not True:
            missing += 1
    for s in prevs:
        if s:
            n += 1
            o = attempt(Script.parse, raw=s)
            if isinstance(o, Rejected) or attempt(lambda: o in msg) is not True:
                missing += 1
    if missing:
        viol(res, "blockvec", case, "false-negative", {"missing": missing, "of": n}, "every script present", f"a script of block {height} (library TxOut.script_pubkey object) is not reported present by the published filter")
    else:
        res.ok("block scripts present in published filter", n=n)
    return res


# ---------------------------------------------------------------- membership through library script objects
def script_alphabet(seed):
    """(class, raw bytes, commands or None, typed constructor or None)"""
    f = lambda label, n: filler(seed, "c18so-" + label, 0, n)  # noqa
    h20, h32 = f("h20", 20), f("h32", 32)
    pk33, pk33b, pk65 = b"\x02" + f("pk", 32), b"\x03" + f("pkb", 32), b"\x04" + f("pk65", 64)
    d75, d76, d255, d256, d520, d521 = f("d75", 75), f("d76", 76), f("d255", 255), f("d256", 256), f("d520", 520), f("d521", 521)
    A = []
    # pushes that are not encoded the way the library would encode them
    for raw in (
        b"\x4c\x14" + h20,
        b"\x4d\x14\x00" + h20,
        b"\x4e\x14\x00\x00\x00" + h20,
        b"\x4c\x00",
        b"\x4d\x00\x00",
        b"\x4c\x4b" + d75,
        b"\x4d\xff\x00" + d255,
        b"\x76\xa9\x4c\x14" + h20 + b"\x88\xac",
    ):
        A.append(("nonminimal-push", raw, None, None))
    # scripts that end inside a push
    for raw in (b"\x05\x01\x02", b"\x4c", b"\x4d\x05", b"\x4e\x01\x00\x00", b"\x4c\x05\xaa", b"\x14" + h20[:5], b"\x76\xa9\x14" + h20[:10], b"\x51\x20" + h32[:31]):
        A.append(("truncated-push", raw, None, None))
    # push-length boundaries, also built from commands
    A.append(("push-boundary", b"\x4b" + d75, [d75], None))
    A.append(("push-boundary", b"\x4c\x4c" + d76, [d76], None))
    A.append(("push-boundary", b"\x4c\xff" + d255, [d255], None))
    A.append(("push-boundary", b"\x4d\x00\x01" + d256, [d256], None))
    A.append(("push-boundary", b"\x4d\x08\x02" + d520, [d520], None))
    A.append(("push-boundary", b"\x4d\x09\x02" + d521, None, None))
    # bare opcodes
    for raw, cmds in ((b"\x00", [0]), (b"\x51", [0x51]), (b"\xac", [0xAC]), (b"\xff" * 10, [0xFF] * 10), (b"\x50\x60\xba", [0x50, 0x60, 0xBA]), (b"\x51\x6a", [0x51, 0x6A])):
        A.append(("opcodes", raw, cmds, None))
    # standard templates
    A.append(("template", b"\x76\xa9\x14" + h20 + b"\x88\xac", [0x76, 0xA9, h20, 0x88, 0xAC], ("P2PKHScriptPubKey", h20)))
    A.append(("template", b"\xa9\x14" + h20 + b"\x87", [0xA9, h20, 0x87], ("P2SHScriptPubKey", h20)))
    A.append(("template", b"\x00\x14" + h20, [0, h20], ("P2WPKHScriptPubKey", h20)))
    A.append(("template", b"\x00\x20" + h32, [0, h32], ("P2WSHScriptPubKey", h32)))
    A.append(("template", b"\x51\x20" + h32, [0x51, h32], ("P2TRScriptPubKey", h32)))
    A.append(("template", b"\x21" + pk33 + b"\xac", [pk33, 0xAC], None))
    A.append(("template", b"\x41" + pk65 + b"\xac", [pk65, 0xAC], None))
    A.append(("template", b"\x51\x21" + pk33 + b"\x21" + pk33b + b"\x52\xae", [0x51, pk33, pk33b, 0x52, 0xAE], None))
    assert len(set(a[1] for a in A)) == len(A) and all(len(a[1]) <= 600 for a in A)
    return A


def gen_scriptobj(tier, seed):
    cases = []
    for kn, k in elem_keys(tier, seed):
        for pad in (0, 7) if tier == "quick" else (0, 1, 7, 100, 253):
            cases.append({"key": k.hex(), "kn": kn, "pad": pad, "seed": seed})
    return cases


def run_scriptobj(case):
    import buidl.script as S
    from buidl.compactfilter import CompactFilter, CFilterMessage

    res = Res()
    key = bytes.fromhex(case["key"])
    seed = case["seed"]
    A = script_alphabet(seed)
    els = sorted(set([a[1] for a in A] + [b"\x00\x14" + H("c18so-pad", seed, j)[:20] for j in range(case["pad"])]))
    ref = R.gcs_build(key, els)
    cf = attempt(CompactFilter.parse, key, ref)
    wire_hash = key + filler(seed, "c18blk", 1, 16)
    msg = attempt(CFilterMessage.parse, BytesIO(b"\x00" + wire_hash + R.compact_size(len(ref)) + ref))
    if isinstance(cf, Rejected) or isinstance(msg, Rejected):
        viol(res, "scriptobj", case, "filter-rejected", repr(cf), "parses", "CompactFilter.parse / CFilterMessage.parse reject a BIP158 filter")
        return res
    for cls, raw, cmds, typed in A:
        makers = [
            ("Script.parse(raw=)", lambda: S.Script.parse(raw=raw)),
            ("Script.parse(stream)", lambda: S.Script.parse(BytesIO(R.compact_size(len(raw)) + raw))),
            ("ScriptPubKey.parse(stream)", lambda: S.ScriptPubKey.parse(BytesIO(R.compact_size(len(raw)) + raw))),
        ]
        if cmds is not None:
            makers.append(("Script(commands)", lambda: S.Script(list(cmds))))
        if typed is not None:
            makers.append((typed[0], lambda: getattr(S, typed[0])(typed[1])))
        for mname, make in makers:
            obj = attempt(make)
            if isinstance(obj, Rejected) or obj is None:
                viol(res, "scriptobj", case, f"object-rejected/{cls}", repr(obj), "a script object", f"{mname} cannot represent the {len(raw)}-byte script {raw.hex()[:60]}: an element of the filter cannot be queried")
                continue
            r1 = attempt(lambda: obj in cf)
            r2 = attempt(lambda: obj in msg)
            if r1 is not True or r2 is not True:
                viol(res, "scriptobj", case, f"false-negative/{cls}", {"in CompactFilter": repr(r1), "in CFilterMessage": repr(r2), "raw_serialize": hx(attempt(obj.raw_serialize))}, "present", f"the script {raw.hex()[:60]} is in the filter but its library object ({mname}) is not reported present")
            else:
                res.ok("script object present", (case["kn"], case["pad"], raw[:40], mname))
    return res


# ---------------------------------------------------------------- SipHash object call sequences
SIP_STEPS = [0, 1, 7, 8, 9]
SIP_SEQ_LENGTHS = list(range(0, 25)) + [63, 64, 65, 255, 256, 257, 600]


def gen_sipseq(tier, seed):
    ks = named_keys(tier, seed)
    keys = [ks[2], ks[8]] if tier == "quick" else [ks[0], ks[1], ks[2], ks[8]]
    depth = 4 if tier == "quick" else 6
    cases = []
    for kn, k in keys:
        for n in SIP_SEQ_LENGTHS:
            for s0 in SIP_STEPS:
                cases.append({"key": k.hex(), "kn": kn, "len": n, "first": s0, "depth": depth, "seed": seed})
    return cases


def run_sipseq(case):
    from buidl.siphash import SipHash_2_4

    res = Res()
    key = bytes.fromhex(case["key"])
    n, s0, depth, seed = case["len"], case["first"], case["depth"], case["seed"]
    msg = pattern("filler", n, seed)
    pre = {}

    def want(i):
        if i not in pre:
            pre[i] = R.siphash24(key, msg[:i])
        return pre[i]

    n_ok = 0
    stop = False
    for rest in itertools.product(SIP_STEPS, repeat=depth - 1):
        steps = (s0,) + rest

        def go():
            h = SipHash_2_4(key)
            pos = 0
            seen = []
            for st in steps:
                h.update(msg[pos : pos + st])
                pos = min(n, pos + st)
                seen.append((pos, h.hash()))
            h.update(msg[pos:])
            return seen, h.hash(), h.hash(), h.digest()

        out = attempt(go)
        if isinstance(out, Rejected):
            viol(res, "sipseq", case, "raises", repr(out), "hash values", f"update()/hash() sequence {steps} raises")
            break
        seen, fin, fin2, dig = out
        for pos, got in seen:
            if got != want(pos):
                viol(res, "sipseq", case, "hash-between-updates", got, want(pos), f"chunks {steps}: hash() after {pos} bytes is not SipHash-2-4 of the prefix (hash() between update() calls must not disturb the state)")
                stop = True
                break
        if stop:
            break
        if fin != want(n):
            viol(res, "sipseq", case, "final-after-chunks", fin, want(n), f"chunks {steps} + remainder: final hash differs from the one-shot hash")
            break
        if fin2 != fin or dig != fin.to_bytes(8, "little"):
            viol(res, "sipseq", case, "repeated-hash", [fin2, hx(dig)], fin, "a second hash()/digest() on the same object gives a different value")
            break
        n_ok += len(seen) + 3
    res.bulk("chunked update/hash==ref", n_ok, n_ok)
    if s0 != 0:
        return res
    # byte at a time, 8/9/64-byte strides
    for stride in (1, 8, 9, 64):
        def strided():
            h = SipHash_2_4(key)
            for i in range(0, n, stride):
                h.update(msg[i : i + stride])
            return h.hash()

        got = attempt(strided)
        if got != want(n):
            viol(res, "sipseq", case, f"stride/{'bytewise' if stride == 1 else 'blocks'}", hx(got), want(n), f"{n}-byte message fed in {stride}-byte update() calls differs from the one-shot hash")
        else:
            res.ok("strided updates==ref", (case["kn"], n, stride))
    # copy() is independent of the original; two live objects do not share state
    cut = n // 2

    def copies():
        a = SipHash_2_4(key, msg[:cut])
        c = a.copy()
        c.update(b"\xa5" * 9)
        a.update(msg[cut:])
        d = a.copy()
        return a.hash(), c.hash(), d.hash()

    got = attempt(copies)
    exp = (want(n), R.siphash24(key, msg[:cut] + b"\xa5" * 9), want(n))
    if got != exp:
        viol(res, "sipseq", case, "copy", hx(got), exp, "copy() is not an independent object with the same state")
    else:
        res.ok("copy independent")
    key2 = bytes(b ^ 0x5A for b in key)

    def two():
        a = SipHash_2_4(key)
        b = SipHash_2_4(key2)
        a.update(msg[:cut])
        b.update(msg)
        fresh = SipHash_2_4(key).hash()
        a.update(msg[cut:])
        return a.hash(), b.hash(), fresh

    got = attempt(two)
    exp = (want(n), R.siphash24(key2, msg), want(0))
    if got != exp:
        viol(res, "sipseq", case, "instances-share-state", hx(got), exp, "two live SipHash_2_4 objects (or a fresh one created meanwhile) influence each other")
    else:
        res.ok("instances independent")
    return res


# ---------------------------------------------------------------- Golomb values of 2^26 and above
def gen_golombhi(tier, seed):
    top = 2000 * M
    ranges = []
    for k in range(26, 31):
        ranges.append([(1 << k) - 64, (1 << k) + 64])
    for n in (1, 2, 3, 4, 10, 100, 252, 253, 254, 1000, 1999, 2000):
        ranges.append([max(0, n * M - 128), n * M])
    cases = [{"ranges": [r]} for r in ranges]
    # every quotient boundary between 2^26 and 2000*M
    bounds = [[(q << P) - 2, (q << P) + 2] for q in range(128, (top >> P) + 1)]
    per = 32
    for i in range(0, len(bounds), per):
        cases.append({"ranges": bounds[i : i + per]})
    if tier == "thorough":
        for lo in range(1 << 26, 1 << 27, GCHUNK * 8):
            cases.append({"ranges": [[lo, lo + GCHUNK]]})
    return cases


def run_golombhi(case):
    res = Res()
    for lo, hi in case["ranges"]:
        res.merge(run_golomb({"lo": lo, "hi": hi}))
    return res


HI_DELTAS = [0, 1 << 19, 1 << 26, 1 << 30, 2000 * M - 1]


# ---------------------------------------------------------------- every set size
def gen_gcssizes(tier, seed):
    ks = named_keys(tier, seed)
    cases = []
    if tier == "quick":
        for n in range(0, 301):
            cases.append({"key": ks[2][1].hex(), "kn": ks[2][0], "n": n, "L": 25, "collide": False, "seed": seed})
    else:
        for kn, k in (ks[2], ks[8]):
            for n in list(range(0, 601)) + [1998, 1999]:
                cases.append({"key": k.hex(), "kn": kn, "n": n, "L": 25, "collide": False, "seed": seed})
    cases.sort(key=lambda c: -c["n"])
    return cases


# ---------------------------------------------------------------- bloom filter histories
BLOOM_HIST_PARAMS = [(1, 50, 0xFFFFFFFF), (2, 50, 0), (3, 7, 0x80000000), (8, 11, 99), (256, 3, 1), (36000, 50, 0xFFFFFFFF)]


def gen_bloomhist(tier, seed):
    cases = []
    for size, nf, tweak in BLOOM_HIST_PARAMS:
        for kind in ("repeat", "long", "bytearray", "two-live"):
            cases.append({"size": size, "nf": nf, "tweak": tweak, "kind": kind, "n": 200 if tier == "quick" else 1000, "seed": seed})
    tw = [0, 1, 0x7FFFFFFF, 0x80000000, 0xFFFFFFFF] if tier == "quick" else tweak_alphabet(tier, seed)
    for t in tw:
        cases.append({"kind": "unreduced-seed", "tweak": t, "seed": seed})
    return cases


def run_bloomhist(case):
    from buidl.bloomfilter import BloomFilter
    from buidl.helper import murmur3

    res = Res()
    kind, seed = case["kind"], case["seed"]
    if kind == "unreduced-seed":
        # BloomFilter.add hands murmur3 the unreduced integer i*0xFBA4C795 + tweak (up to ~2^37.6)
        t = case["tweak"]
        n_ok = 0
        for i in range(50):
            s = i * R.BIP37_MUL + t
            for n in LENGTHS:
                d = pattern("filler", n, seed)
                got = attempt(murmur3, d, seed=s)
                exp = R.murmur3_32(d, s & R.M32)
                if got != exp:
                    viol(res, "bloomhist", case, f"murmur-unreduced-seed/{'seed>=2^32' if s > R.M32 else 'seed<2^32'}", hx(got), exp, f"murmur3(data, seed={s:#x}) differs from MurmurHash3_x86_32 with the seed taken modulo 2^32 (len {n})")
                else:
                    n_ok += 1
        res.bulk("murmur3(unreduced seed)==ref", n_ok, n_ok)
        return res
    size, nf, tweak = case["size"], case["nf"], case["tweak"]
    nt = (size, nf, tweak, kind)
    a, b, c = H("c18bh", seed, 0)[:20], H("c18bh", seed, 1), H("c18bh", seed, 2) + b"\x00\x00\x00\x00"
    if kind == "repeat":
        items = [a, b, a, a, c, b, c]
    elif kind == "long":
        items = [filler(seed, "c18bh-long", j, j % 71) for j in range(case["n"])]
    elif kind == "bytearray":
        items = [bytearray(pattern("filler", n, seed)) for n in (0, 1, 3, 4, 5, 20, 32, 36, 70)]
    else:
        items = [filler(seed, "c18bh-two", j, 1 + j % 40) for j in range(24)]
    bf = attempt(BloomFilter, size, nf, tweak)
    if isinstance(bf, Rejected):
        viol(res, "bloomhist", case, "construct", repr(bf), "constructs", "BloomFilter(size, function_count, tweak) raises")
        return res
    vd = bytearray(size)
    if kind == "two-live":
        size2, nf2, tweak2 = size + 1, (nf % 50) + 1, tweak ^ 1
        bf2 = attempt(BloomFilter, size2, nf2, tweak2)
        vd2 = bytearray(size2)
        for j, it in enumerate(items):
            if j % 2 == 0:
                attempt(bf.add, it)
                R.bloom_insert(vd, it, nf, tweak)
            else:
                attempt(bf2.add, it)
                R.bloom_insert(vd2, it, nf2, tweak2)
            if size <= 256 or j == len(items) - 1:
                got = (attempt(bf.filter_bytes), attempt(bf2.filter_bytes))
                if got != (bytes(vd), bytes(vd2)):
                    viol(res, "bloomhist", case, "bits/two-live", [hx(x) for x in got], [bytes(vd).hex()[:160], bytes(vd2).hex()[:160]], "two live BloomFilter objects with interleaved add() calls: a bit field differs from its own BIP37 reference")
                    return res
                res.ok("two live filters: bits==ref")
        bf3 = attempt(BloomFilter, size, nf, tweak)
        fb = attempt(bf3.filter_bytes) if not isinstance(bf3, Rejected) else bf3
        if fb != bytes(size):
            viol(res, "bloomhist", case, "fresh-instance-dirty", hx(fb), "all zero", "a newly constructed BloomFilter already has bits set")
        else:
            res.ok("fresh filter empty", nt)
        return res
    for j, it in enumerate(items):
        r = attempt(bf.add, it)
        R.bloom_insert(vd, bytes(it), nf, tweak)
        if isinstance(r, Rejected):
            viol(res, "bloomhist", case, f"add-raises/{kind}", repr(r), "item added", f"BloomFilter.add raises for item {j} ({type(it).__name__}, {len(it)} bytes)")
            return res
        if size <= 256:
            fb = attempt(bf.filter_bytes)
            if fb != bytes(vd):
                viol(res, "bloomhist", case, f"bits/{kind}", hx(fb), bytes(vd).hex()[:160], f"bit field after add number {j + 1} of the history differs from BIP37")
                return res
    fb = attempt(bf.filter_bytes)
    if fb != bytes(vd):
        viol(res, "bloomhist", case, f"bits/{kind}", hx(fb), bytes(vd).hex()[:160], "bit field at the end of the history differs from BIP37")
        return res
    res.ok("history: bits==ref", nt, n=len(items))
    missing = [it for it in items if not R.bloom_contains(fb, bytes(it), nf, tweak)]
    if missing:
        viol(res, "bloomhist", case, "false-negative", {"missing": len(missing)}, "all inserted items match", "an inserted item does not match the serialized filter")
    else:
        res.ok("members present", n=len(items))
    msg = attempt(bf.filterload)
    want = R.filterload_payload(vd, nf, tweak, 1)
    if isinstance(msg, Rejected) or attempt(msg.serialize) != want:
        viol(res, "bloomhist", case, "filterload", hx(msg), want.hex()[-40:], "filterload() after the history differs from the BIP37 payload")
    else:
        res.ok("filterload==ref")
    return res


# ---------------------------------------------------------------- message construction forms
def gen_msgforms(tier, seed):
    cases = []
    for kn, k in elem_keys(tier, seed)[:3]:
        for n in (0, 1, 3, 100) if tier == "quick" else (0, 1, 2, 3, 100, 253, 1000):
            cases.append({"kind": "cfilter-ctor", "key": k.hex(), "kn": kn, "n": n, "seed": seed})
    for n in range(2, 9) if tier == "quick" else range(2, 13):
        for via in ("ctor", "parse"):
            cases.append({"kind": "split-chain", "n": n, "via": via, "seed": seed})
    return cases


def run_msgforms(case):
    from buidl.compactfilter import CFilterMessage, CFHeadersMessage

    res = Res()
    seed = case["seed"]
    if case["kind"] == "cfilter-ctor":
        key = bytes.fromhex(case["key"])
        n = case["n"]
        els = make_elements(seed, n, 25)
        ref = R.gcs_build(key, els)
        # block hash in display order: the key is the first 16 bytes of its byte-reversal
        display = (key + filler(seed, "c18blk", 2, 16))[::-1]
        msg = attempt(CFilterMessage, 0, display, ref)
        if isinstance(msg, Rejected):
            viol(res, "msgforms", case, "cfilter-ctor/rejected", repr(msg), "constructs", "CFilterMessage(filter_type, block_hash, filter_bytes) raises for a BIP158 filter")
            return res
        missing = [e for e in els if attempt(lambda: RawScript(e) in msg) is not True]
        if missing:
            viol(res, "msgforms", case, "cfilter-ctor/false-negative", {"missing": len(missing), "of": n}, "every element present", "CFilterMessage built with its constructor (block hash in display order) does not report an inserted element present")
        else:
            res.ok("cfilter ctor: members present", (case["kn"], n) if n else None, n=max(1, n))
        obs = attempt(lambda: (msg.filter_type, msg.block_hash, msg.filter_bytes, msg.hash()))
        exp = (0, display, ref, R.filter_hash(ref))
        if obs != exp:
            viol(res, "msgforms", case, "cfilter-ctor/fields", hx(obs) if isinstance(obs, Rejected) else [hx(x) for x in obs], [hx(x) for x in exp], "CFilterMessage fields / hash differ from the constructor arguments")
        else:
            res.ok("cfilter ctor: fields==ref")
        return res
    n, via = case["n"], case["via"]
    prev = filler(seed, "c18prev", 1, 32)
    hs = [filler(seed, "c18fh2", i, 32) for i in range(n)]
    chain = R.header_chain(prev, hs)
    stop = filler(seed, "c18stop", 1, 32)

    def message(p, part):
        if via == "ctor":
            return CFHeadersMessage(0, stop, p, list(part))
        return CFHeadersMessage.parse(BytesIO(b"\x00" + stop[::-1] + p + R.compact_size(len(part)) + b"".join(part)))

    n_ok = 0
    cuts = [(a,) for a in range(1, n)] + [(a, b) for a in range(1, n) for b in range(a + 1, n)]
    for cut in cuts:
        edges = (0,) + cut + (n,)

        def go():
            p = prev
            lasts = []
            for i in range(len(edges) - 1):
                p = message(p, hs[edges[i] : edges[i + 1]]).last_header
                lasts.append(p)
            return lasts

        got = attempt(go)
        exp = [chain[e - 1] for e in edges[1:]]
        if got != exp:
            viol(res, "msgforms", case, f"split-chain/{via}", hx(got) if isinstance(got, Rejected) else [x.hex() for x in got], [x.hex() for x in exp], f"{n} filter hashes sent as {len(edges) - 1} cfheaders messages cut at {cut} (each starting from the previous message's last_header) do not end at the BIP157 chain value")
        else:
            n_ok += 1
    res.bulk("split header batches==ref chain", n_ok, n_ok)
    return res


# ---------------------------------------------------------------- registry
def engines(tier, seed):
    return [
        Engine(
            "siphash",
            gen_siphash,
            run_siphash,
            kind="E1",
            rule="keys {8 boundary keys, seed fillers, every single-bit key (thorough: also every single-zero-bit key)} x patterns {zeros, ff, "
            "incrementing, 0x80, filler} x every message length 0..70 and 255,256,257,511,512,600; plus a hot byte (ff/01/80) at every position of "
            "every length 1..70 for the boundary keys. Each message: _siphash, SipHash_2_4(key,msg).hash()/digest(), every 2-way update() split "
            "(lengths <= 24 quick / <= 70 thorough; 3-way <= 17 thorough), hash_to_range over 10 range sizes for 7 lengths. Oracle: SipHash-2-4 "
            "written from the paper. Every evaluation is a distinct (key, message, split) so all are counted non-trivial",
        ),
        Engine(
            "murmur",
            gen_murmur,
            run_murmur,
            kind="E1",
            rule="seeds {0,1,2,2^31-1,2^31,2^32-2,2^32-1,0xFBA4C795,2*0xFBA4C795 mod 2^32, every single-bit seed, fillers (thorough: every "
            "single-zero-bit seed)} x {5 patterns over every length 0..70 and 255..600; hot byte ff/80/01 at every position of every length 1..70}; "
            "oracle: MurmurHash3_x86_32 reference; all evaluations distinct",
        ),
        Engine(
            "golomb",
            gen_golomb,
            run_golomb,
            kind="E1",
            rule="every x in [0, 2^26) thorough; [0, 2^21) plus +-64 windows around every multiple of 2^19 up to 2^26 and the top 2^14 values quick: "
            "len(encode_golomb(x,19)) and pack_bits(...) equal the reference code bytes; decode_golomb(unpack_bits(ref)) == x and consumes exactly "
            "the code bits. One evaluation per x, all distinct",
            chunk=4,
        ),
        Engine(
            "bitpack",
            gen_bitpack,
            run_bitpack,
            kind="E1",
            rule="pack_bits/unpack_bits vs MSB-first reference: every bit string of length 0..12 (quick) / 0..16 (thorough); for every length 0..80: "
            "all-0, all-1, alternating, one-hot and one-cold at every position, boolean-typed bits; unpack of every byte and of 3-byte strings",
            chunk=1,
        ),
        Engine(
            "gcsvalues",
            gen_gcsvalues,
            run_gcsvalues,
            kind="E1",
            rule="every tuple of 0..3 (thorough 0..4) deltas over {0,1,2,2^19-1,2^19,2^19+1,2^20-1,2^20,2^25,2^26-1} (delta 0 = repeated value, what "
            "BIP158 encodes for colliding elements) plus runs of 252/253/254/1000 values, plus every tuple of 1..3 deltas over {0,2^19,2^26,2^30,2000*M-1} that contains a delta >= 2^26: serialize_gcs == reference bytes, decode_gcs inverts, "
            "CompactFilter.parse(b).serialize() == b. Non-trivial = non-empty tuple",
        ),
        Engine(
            "gcs",
            gen_gcs,
            run_gcs,
            kind="E1",
            rule="keys x set sizes {0,1,2,3,100,252,253,2000} x script lengths {0,1,25,600,mixed 0..600} (thorough: 20 keys, 12 sizes, 12 lengths) "
            "of distinct elements, plus for every key and size in {2,3,100,253,2000} a set forced to contain two P2PKH scripts with the same mapped "
            "value (found by walking a fixed script sequence with the reference SipHash), plus every single-bit key with small sets. Checks: "
            "hashed_items, encode_gcs bytes, decode_gcs, every inserted element present via CompactFilter.parse / compute_hash / real Script objects / "
            "CompactFilter(key, hashed_items) / CFilterMessage.parse (key = first 16 wire bytes of the block hash), parse->serialize identity, "
            "filter hash. Non-trivial = distinct (key, size, length, collision) configuration; membership evaluations are counted per element",
            chunk=1,
        ),
        Engine(
            "headers",
            gen_headers,
            run_headers,
            kind="E1",
            rule="chain lengths {0..5,100,2000} (thorough adds 6,7,8,252,253,1999) x previous header {0,ff,filler} x filter hashes {distinct, all "
            "equal, equal to previous header, palindromic} x {constructor, parse of a wire payload}; every prefix of length <= 8 and the full "
            "chain must give last_header = dSHA256(filter_hash || prev) iterated; plus the six BIP158 testnet blocks end to end (library filter -> "
            "library hash -> library header) against the reference",
        ),
        Engine(
            "bloom",
            gen_bloom,
            run_bloom,
            kind="E1",
            rule="sizes {1,2,7,8,252,253,36000} x function counts {1,2,50} x tweaks {0,1,2^31-1,2^31,2^32-1,99,filler} (thorough: sizes "
            "{1,8,253} x every count 1..50, sizes {2,3,7,9,252,255,256,257} x {1,2,3,10,49,50}, sizes {1000,4096,35999,36000} x {1,2,3,49,50}, 45 tweaks incl. single bits and tweaks "
            "making a seed wrap to 0) x item sequences {one item of every length 0..70, 3 hash-like items, edge items, none}: bit field equals the "
            "reference after every add (sizes <= 256) and at the end, every inserted item matches the serialized filter, filterload layout for "
            "flags 0,1,2 and default. Non-trivial = configuration with at least one item",
        ),
        Engine(
            "bloomsize",
            gen_bloomsize,
            run_bloomsize,
            kind="E1",
            rule="every filter size 1..36000 bytes thorough (1..2048 and 35745..36000 quick) x (3 functions, tweak 0) and (11 functions, tweak 2^32-1) (sizes 4097..35744: one configuration "
            "per size, 3..7 functions, size-derived tweak), two 20-byte items: the set bits of bit_field are exactly the reference positions murmur3(item, i*0xFBA4C795+tweak mod 2^32) mod 8*size",
        ),
        Engine(
            "elemlist",
            gen_elemlist,
            run_elemlist,
            kind="E1",
            rule="keys {zero, inc, filler0} (thorough 10 keys) x base sizes {1,2,3,10,252,253} (thorough adds 4,100,254,1000) of distinct elements x "
            "script length {25, mixed 0..600} x list pattern {first element twice, first element again at the end, every element twice, one "
            "element three times, n+1 copies of one element} and container form {tuple, set, frozenset, reversed list, rotated list}. Oracle: BIP158 "
            "filter of the element SET (N = number of distinct elements) from the reference model. Checks: hashed_items, encode_gcs bytes, "
            "CompactFilter(key, hashed_items(..)).serialize(), every element present in the filter the library built, argument not modified, second call identical",
        ),
        Engine(
            "ctorforms",
            gen_ctorforms,
            run_ctorforms,
            kind="E1",
            rule="CompactFilter(key, values): every value list accumulated from 2..3 (thorough 2..4) deltas over {0,1,2^19-1,2^19,2^20,2^26-1}, "
            "every distinct permutation of it, as list and as tuple: serialize() == reference encoding of the sorted values, hash(), second "
            "serialize(), argument unchanged; plus reversed / rotated / evens-then-odds orders of the hashed values of 3 and 100 (thorough 4, 253, "
            "1000) P2PKH elements under 3 keys: serialize() == reference filter and every element present",
        ),
        Engine(
            "blockvec",
            gen_blockvec,
            run_blockvec,
            kind="E1",
            rule="the six BIP158 testnet test blocks (a vector with an OP_RETURN after the first opcode of a script would be skipped; none has one): "
            "encode_gcs(key, filter_null(spent scripts + Block.parse(raw).get_outpoints())) == published filter, its header through "
            "CompactFilter.hash / CFHeadersMessage == published header, and every TxOut.script_pubkey object of the parsed block (non-empty, not "
            "starting with OP_RETURN) and every spent script is reported present by CFilterMessage(0, block_hash, published filter)",
            chunk=1,
        ),
        Engine(
            "scriptobj",
            gen_scriptobj,
            run_scriptobj,
            kind="E1",
            rule="keys {zero, inc, filler0} (thorough 10) x padding {0,7} (thorough {0,1,7,100,253}) extra elements; the filter is the reference "
            "BIP158 filter of a 36-script alphabet: 8 pushes not in the library's own encoding (PUSHDATA1/2/4 for short data, empty PUSHDATA), 8 "
            "scripts ending inside a push, push lengths 75/76/255/256/520/521, 6 bare-opcode scripts, 8 templates (p2pkh, p2sh, p2wpkh, p2wsh, "
            "p2tr, p2pk 33/65, 1-of-2 multisig). Every script is queried through every library object form: Script.parse(raw=), "
            "Script.parse(stream), ScriptPubKey.parse(stream), Script(commands) and the typed ScriptPubKey class where one exists; the object "
            "must be constructible and reported present by CompactFilter.parse(...) and CFilterMessage.parse(...)",
        ),
        Engine(
            "sipseq",
            gen_sipseq,
            run_sipseq,
            kind="E1",
            rule="keys {inc, filler0} (thorough adds zero, ff) x message length {0..24, 63, 64, 65, 255, 256, 257, 600} x every sequence of 4 "
            "(thorough 6) update() chunk sizes over {0,1,7,8,9} followed by the remainder: hash() after every chunk == reference SipHash-2-4 of "
            "the prefix fed so far, final hash, a second hash(), digest(); plus 1/8/9/64-byte strides, copy() independence and two live objects "
            "with different keys. All (key, length, chunking) triples distinct",
        ),
        Engine(
            "golombhi",
            gen_golombhi,
            run_golombhi,
            kind="E1",
            rule="Golomb-Rice values of 2^26 and above (a delta can reach N*M-1 = 2000*784931-1): +-64 windows around 2^26..2^30, the 128 values "
            "below N*M for N in {1,2,3,4,10,100,252,253,254,1000,1999,2000}, +-2 around every multiple of 2^19 from 2^26 to 2000*M (thorough "
            "adds 2^14-value windows every 2^17 in [2^26, 2^27)); same comparisons as `golomb` (violations carry the golomb fingerprints)",
            chunk=1,
        ),
        Engine(
            "gcssizes",
            gen_gcssizes,
            run_gcs,
            kind="E1",
            rule="every set size N = 0..300 under key `inc` (thorough: 0..600, 1998, 1999 under keys inc and filler0) of distinct P2PKH scripts "
            "through all checks of the `gcs` engine (violations carry the gcs fingerprints); the total bit length takes every residue modulo 8",
            chunk=1,
        ),
        Engine(
            "bloomhist",
            gen_bloomhist,
            run_bloomhist,
            kind="E1",
            rule="(size, functions, tweak) in {(1,50,2^32-1),(2,50,0),(3,7,2^31),(8,11,99),(256,3,1),(36000,50,2^32-1)} x history {items repeated "
            "(A,B,A,A,C,B,C), 200 (thorough 1000) items of lengths 0..70 cycling, bytearray items, two live filters with interleaved adds + a fresh "
            "third one}: bit field == BIP37 reference after every add (sizes <= 256) and at the end, every item matches, filterload payload; plus "
            "murmur3(data, i*0xFBA4C795+tweak) with the UNREDUCED integer seed (i = 0..49, 5 tweaks, thorough the bloom tweak alphabet) for every "
            "length 0..70 == reference with the seed modulo 2^32",
        ),
        Engine(
            "msgforms",
            gen_msgforms,
            run_msgforms,
            kind="E1",
            rule="CFilterMessage(0, block_hash in display order, filter) built with the constructor for 3 keys x sizes {0,1,3,100} (thorough adds "
            "2,253,1000): every element present, fields, hash; CFHeadersMessage: a chain of n = 2..8 (thorough 2..12) filter hashes cut at every "
            "1 or 2 positions into 2 or 3 messages (constructor or parse), each message starting from the previous one's last_header: every "
            "message's last_header equals the reference chain value at its cut",
        ),
    ]
