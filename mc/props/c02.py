"""C02 — BIP340 Schnorr: signatures equal the specification, verification exactly per spec.

E3 toy-sign / toy-sign-aux / toy-verify: whole state space of the toy instantiation.
E1 real-sign: secp256k1, all four (P parity, R parity) classes, exact 64 bytes without any seam.
E1 real-verify: deviation catalogue (bit flips, special R / s values, other key) against the BIP340 reference.
E2 tagcache: every sequence of <= 3 first uses over the 10 tags from an emptied TAG_HASH_CACHE.
"""
import hashlib
import itertools

from mc.core import Engine, Res, attempt, Rejected, filler, filler_int, current_toy
from mc.ref import ec

PROP = "C02"
N = ec.SECP.n
PP = ec.SECP.p


def accepted(v):
    return (not isinstance(v, Rejected)) and bool(v)


def lib_verify(pecc, point, msg, sig64):
    """The pipeline a user runs: parse the 64 bytes, verify. Any exception or falsy = rejected."""

    def f():
        sig = pecc.SchnorrSignature.parse(sig64)
        return point.verify_schnorr(msg, sig)

    return accepted(attempt(f))


def toy_msgs(k):
    return [bytes([i]) * 32 for i in range(k)]


# ------------------------------------------------------------------ toy
def gen_toy_sign(toy):
    def g(tier, seed):
        return [{"toy": list(toy), "d": d, "nmsg": 4 if tier == "quick" else 12} for d in range(1, toy[1])]

    return g


def run_toy_sign(case):
    from buidl import pecc

    res = Res()
    toy = tuple(case["toy"])
    assert current_toy() == toy and pecc.N == toy[1]
    c = ec.toy_curve(*toy)
    n = c.n
    d = case["d"]
    only = case.get("only")
    vc = lambda x: {"engine": f"toy-sign-{toy[0]}", "toy": list(toy), "case": dict(case, only=x)}
    priv = pecc.PrivateKey(d)
    pk = ec.b32(c.mulg(d)[0])
    cur = {}
    old = pecc.PrivateKey.bip340_k
    pecc.PrivateKey.bip340_k = lambda self, msg, aux=None: cur["k"]
    try:
        for mi, msg in enumerate(toy_msgs(case["nmsg"])):
            for k in range(0, n):
                if only and only != [mi, k]:
                    continue
                cur["k"] = k
                exp = c.schnorr_sign_k(d, msg, k)
                sig = attempt(lambda: priv.sign_schnorr(msg).serialize())
                if exp is None:
                    if not isinstance(sig, Rejected):
                        res.violation("C02/toy-sign/zero-nonce-signed", vc([mi, k]), sig, "failure", "nonce 0 must fail (BIP340)")
                    else:
                        res.ok("nonce 0 refused")
                    continue
                if sig != exp:
                    res.violation("C02/toy-sign/differs", vc([mi, k]), sig, exp, "sign_schnorr differs from BIP340 for this nonce")
                    continue
                assert c.schnorr_verify(pk, msg, exp)
                if not lib_verify(pecc, priv.point, msg, sig):
                    res.violation("C02/toy-sign/own-rejected", vc([mi, k]), False, True, "verify_schnorr rejects own signature")
                    continue
                res.bulk("sign==ref&verifies", 1, 1)
    finally:
        pecc.PrivateKey.bip340_k = old
    # without the seam: nonce derivation (tagged hashes, aux xor, mod n)
    for mi, msg in enumerate(toy_msgs(case["nmsg"])):
        for aux in (None, b"\x00" * 32, b"\xff" * 32, bytes(range(32))):
            if only and only != ["aux", mi, aux and aux.hex()]:
                continue
            exp = c.schnorr_sign(d, msg, aux or b"\x00" * 32)
            sig = attempt(lambda: priv.sign_schnorr(msg, aux).serialize())
            if exp is None:
                if not isinstance(sig, Rejected):
                    res.violation("C02/toy-sign/zero-nonce-signed", vc(["aux", mi, aux and aux.hex()]), sig, "failure", "derived nonce 0 must fail")
                else:
                    res.ok("derived nonce 0 refused (degenerate)")
                continue
            if sig != exp:
                res.violation("C02/toy-sign/aux-differs", vc(["aux", mi, aux and aux.hex()]), sig, exp, "sign_schnorr(msg, aux) differs from BIP340")
            else:
                res.bulk("sign(aux)==ref", 1, 1)
    return res


def gen_toy_verify(toy):
    def g(tier, seed):
        c = ec.toy_curve(*toy)
        cases = []
        nm = 3 if tier == "quick" else 6
        for k in range(1, c.n):
            # all messages on ONE point object in ONE process: a (key, signature) pair accepted under one message
            # is presented again under the others, which exposes verification state kept across calls
            cases.append({"toy": list(toy), "k": k, "mis": list(range(nm))})
        return cases

    return g


def run_toy_verify(case):
    from buidl import pecc

    res = Res()
    toy = tuple(case["toy"])
    assert current_toy() == toy
    c = ec.toy_curve(*toy)
    n, p = c.n, c.p
    only = case.get("only")
    vc = lambda x: {"engine": f"toy-verify-{p}", "toy": list(toy), "case": dict(case, only=x)}
    P = c.mulg(case["k"])  # both parities occur over k
    point = pecc.S256Point(P[0], P[1])
    pk = ec.b32(P[0])
    for mi in case["mis"]:
        msg = toy_msgs(8)[mi]
        for rx in list(range(0, p + 2)) + [2**256 - 1]:
            for s in list(range(0, n + 2)) + [2**256 - 1]:
                if only and only != [mi, rx, s]:
                    continue
                sig = ec.b32(rx) + ec.b32(s)
                exp = c.schnorr_verify(pk, msg, sig)
                got = lib_verify(pecc, point, msg, sig)
                if got != exp:
                    if got:
                        cls = "accepts-s>=n" if s >= n else ("accepts-bad-R" if c.lift_x(rx) is None else "accepts-invalid")
                    else:
                        cls = "rejects-valid"
                    res.violation(f"C02/toy-verify/{cls}", vc([mi, rx, s]), got, exp, "verify_schnorr disagrees with BIP340 (all messages are verified on one point object in one process)")
                else:
                    res.evaluations += 1
                    res.outcomes["accept==ref" if exp else "reject==ref"] += 1
                    res.nontrivial_bulk += 1
    return res


# ------------------------------------------------------------------ real curve
def parity_classes(seed):
    """Walk secrets deterministically until all four (P odd?, R odd?) classes occur for msg0/aux0."""
    c = ec.SECP
    found = {}
    i = 0
    msg = b"\x00" * 32
    while len(found) < 4 and i < 200:
        d = filler_int(seed, "c02secret", i, 1, N - 1)
        P = c.mulg(d)
        k = c.schnorr_nonce(d, msg, b"\x00" * 32)
        R = c.mulg(k)
        found.setdefault((P[1] & 1, R[1] & 1), d)
        i += 1
    return list(found.values())


def gen_real_sign(tier, seed):
    secrets = parity_classes(seed) + [1, 2, N - 1, N - 2, 2**128, 2**255]
    msgs = [b"\x00" * 32, b"\xff" * 32, filler(seed, "c02msg", 0)]
    auxs = [None, b"\x00" * 32, b"\xff" * 32, filler(seed, "c02aux", 0)]
    if tier == "thorough":
        msgs += [filler(seed, "c02msg", i) for i in range(1, 4)]
        secrets += [filler_int(seed, "c02s2", i, 1, N - 1) for i in range(6)]
    # one case per secret: ONE PrivateKey object signs every (message, aux) pair, same message consecutively with
    # different aux values, so state kept on the key object between calls is exposed
    return [{"d": str(d), "pairs": [[m.hex(), a.hex() if a is not None else None] for m in msgs for a in auxs]} for d in secrets]


def run_real_sign(case):
    from buidl import pecc

    res = Res()
    c = ec.SECP
    d = int(case["d"])
    priv = pecc.PrivateKey(d)
    P = c.mulg(d)
    pt = attempt(pecc.S256Point.parse, ec.b32(P[0]))
    for mh, ah in case["pairs"]:
        msg = bytes.fromhex(mh)
        aux = bytes.fromhex(ah) if ah is not None else None
        vc = {"engine": "real-sign", "case": dict(case, pairs=[p for p in case["pairs"] if p[0] == mh][: [p for p in case["pairs"] if p[0] == mh].index([mh, ah]) + 1])}
        exp = c.schnorr_sign(d, msg, aux if aux is not None else b"\x00" * 32)
        sig = attempt(lambda: priv.sign_schnorr(msg, aux).serialize())
        if sig != exp:
            fresh = attempt(lambda: pecc.PrivateKey(d).sign_schnorr(msg, aux).serialize())
            cls = "differs-on-reused-key-object" if fresh == exp else "differs"
            res.violation(f"C02/real-sign/{cls}", vc, sig, exp, "sign_schnorr is not the BIP340 signature" + (" (a fresh key object gives the right one: state kept between calls)" if fresh == exp else ""))
            continue
        k = c.schnorr_nonce(d, msg, aux if aux is not None else b"\x00" * 32)
        R = c.mulg(k)
        res.ok(f"sign==ref(Podd={P[1]&1},Rodd={R[1]&1})", nontrivial=(case["d"], mh, ah), sample={"d": case["d"], "msg": mh, "aux": ah})
        if not lib_verify(pecc, priv.point, msg, sig):
            res.violation("C02/real-sign/own-rejected", vc, False, True, "verify_schnorr rejects own signature")
        else:
            res.ok("verifies")
        # through the x-only parsed key as well
        if isinstance(pt, Rejected) or not lib_verify(pecc, pt, msg, sig):
            res.violation("C02/real-sign/xonly-key-rejected", vc, False, True, "verification under the parsed x-only key fails")
        else:
            res.ok("verifies under parsed x-only key")
    return res


def verify_catalogue(c, d, msg, sig, tier):
    """name -> (pk32, msg, sig64)"""
    P = c.mulg(d)
    pk = ec.b32(P[0])
    out = {"valid": (pk, msg, sig)}
    bits = range(8) if tier == "thorough" else (0,)
    for i in range(64):
        for b in bits:
            bit = (b + i) % 8 if tier == "quick" else b
            m = bytearray(sig)
            m[i] ^= 1 << bit
            out[f"sig-byte{i}-bit{bit}"] = (pk, msg, bytes(m))
    for i in range(32):
        for b in bits:
            bit = (b + i) % 8 if tier == "quick" else b
            m = bytearray(msg)
            m[i] ^= 1 << bit
            out[f"msg-byte{i}-bit{bit}"] = (pk, bytes(m), sig)
    s = int.from_bytes(sig[32:], "big")
    r = sig[:32]
    x_bad = next(x for x in range(1, 100) if c.lift_x(x) is None)
    for nm, rv in (("R=0", 0), ("R=1", 1), ("R=p-1", PP - 1), ("R=p", PP), ("R=2^256-1", 2**256 - 1), ("R-offcurve", x_bad), ("R=Gx", c.g[0])):
        out[nm] = (pk, msg, ec.b32(rv) + sig[32:])
    for nm, sv in (("s=0", 0), ("s=n-1", N - 1), ("s=n", N), ("s=n+1", N + 1), ("s=2^256-1", 2**256 - 1), ("s+n", s + N if s + N < 2**256 else None), ("n-s", N - s)):
        if sv is not None:
            out[nm] = (pk, msg, r + ec.b32(sv))
    other = ec.b32(c.mulg((d * 3 + 1) % N or 2)[0])
    out["otherkey"] = (other, msg, sig)
    out["key-offcurve"] = (ec.b32(x_bad), msg, sig)
    # x-only key 00..00 is not on the curve; (x(sG), s) with even-Y sG would verify if the key were taken as infinity
    sf = next(v for v in range(2, 50) if c.mulg(v)[1] % 2 == 0)
    out["key=0/forgery-R=x(sG)"] = (b"\x00" * 32, msg, ec.b32(c.mulg(sf)[0]) + ec.b32(sf))
    out["key=0"] = (b"\x00" * 32, msg, sig)
    out["key>=p"] = (ec.b32(PP + 1), msg, sig)
    # negated R (odd-Y R with the same x) keeps x: the signature with s for -k must not verify
    out["s-for-negated-nonce"] = (pk, msg, r + ec.b32((N - s) % N))
    return out


def gen_real_verify(tier, seed):
    secrets = parity_classes(seed)
    cases = []
    c = ec.SECP
    for d in secrets:
        msg = filler(seed, "c02vmsg", d % 97)
        sig = c.schnorr_sign(d, msg, b"\x00" * 32)
        names = [nm for nm in verify_catalogue(c, d, msg, sig, tier) if nm != "valid"]
        G = 6
        for i in range(0, len(names), G):
            # the valid triple is verified first in every case, then the deviations, on the same objects
            cases.append({"d": str(d), "msg": msg.hex(), "devs": ["valid"] + names[i : i + G], "tier": tier})
    return cases


def run_real_verify(case):
    from buidl import pecc

    res = Res()
    c = ec.SECP
    d = int(case["d"])
    msg = bytes.fromhex(case["msg"])
    sig = c.schnorr_sign(d, msg, b"\x00" * 32)
    cat = verify_catalogue(c, d, msg, sig, case["tier"])
    P = c.mulg(d)
    shared_point = pecc.S256Point(P[0], P[1])
    for dev in case["devs"]:
        pk, m, s64 = cat[dev]
        exp = c.schnorr_verify(pk, m, s64)
        vc = {"engine": "real-verify", "case": dict(case, devs=["valid", dev] if dev != "valid" else ["valid"])}

        def f():
            point = shared_point if pk == ec.b32(P[0]) else pecc.S256Point.parse(pk)
            sg = pecc.SchnorrSignature.parse(s64)
            return point.verify_schnorr(m, sg)

        got = accepted(attempt(f))
        if got != exp:
            cls = dev.split("-byte")[0]
            res.violation(f"C02/real-verify/{'accepts' if got else 'rejects'}/{cls}", vc, got, exp, "verify_schnorr disagrees with BIP340 on secp256k1 (the valid triple was verified first in the same process)")
        else:
            res.ok(f"verify==ref({exp})", nontrivial=(case["d"], dev) if dev != "valid" else None, sample={"d": case["d"], "dev": dev} if dev in ("s=n", "R=p") else None)
    return res


# ------------------------------------------------------------------ tag cache histories (E2)
TAG_FUNCS = [
    ("hash_aux", b"BIP0340/aux"),
    ("hash_challenge", b"BIP0340/challenge"),
    ("hash_keyaggcoef", b"KeyAgg coefficient"),
    ("hash_keyagglist", b"KeyAgg list"),
    ("hash_musignonce", b"MuSig/noncecoef"),
    ("hash_nonce", b"BIP0340/nonce"),
    ("hash_tapbranch", b"TapBranch"),
    ("hash_tapleaf", b"TapLeaf"),
    ("hash_tapsighash", b"TapSighash"),
    ("hash_taptweak", b"TapTweak"),
]


def gen_tagcache(tier, seed):
    idx = range(len(TAG_FUNCS))
    cases = []
    for dl in (1, 2, 3):
        for h in itertools.product(idx, repeat=dl):
            cases.append({"hist": list(h)})
    return cases


def run_tagcache(case):
    import buidl.hash as bh
    import buidl.phash as ph

    res = Res()
    cache = getattr(ph, "TAG_HASH_CACHE", None)
    if isinstance(cache, dict):
        cache.clear()
    msgs = [b"", b"\x01" * 32, b"abc" * 30]
    for step, i in enumerate(case["hist"]):
        name, tag = TAG_FUNCS[i]
        fn = getattr(bh, name, None) or getattr(ph, name)
        msg = msgs[step % 3]
        t = hashlib.sha256(tag).digest()
        exp = hashlib.sha256(t + t + msg).digest()
        got = attempt(fn, msg)
        res.transitions += 1
        if got != exp:
            res.violation(f"C02/tagcache/{name}", {"engine": "tagcache", "case": case}, got, exp, f"tagged hash wrong at step {step} of history")
            return res
        # generic entry point too
        got2 = attempt(ph.tagged_hash, tag, msg)
        if got2 != exp:
            res.violation(f"C02/tagcache/tagged_hash", {"engine": "tagcache", "case": case}, got2, exp, "tagged_hash(tag, msg) wrong")
            return res
    res.states += 1
    res.ok("history ok", nontrivial=tuple(case["hist"]) if len(set(case["hist"])) > 1 else None, sample=case if len(case["hist"]) == 3 else None)
    return res


def engines(tier, seed):
    toys = [(43, 31)] if tier == "quick" else [(43, 31), (79, 67), (67, 79)]
    es = []
    for toy in toys:
        es.append(Engine(f"toy-sign-{toy[0]}", gen_toy_sign(toy), run_toy_sign, toy=toy, kind="E3", rule=f"toy curve p={toy[0]} n={toy[1]}: every secret x every nonce in [0,n-1] (nonce seam) x messages: 64 bytes == BIP340 reference for that nonce, verifies; plus un-seamed signing over 4 aux values == reference nonce derivation"))
        es.append(Engine(f"toy-verify-{toy[0]}", gen_toy_verify(toy), run_toy_verify, toy=toy, kind="E3", rule=f"toy curve p={toy[0]} n={toy[1]}: every public key (both parities) x messages x R.x in [0,p+1]+{{2^256-1}} x s in [0,n+1]+{{2^256-1}}: SchnorrSignature.parse + verify_schnorr == BIP340 verify, both directions"))
    es += [
        Engine("real-sign", gen_real_sign, run_real_sign, kind="E1", rule="secp256k1: secrets covering all four (P parity, R parity) classes + boundary secrets x messages x aux {None,00,ff,filler}: exact 64 bytes of the BIP340 reference, verifies, also under the parsed x-only key"),
        Engine("real-verify", gen_real_verify, run_real_verify, kind="E1", rule="secp256k1: 4 base signatures x deviation catalogue (bit flips of all 64 signature bytes and 32 message bytes: 1 bit per byte quick / all 8 thorough; R in {0,1,p-1,p,2^256-1,off-curve,Gx}; s in {0,n-1,n,n+1,2^256-1,s+n,n-s}; other/off-curve/out-of-range key): accepted iff the BIP340 reference accepts"),
        Engine("tagcache", gen_tagcache, run_tagcache, kind="E2", rule="every sequence of <= 3 first uses over the 10 tagged-hash functions from an emptied TAG_HASH_CACHE equals sha256(sha256(tag)||sha256(tag)||msg)"),
    ]
    return es
