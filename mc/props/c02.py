"""C02 — BIP340 Schnorr: signatures equal the specification, verification exactly per spec.

E3 toy-sign / toy-sign-aux / toy-verify: whole state space of the toy instantiation.
E1 real-sign: secp256k1, all four (P parity, R parity) classes, exact 64 bytes without any seam.
E1 real-verify: deviation catalogue (bit flips, special R / s values, other key) against the BIP340 reference.
E2 tagcache: every sequence of <= 3 first uses over the 10 tags from an emptied TAG_HASH_CACHE; arbitrary tags
   (empty, prefix of another, equal to another tag's midstate bytes) through tagged_hash, histories <= 3 / 4.
E3 toy-verify also parses every x-only KEY string (kx in [0, 2p+1] + {2^256-1}) before verifying.
E2 toy-history / real-history: every sequence of sign operations over two keys x two messages x two aux values in
   ONE process (state shared between key objects), every signature verified under both keys.
E1 real-keyforms: the other ways to obtain a key object (SEC 02/03/04, negated point, WIF, tweaked key, ...).
E1 nonce-bytes: bip340_k directly, single 00/ff byte at every position of message, aux and secret.
"""
import functools
import hashlib
import itertools

from mc.core import Engine, Res, attempt, Rejected, filler, filler_int, current_toy, H as core_H
from mc.ref import ec

PROP = "C02"
N = ec.SECP.n
PP = ec.SECP.p


def accepted(v):
    return (not isinstance(v, Rejected)) and bool(v)


def lib_verify(pecc, point, msg, sig64):
    """The pipeline a user runs: parse the 64 bytes, verify. Any exception or falsy = rejected."""

    def f():
        sig = pecc.SchnorrSignature.parse(sig64)
        return point.verify_schnorr(msg, sig)

    return accepted(attempt(f))


def toy_msgs(k):
    return [bytes([i]) * 32 for i in range(k)]


# ------------------------------------------------------------------ toy
def gen_toy_sign(toy):
    def g(tier, seed):
        return [{"toy": list(toy), "d": d, "nmsg": 4 if tier == "quick" else 12} for d in range(1, toy[1])]

    return g


def run_toy_sign(case):
    from buidl import pecc

    res = Res()
    toy = tuple(case["toy"])
    assert current_toy() == toy and pecc.N == toy[1]
    c = ec.toy_curve(*toy)
    n = c.n
    d = case["d"]
    only = case.get("only")
    vc = lambda x: {"engine": f"toy-sign-{toy[0]}", "toy": list(toy), "case": dict(case, only=x)}
    priv = pecc.PrivateKey(d)
    pk = ec.b32(c.mulg(d)[0])
    cur = {}
    old = pecc.PrivateKey.bip340_k
    pecc.PrivateKey.bip340_k = lambda self, msg, aux=None: cur["k"]
    try:
        for mi, msg in enumerate(toy_msgs(case["nmsg"])):
            for k in range(0, n):
                if only and only != [mi, k]:
                    continue
                cur["k"] = k
                exp = c.schnorr_sign_k(d, msg, k)
                sig = attempt(lambda: priv.sign_schnorr(msg).serialize())
                if exp is None:
                    if not isinstance(sig, Rejected):
                        res.violation("C02/toy-sign/zero-nonce-signed", vc([mi, k]), sig, "failure", "nonce 0 must fail (BIP340)")
                    else:
                        res.ok("nonce 0 refused")
                    continue
                if sig != exp:
                    res.violation("C02/toy-sign/differs", vc([mi, k]), sig, exp, "sign_schnorr differs from BIP340 for this nonce")
                    continue
                assert c.schnorr_verify(pk, msg, exp)
                if not lib_verify(pecc, priv.point, msg, sig):
                    res.violation("C02/toy-sign/own-rejected", vc([mi, k]), False, True, "verify_schnorr rejects own signature")
                    continue
                res.bulk("sign==ref&verifies", 1, 1)
    finally:
        pecc.PrivateKey.bip340_k = old
    # without the seam: nonce derivation (tagged hashes, aux xor, mod n)
    for mi, msg in enumerate(toy_msgs(case["nmsg"])):
        for aux in (None, b"\x00" * 32, b"\xff" * 32, bytes(range(32))):
            if only and only != ["aux", mi, aux and aux.hex()]:
                continue
            exp = c.schnorr_sign(d, msg, aux or b"\x00" * 32)
            sig = attempt(lambda: priv.sign_schnorr(msg, aux).serialize())
            if exp is None:
                if not isinstance(sig, Rejected):
                    res.violation("C02/toy-sign/zero-nonce-signed", vc(["aux", mi, aux and aux.hex()]), sig, "failure", "derived nonce 0 must fail")
                else:
                    res.ok("derived nonce 0 refused (degenerate)")
                continue
            if sig != exp:
                res.violation("C02/toy-sign/aux-differs", vc(["aux", mi, aux and aux.hex()]), sig, exp, "sign_schnorr(msg, aux) differs from BIP340")
            else:
                res.bulk("sign(aux)==ref", 1, 1)
    return res


def gen_toy_verify(toy):
    def g(tier, seed):
        c = ec.toy_curve(*toy)
        cases = []
        nm = 3 if tier == "quick" else 6
        for k in range(1, c.n):
            # all messages on ONE point object in ONE process: a (key, signature) pair accepted under one message
            # is presented again under the others, which exposes verification state kept across calls
            cases.append({"toy": list(toy), "k": k, "mis": list(range(nm))})
        # the KEY as a 32-byte string through S256Point.parse (x-only) instead of a ready-made point object: every
        # kx in [0, 2p+1] + {2^256-1} (0, off-curve x, x >= p incl. the alias kx = x + p of EVERY valid x) x every (R.x, s)
        for kx in list(range(0, 2 * c.p + 2)) + [2**256 - 1]:
            cases.append({"toy": list(toy), "kx": str(kx), "mis": list(range(1 if tier == "quick" else 2))})
        return cases

    return g


def run_toy_verify_key(case):
    """x-only key string -> S256Point.parse -> verify_schnorr, all (R.x, s), against the BIP340 reference."""
    from buidl import pecc

    res = Res()
    toy = tuple(case["toy"])
    assert current_toy() == toy
    c = ec.toy_curve(*toy)
    n, p = c.n, c.p
    only = case.get("only")
    kx = int(case["kx"])
    pk = ec.b32(kx)
    vc = lambda x: {"engine": f"toy-verify-{p}", "toy": list(toy), "case": dict(case, only=x)}
    point = attempt(pecc.S256Point.parse, pk)  # one parsed key object verifies every signature of the case
    for mi in case["mis"]:
        msg = toy_msgs(8)[mi]
        for rx in list(range(0, p + 2)) + [2**256 - 1]:
            for s in list(range(0, n + 2)) + [2**256 - 1]:
                if only and only != [mi, rx, s]:
                    continue
                sig = ec.b32(rx) + ec.b32(s)
                exp = c.schnorr_verify(pk, msg, sig)
                got = False if isinstance(point, Rejected) else lib_verify(pecc, point, msg, sig)
                if got != exp:
                    if not got:
                        cls = "rejects-valid"
                    elif kx >= p:
                        cls = "accepts-key>=p"
                    elif c.lift_x(kx) is None:
                        cls = "accepts-key-not-on-curve"
                    else:
                        cls = "accepts-s>=n" if s >= n else ("accepts-bad-R" if c.lift_x(rx) is None else "accepts-invalid")
                    res.violation(f"C02/toy-verify/key-bytes/{cls}", vc([mi, rx, s]), got, exp, "S256Point.parse(32-byte key) + verify_schnorr disagrees with BIP340")
                else:
                    res.evaluations += 1
                    res.outcomes["key-bytes:accept==ref" if exp else "key-bytes:reject==ref"] += 1
                    res.nontrivial_bulk += 1
    return res


def run_toy_verify(case):
    from buidl import pecc

    if "kx" in case:
        return run_toy_verify_key(case)
    res = Res()
    toy = tuple(case["toy"])
    assert current_toy() == toy
    c = ec.toy_curve(*toy)
    n, p = c.n, c.p
    only = case.get("only")
    vc = lambda x: {"engine": f"toy-verify-{p}", "toy": list(toy), "case": dict(case, only=x)}
    P = c.mulg(case["k"])  # both parities occur over k
    point = pecc.S256Point(P[0], P[1])
    pk = ec.b32(P[0])
    for mi in case["mis"]:
        msg = toy_msgs(8)[mi]
        # under the first message R.x also runs over [p+2, 2p+1]: the alias x + p of every valid x coordinate
        for rx in list(range(0, (2 * p if mi == case["mis"][0] else p) + 2)) + [2**256 - 1]:
            for s in list(range(0, n + 2)) + [2**256 - 1]:
                if only and only != [mi, rx, s]:
                    continue
                sig = ec.b32(rx) + ec.b32(s)
                exp = c.schnorr_verify(pk, msg, sig)
                got = lib_verify(pecc, point, msg, sig)
                if got != exp:
                    if got:
                        cls = "accepts-s>=n" if s >= n else ("accepts-bad-R" if c.lift_x(rx) is None else "accepts-invalid")
                    else:
                        cls = "rejects-valid"
                    res.violation(f"C02/toy-verify/{cls}", vc([mi, rx, s]), got, exp, "verify_schnorr disagrees with BIP340 (all messages are verified on one point object in one process)")
                else:
                    res.evaluations += 1
                    res.outcomes["accept==ref" if exp else "reject==ref"] += 1
                    res.nontrivial_bulk += 1
    return res


# ------------------------------------------------------------------ sign histories over several key objects (E2)
HIST_OPS = [[i, j, k] for i in (0, 1) for j in (0, 1) for k in (0, 1)]  # (key, message, aux) of one sign operation


def histories(maxlen):
    out = []
    for dl in range(1, maxlen + 1):
        out += [list(h) for h in itertools.product(range(len(HIST_OPS)), repeat=dl)]
    return out


def hist_values(salt):
    """Messages / aux values of one history: private to it, so that histories do not disturb each other."""
    return [core_H("c02hist-msg", salt, j) for j in (0, 1)], [core_H("c02hist-aux", salt, k) for k in (0, 1)]


def run_history(pecc, c, engine, ds, hist, salt, res, vc):
    """Execute one history on TWO key objects created once; after every sign operation the signature is verified under
    the signing key and under the other key.  Everything is compared with the reference.  Returns False on violation."""
    msgs, auxs = hist_values(salt)
    keys = [pecc.PrivateKey(d) for d in ds]
    pks = [ec.b32(c.mulg(d)[0]) for d in ds]
    for step, oi in enumerate(hist):
        i, j, k = HIST_OPS[oi]
        msg, aux = msgs[j], auxs[k]
        exp = c.schnorr_sign(ds[i], msg, aux)
        sig = attempt(lambda: keys[i].sign_schnorr(msg, aux).serialize())
        res.transitions += 1
        if exp is None:  # derived nonce 0 (toy curves only)
            if not isinstance(sig, Rejected):
                res.violation(f"C02/{engine}/zero-nonce-signed", vc(hist[: step + 1]), sig, "failure", "derived nonce 0 must fail")
                return False
            res.ok("derived nonce 0 refused (degenerate)")
            continue
        if sig != exp:
            prev = [HIST_OPS[o] for o in hist[:step]]
            if not prev:
                cls = "first-operation"
            elif any(q[0] != i and (q[1] == j or q[2] == k) for q in prev):
                cls = "after-other-key-signed-same-msg-or-aux"
            elif any(q[0] == i for q in prev):
                cls = "after-same-key-signed"
            else:
                cls = "after-other-key-signed"
            res.violation(f"C02/{engine}/sign-differs/{cls}", vc(hist[: step + 1]), sig, exp, "sign_schnorr is not the BIP340 signature at the last step of this history (all operations in one process, key objects created once)")
            return False
        res.ok("sign==ref")
        for who in (i, 1 - i):
            expv = c.schnorr_verify(pks[who], msg, sig)
            got = lib_verify(pecc, keys[who].point, msg, sig)
            if got != expv:
                cls = ("own-key-rejects" if who == i else "other-key-rejects") if expv else "other-key-accepts"
                res.violation(f"C02/{engine}/verify/{cls}", vc(hist[: step + 1]), got, expv, "verify_schnorr disagrees with BIP340 inside a sign/verify history")
                return False
            res.ok("verify==ref(True)" if expv else "verify==ref(False)")
    res.states += 1
    return True


def gen_toy_history(toy):
    def g(tier, seed):
        n = toy[1]
        cases = []
        for d0 in range(1, n):
            # the next secret, and the negated secret (same x-only key, same even secret: identical signatures expected)
            for d1 in sorted({d0 % (n - 1) + 1, n - d0} - {d0}):
                cases.append({"toy": list(toy), "ds": [d0, d1], "maxlen": 2 if tier == "quick" else 3})
        return cases

    return g


def run_toy_history(case):
    from buidl import pecc

    res = Res()
    toy = tuple(case["toy"])
    assert current_toy() == toy and pecc.N == toy[1]
    c = ec.toy_curve(*toy)
    name = f"toy-history-{toy[0]}"
    only = case.get("only")
    for hist in [only] if only else histories(case["maxlen"]):
        # a violating prefix is replayed with the message/aux values of the full history it was found in
        salt = (case.get("salt") if only else None) or f"{case['ds']}/{hist}"
        vc = lambda h: {"engine": name, "toy": list(toy), "case": dict(case, only=h, salt=salt)}
        if run_history(pecc, c, name, case["ds"], hist, salt, res, vc):
            res.nontrivial_bulk += 1 if len(hist) > 1 else 0
    return res


def gen_real_history(tier, seed):
    c = ec.SECP
    ds = parity_classes(seed)
    even = next(d for d in ds if c.mulg(d)[1] % 2 == 0)
    odd = next(d for d in ds if c.mulg(d)[1] % 2 == 1)
    return [{"ds": [str(even), str(odd)], "hist": h, "seed": seed} for h in histories(2 if tier == "quick" else 3)]


def run_real_history(case):
    from buidl import pecc

    res = Res()
    # a violating prefix is replayed with the message/aux values of the full history it was found in
    salt = case.get("salt") or f"{case['seed']}/{case['hist']}"
    run_history(pecc, ec.SECP, "real-history", [int(d) for d in case["ds"]], case["hist"], salt, res, lambda h: {"engine": "real-history", "case": dict(case, hist=h, salt=salt)})
    if not res.n_violations and len(case["hist"]) > 1:
        res.nontrivial.add(core_H(repr(case["hist"]))[:8])
    return res


# ------------------------------------------------------------------ real curve
def parity_classes(seed):
    """Walk secrets deterministically until all four (P odd?, R odd?) classes occur for msg0/aux0."""
    c = ec.SECP
    found = {}
    i = 0
    msg = b"\x00" * 32
    while len(found) < 4 and i < 200:
        d = filler_int(seed, "c02secret", i, 1, N - 1)
        P = c.mulg(d)
        k = c.schnorr_nonce(d, msg, b"\x00" * 32)
        R = c.mulg(k)
        found.setdefault((P[1] & 1, R[1] & 1), d)
        i += 1
    return list(found.values())


@functools.lru_cache(maxsize=None)
def leading_zero_msgs(seed, d):
    """Deterministic search, with the reference only: the first messages filler(seed, "c02lz", i), i = 0, 1, ... whose
    BIP340 signature under secret d (aux = 00..00) has s < 2^248 resp. R.x < 2^248 (a leading zero byte in the
    32-byte field).  Returns {"s": msg, "R": msg}."""
    c = ec.SECP
    P = c.mulg(d)
    dd = d if P[1] % 2 == 0 else N - d
    t = bytes(a ^ b for a, b in zip(ec.b32(dd), ec.tagged("BIP0340/aux", b"\x00" * 32)))
    out = {}
    for i in range(20000):
        msg = filler(seed, "c02lz", i)
        k0 = int.from_bytes(ec.tagged("BIP0340/nonce", t + ec.b32(P[0]) + msg), "big") % N
        if k0 == 0:
            continue
        R = c.mulg(k0)
        k = k0 if R[1] % 2 == 0 else N - k0
        e = int.from_bytes(ec.tagged("BIP0340/challenge", ec.b32(R[0]) + ec.b32(P[0]) + msg), "big") % N
        s = (k + e * dd) % N
        if s < 2**248:
            out.setdefault("s", msg)
        if R[0] < 2**248:
            out.setdefault("R", msg)
        if len(out) == 2:
            break
    assert len(out) == 2, "no leading-zero signature within 20000 messages"
    for kind, msg in out.items():  # the search is only a shortcut: the full reference must agree
        sig = c.schnorr_sign(d, msg, b"\x00" * 32)
        assert sig[32 if kind == "s" else 0] == 0
    return out


def leading_zero_secrets(tier, seed):
    c = ec.SECP
    ds = parity_classes(seed)
    odd = next(d for d in ds if c.mulg(d)[1] % 2 == 1)
    even = next(d for d in ds if c.mulg(d)[1] % 2 == 0)
    return [odd] if tier == "quick" else [odd, even]


def gen_real_sign(tier, seed):
    cases = gen_real_sign_base(tier, seed)
    # signatures with a leading zero byte in s resp. R.x (fixed-width serialisation), found with the reference
    z = "00" * 32
    for d in leading_zero_secrets(tier, seed):
        lz = leading_zero_msgs(seed, d)
        cases.append({"d": str(d), "pairs": [[lz["s"].hex(), z], [lz["R"].hex(), z], [lz["s"].hex(), None]], "lz": True})
    return cases


def gen_real_sign_base(tier, seed):
    secrets = parity_classes(seed) + [1, 2, N - 1, N - 2, 2**128, 2**255]
    msgs = [b"\x00" * 32, b"\xff" * 32, filler(seed, "c02msg", 0)]
    auxs = [None, b"\x00" * 32, b"\xff" * 32, filler(seed, "c02aux", 0)]
    if tier == "thorough":
        msgs += [filler(seed, "c02msg", i) for i in range(1, 4)]
        secrets += [filler_int(seed, "c02s2", i, 1, N - 1) for i in range(6)]
    # one case per secret: ONE PrivateKey object signs every (message, aux) pair, same message consecutively with
    # different aux values, so state kept on the key object between calls is exposed
    return [{"d": str(d), "pairs": [[m.hex(), a.hex() if a is not None else None] for m in msgs for a in auxs]} for d in secrets]


def run_real_sign(case):
    from buidl import pecc

    res = Res()
    c = ec.SECP
    d = int(case["d"])
    priv = pecc.PrivateKey(d)
    P = c.mulg(d)
    pt = attempt(pecc.S256Point.parse, ec.b32(P[0]))
    for mh, ah in case["pairs"]:
        msg = bytes.fromhex(mh)
        aux = bytes.fromhex(ah) if ah is not None else None
        vc = {"engine": "real-sign", "case": dict(case, pairs=[p for p in case["pairs"] if p[0] == mh][: [p for p in case["pairs"] if p[0] == mh].index([mh, ah]) + 1])}
        exp = c.schnorr_sign(d, msg, aux if aux is not None else b"\x00" * 32)
        sig = attempt(lambda: priv.sign_schnorr(msg, aux).serialize())
        if sig != exp:
            fresh = attempt(lambda: pecc.PrivateKey(d).sign_schnorr(msg, aux).serialize())
            cls = "differs-on-reused-key-object" if fresh == exp else "differs"
            res.violation(f"C02/real-sign/{cls}", vc, sig, exp, "sign_schnorr is not the BIP340 signature" + (" (a fresh key object gives the right one: state kept between calls)" if fresh == exp else ""))
            continue
        k = c.schnorr_nonce(d, msg, aux if aux is not None else b"\x00" * 32)
        R = c.mulg(k)
        res.ok(f"sign==ref(Podd={P[1]&1},Rodd={R[1]&1})", nontrivial=(case["d"], mh, ah), sample={"d": case["d"], "msg": mh, "aux": ah})
        if exp[0] == 0 or exp[32] == 0:
            res.ok("sign==ref with a leading zero byte in " + ("R.x" if exp[0] == 0 else "s"), nontrivial=("lz", case["d"], mh, ah))
        if not lib_verify(pecc, priv.point, msg, sig):
            res.violation("C02/real-sign/own-rejected", vc, False, True, "verify_schnorr rejects own signature")
        else:
            res.ok("verifies")
        # through the x-only parsed key as well
        if isinstance(pt, Rejected) or not lib_verify(pecc, pt, msg, sig):
            res.violation("C02/real-sign/xonly-key-rejected", vc, False, True, "verification under the parsed x-only key fails")
        else:
            res.ok("verifies under parsed x-only key")
    return res


def verify_catalogue(c, d, msg, sig, tier):
    """name -> (pk32, msg, sig64)"""
    P = c.mulg(d)
    pk = ec.b32(P[0])
    out = {"valid": (pk, msg, sig)}
    bits = range(8) if tier == "thorough" else (0,)
    for i in range(64):
        for b in bits:
            bit = (b + i) % 8 if tier == "quick" else b
            m = bytearray(sig)
            m[i] ^= 1 << bit
            out[f"sig-byte{i}-bit{bit}"] = (pk, msg, bytes(m))
    for i in range(32):
        for b in bits:
            bit = (b + i) % 8 if tier == "quick" else b
            m = bytearray(msg)
            m[i] ^= 1 << bit
            out[f"msg-byte{i}-bit{bit}"] = (pk, bytes(m), sig)
    s = int.from_bytes(sig[32:], "big")
    r = sig[:32]
    x_bad = next(x for x in range(1, 100) if c.lift_x(x) is None)
    for nm, rv in (("R=0", 0), ("R=1", 1), ("R=p-1", PP - 1), ("R=p", PP), ("R=2^256-1", 2**256 - 1), ("R-offcurve", x_bad), ("R=Gx", c.g[0])):
        out[nm] = (pk, msg, ec.b32(rv) + sig[32:])
    for nm, sv in (("s=0", 0), ("s=n-1", N - 1), ("s=n", N), ("s=n+1", N + 1), ("s=2^256-1", 2**256 - 1), ("s+n", s + N if s + N < 2**256 else None), ("n-s", N - s)):
        if sv is not None:
            out[nm] = (pk, msg, r + ec.b32(sv))
    other = ec.b32(c.mulg((d * 3 + 1) % N or 2)[0])
    out["otherkey"] = (other, msg, sig)
    out["key-offcurve"] = (ec.b32(x_bad), msg, sig)
    # x-only key 00..00 is not on the curve; (x(sG), s) with even-Y sG would verify if the key were taken as infinity
    sf = next(v for v in range(2, 50) if c.mulg(v)[1] % 2 == 0)
    out["key=0/forgery-R=x(sG)"] = (b"\x00" * 32, msg, ec.b32(c.mulg(sf)[0]) + ec.b32(sf))
    out["key=0"] = (b"\x00" * 32, msg, sig)
    out["key>=p"] = (ec.b32(PP + 1), msg, sig)
    # negated R (odd-Y R with the same x) keeps x: the signature with s for -k must not verify
    out["s-for-negated-nonce"] = (pk, msg, r + ec.b32((N - s) % N))
    # forgeries that need the secret (the verifier's three structural checks on the real curve):
    dd = d if P[1] % 2 == 0 else N - d
    k0 = c.schnorr_nonce(d, msg, b"\x00" * 32)
    Rk = c.mulg(k0)
    k_even, k_odd = (k0, N - k0) if Rk[1] % 2 == 0 else (N - k0, k0)
    e = int.from_bytes(ec.tagged("BIP0340/challenge", r + pk + msg), "big") % N
    # s*G - e*P = k_odd*G: the right x coordinate with ODD y
    out["forge-oddY-R"] = (pk, msg, r + ec.b32((k_odd + e * dd) % N))
    # signer used the secret of the odd-Y key (no even-Y normalisation of d)
    out["forge-unnormalised-secret"] = (pk, msg, r + ec.b32((k_even + e * (N - dd)) % N))
    # s*G - e*P = infinity
    out["forge-result-infinity"] = (pk, msg, r + ec.b32(e * dd % N))
    # altered key: single-bit flips of the 32 key bytes (about half are not x coordinates, the rest are other keys)
    for i in range(32):
        for b in bits:
            bit = (b + i) % 8 if tier == "quick" else b
            m = bytearray(pk)
            m[i] ^= 1 << bit
            out[f"key-byte{i}-bit{bit}"] = (bytes(m), msg, sig)
    return out


def gen_real_verify(tier, seed):
    secrets = parity_classes(seed)
    cases = []
    c = ec.SECP
    bases = [(d, filler(seed, "c02vmsg", d % 97)) for d in secrets]
    # base signatures with a leading zero byte in s resp. R.x
    for d in leading_zero_secrets(tier, seed):
        lz = leading_zero_msgs(seed, d)
        bases += [(d, lz["s"]), (d, lz["R"])]
    for d, msg in bases:
        sig = c.schnorr_sign(d, msg, b"\x00" * 32)
        names = [nm for nm in verify_catalogue(c, d, msg, sig, tier) if nm != "valid"]
        G = 6
        for i in range(0, len(names), G):
            # the valid triple is verified first in every case, then the deviations, on the same objects
            cases.append({"d": str(d), "msg": msg.hex(), "devs": ["valid"] + names[i : i + G], "tier": tier})
    return cases


def run_real_verify(case):
    from buidl import pecc

    res = Res()
    c = ec.SECP
    d = int(case["d"])
    msg = bytes.fromhex(case["msg"])
    sig = c.schnorr_sign(d, msg, b"\x00" * 32)
    cat = verify_catalogue(c, d, msg, sig, case["tier"])
    P = c.mulg(d)
    shared_point = pecc.S256Point(P[0], P[1])
    for dev in case["devs"]:
        pk, m, s64 = cat[dev]
        exp = c.schnorr_verify(pk, m, s64)
        vc = {"engine": "real-verify", "case": dict(case, devs=["valid", dev] if dev != "valid" else ["valid"])}

        def f():
            point = shared_point if pk == ec.b32(P[0]) else pecc.S256Point.parse(pk)
            sg = pecc.SchnorrSignature.parse(s64)
            return point.verify_schnorr(m, sg)

        got = accepted(attempt(f))
        if got != exp:
            cls = dev.split("-byte")[0]
            res.violation(f"C02/real-verify/{'accepts' if got else 'rejects'}/{cls}", vc, got, exp, "verify_schnorr disagrees with BIP340 on secp256k1 (the valid triple was verified first in the same process)")
        else:
            res.ok(f"verify==ref({exp})", nontrivial=(case["d"], case["msg"], dev) if dev != "valid" else None, sample={"d": case["d"], "dev": dev} if dev in ("s=n", "R=p") else None)
        # the same 64 bytes as a hand-built signature object: SchnorrSignature(R, s) with R given as the even-y and
        # as the odd-y point of that x (both serialise to the same bytes, so BIP340's verdict on the bytes is the oracle)
        rx, sv = int.from_bytes(s64[:32], "big"), int.from_bytes(s64[32:], "big")
        lifted = c.lift_x(rx) if rx < PP else None
        if lifted is not None and dev.split("-byte")[0] in ("valid", "n-s", "s-for-negated-nonce", "forge-oddY-R", "forge-unnormalised-secret", "forge-result-infinity", "otherkey", "s=0", "s=n-1", "msg", "R=Gx"):
            for par, Rp in (("evenY", lifted), ("oddY", (lifted[0], PP - lifted[1]))):

                def g(Rp=Rp):
                    point = shared_point if pk == ec.b32(P[0]) else pecc.S256Point.parse(pk)
                    sg = pecc.SchnorrSignature(pecc.S256Point(Rp[0], Rp[1]), sv)
                    if sg.serialize() != s64:
                        return None  # the object does not stand for these bytes: nothing to compare
                    return point.verify_schnorr(m, sg)

                got2 = accepted(attempt(g))
                if got2 and not exp:
                    res.violation(f"C02/real-verify/accepts/signature-object-R-{par}/{dev.split('-byte')[0]}", vc, got2, exp, f"verify_schnorr accepts a SchnorrSignature object built from the {par} point of R.x and s whose 64-byte serialisation BIP340 rejects")
                elif exp and not got2 and par == "evenY":
                    res.violation(f"C02/real-verify/rejects/signature-object-R-{par}/{dev.split('-byte')[0]}", vc, got2, exp, "verify_schnorr rejects a SchnorrSignature object (R given as its even-y point) whose serialisation BIP340 accepts")
                else:
                    res.ok(f"sig-object-{par}==ref({exp})", nontrivial=(case["d"], case["msg"], dev, par))
    return res


# ------------------------------------------------------------------ other forms of the key objects
SIGN_FORMS = ["ctor-uncompressed-testnet", "wif", "wif-uncompressed-testnet", "tweaked", "tweaked-merkle"]
VERIFY_FORMS = ["xonly", "sec02", "sec03", "sec04", "sec04-negated", "ctor-int", "ctor-field", "negated", "even_point", "privkey-point", "sum"]


def gen_real_keyforms(tier, seed):
    secrets = parity_classes(seed)
    if tier == "thorough":
        secrets = secrets + [2, N - 2] + [filler_int(seed, "c02kf", i, 1, N - 1) for i in range(2)]
    return [{"d": str(d), "form": f, "seed": seed} for d in secrets for f in SIGN_FORMS + VERIFY_FORMS]


def run_real_keyforms(case):
    from buidl import pecc

    res = Res()
    c = ec.SECP
    d = int(case["d"])
    form = case["form"]
    seed = case["seed"]
    msg = filler(seed, "c02kf-msg", 0)
    aux = filler(seed, "c02kf-aux", 0)
    vc = {"engine": "real-keyforms", "case": case}
    if form in SIGN_FORMS:
        PK = pecc.PrivateKey
        mk = {
            "ctor-uncompressed-testnet": lambda: PK(d, network="testnet", compressed=False),
            "wif": lambda: PK.parse(PK(d).wif(compressed=True)),
            "wif-uncompressed-testnet": lambda: PK.parse(PK(d, network="testnet").wif(compressed=False)),
            "tweaked": lambda: PK(d).tweaked_key(),
            "tweaked-merkle": lambda: PK(d).tweaked_key(merkle_root=filler(seed, "c02kf-root", 0)),
        }[form]
        key = attempt(mk)
        sec = None if isinstance(key, Rejected) else getattr(key, "secret", None)
        if form.startswith("tweaked"):
            # which secret the tweaked key must have is C12's business; here: whatever private key it is, it signs per BIP340
            if not (isinstance(sec, int) and 1 <= sec <= N - 1):
                res.skip("tweaked_key gave no private key in [1, n-1] (C12)")
                return res
        elif sec != d:
            res.skip("WIF / constructor did not give back the secret (C09)")
            return res
        exp = c.schnorr_sign(sec, msg, aux)
        sig = attempt(lambda: key.sign_schnorr(msg, aux).serialize())
        if sig != exp:
            res.violation(f"C02/real-keyforms/sign-differs/{form}", vc, sig, exp, "sign_schnorr of a key object obtained this way is not the BIP340 signature of its secret")
            return res
        res.ok(f"sign==ref({form})", nontrivial=(case["d"], form))
        pk = ec.b32(c.mulg(sec)[0])
        for via, fn in (("key.point", lambda: key.point), ("parsed x-only", lambda: pecc.S256Point.parse(pk))):
            pt = attempt(fn)
            if isinstance(pt, Rejected) or not lib_verify(pecc, pt, msg, sig):
                res.violation(f"C02/real-keyforms/own-rejected/{form}", vc, False, True, f"signature does not verify under {via}")
            else:
                res.ok("verifies")
        return res
    P = c.mulg(d)
    x, y = P
    Pn = (x, c.p - y)
    mk = {
        "xonly": lambda: pecc.S256Point.parse(ec.b32(x)),
        "sec02": lambda: pecc.S256Point.parse(b"\x02" + ec.b32(x)),
        "sec03": lambda: pecc.S256Point.parse(b"\x03" + ec.b32(x)),
        "sec04": lambda: pecc.S256Point.parse(c.sec(P, compressed=False)),
        "sec04-negated": lambda: pecc.S256Point.parse(c.sec(Pn, compressed=False)),
        "ctor-int": lambda: pecc.S256Point(x, y),
        "ctor-field": lambda: pecc.S256Point(pecc.S256Field(x), pecc.S256Field(c.p - y)),
        "negated": lambda: -1 * pecc.S256Point(x, y),
        "even_point": lambda: pecc.S256Point(x, y).even_point(),
        "privkey-point": lambda: pecc.PrivateKey(N - d).point,
        "sum": lambda: pecc.S256Point(*c.mulg((d - 1) % N or 2)) + pecc.S256Point(*c.mulg(1 if (d - 1) % N else N - 1)),
    }[form]
    pt = attempt(mk)
    if isinstance(pt, Rejected):
        res.skip(f"key object form {form} not constructible (C03)")
        return res
    # every form is a point with x coordinate x, y of either parity: BIP340 verification under the x-only key x
    pk = ec.b32(x)
    sig = c.schnorr_sign(d, msg, aux)
    s = int.from_bytes(sig[32:], "big")
    flipped = bytes([msg[0] ^ 1]) + msg[1:]
    for nm, (m, sg) in (("valid", (msg, sig)), ("msg-bit", (flipped, sig)), ("n-s", (msg, sig[:32] + ec.b32(N - s))), ("valid-again", (msg, sig))):
        exp = c.schnorr_verify(pk, m, sg)
        got = lib_verify(pecc, pt, m, sg)
        if got != exp:
            res.violation(f"C02/real-keyforms/verify/{'accepts' if got else 'rejects'}/{form}", dict(vc, dev=nm), got, exp, "verify_schnorr on a point object obtained this way disagrees with BIP340 under its x-only key")
        else:
            res.ok(f"verify==ref({exp})", nontrivial=(case["d"], form, nm))
    return res


# ------------------------------------------------------------------ nonce derivation, byte positions
def byte_variants(base):
    """base with byte i forced to 00 and to ff, for every position i."""
    out = []
    for i in range(32):
        for v in (0, 0xFF):
            b = bytearray(base)
            b[i] = v
            out.append(bytes(b))
    return out


def gen_nonce_bytes(tier, seed):
    cases = [{"d": str(d), "kind": "msg+aux", "seed": seed} for d in parity_classes(seed) + [1, N - 1]]
    # secrets with a single non-zero byte (01 / ff) at every position
    for i in range(32):
        for v in (1, 0xFF):
            d = v << (8 * i)
            if 1 <= d <= N - 1:
                cases.append({"d": str(d), "kind": "secret", "seed": seed})
    return cases


def run_nonce_bytes(case):
    from buidl import pecc

    res = Res()
    c = ec.SECP
    d = int(case["d"])
    seed = case["seed"]
    if not hasattr(pecc.PrivateKey, "bip340_k"):
        res.skip("PrivateKey.bip340_k does not exist (nonce derivation then covered through sign_schnorr only)")
        return res
    key = pecc.PrivateKey(d)
    m0, a0 = filler(seed, "c02nb-msg", 0), filler(seed, "c02nb-aux", 0)
    if case["kind"] == "secret":
        todo = [("secret", m0, a0), ("secret", b"\x00" * 32, b"\x00" * 32), ("secret", b"\xff" * 32, b"\xff" * 32)]
    else:
        todo = [("msg", m, a0) for m in byte_variants(m0)] + [("aux", m0, a) for a in byte_variants(a0)]
    P = c.mulg(d)
    dd = d if P[1] % 2 == 0 else N - d
    for what, m, a in todo:
        t = bytes(u ^ v for u, v in zip(ec.b32(dd), ec.tagged("BIP0340/aux", a)))
        k0 = int.from_bytes(ec.tagged("BIP0340/nonce", t + ec.b32(P[0]) + m), "big") % N
        k = attempt(key.bip340_k, m, a)
        # k and n - k give the same signature (R is normalised to even Y afterwards): both are the specified nonce
        if isinstance(k, Rejected) or not isinstance(k, int) or k % N not in (k0, N - k0):
            res.violation(f"C02/nonce-bytes/{what}", {"engine": "nonce-bytes", "case": case, "msg": m.hex(), "aux": a.hex()}, k, k0, "bip340_k is not the BIP340 nonce int(hash_nonce(bytes(d) xor hash_aux(a) || bytes(P) || m)) mod n (up to sign)")
            break
        res.ok(f"nonce==ref({what})", nontrivial=(case["d"], what, m, a))
    return res


# ------------------------------------------------------------------ tag cache histories (E2)
TAG_FUNCS = [
    ("hash_aux", b"BIP0340/aux"),
    ("hash_challenge", b"BIP0340/challenge"),
    ("hash_keyaggcoef", b"KeyAgg coefficient"),
    ("hash_keyagglist", b"KeyAgg list"),
    ("hash_musignonce", b"MuSig/noncecoef"),
    ("hash_nonce", b"BIP0340/nonce"),
    ("hash_tapbranch", b"TapBranch"),
    ("hash_tapleaf", b"TapLeaf"),
    ("hash_tapsighash", b"TapSighash"),
    ("hash_taptweak", b"TapTweak"),
]


def gen_tagcache(tier, seed):
    idx = range(len(TAG_FUNCS))
    cases = []
    for dl in (1, 2, 3):
        for h in itertools.product(idx, repeat=dl):
            cases.append({"hist": list(h)})
    # arbitrary tags through tagged_hash: every history of <= 3 uses over the 8 WIDE_TAGS, of exactly 4 over the first 4
    for dl in (1, 2, 3):
        for h in itertools.product(range(len(WIDE_TAGS)), repeat=dl):
            cases.append({"wide": list(h)})
    for h in itertools.product(range(4), repeat=4):
        cases.append({"wide": list(h)})
    return cases


_TL = hashlib.sha256(b"TapLeaf").digest()
WIDE_TAGS = [
    b"",  # empty tag
    b"Tap",  # proper prefix of TapLeaf / TapBranch / ...
    b"TapLeaf",
    _TL + _TL,  # the 64 bytes a cache holds for TapLeaf, used as a tag themselves
    b"TapLeaf\x00",  # a tag extended by a zero byte
    b"BIP0340/aux",  # same length as the next one
    b"KeyAgg list",
    _TL,  # sha256(tag) of another tag as a tag
]


def run_tagcache_wide(case):
    import buidl.hash as bh
    import buidl.phash as ph

    res = Res()
    cache = getattr(ph, "TAG_HASH_CACHE", None)
    if isinstance(cache, dict):
        cache.clear()
    named = {tag: name for name, tag in TAG_FUNCS}
    msgs = [b"", b"\x01" * 32, b"abc" * 30, b"\xff"]
    for step, i in enumerate(case["wide"]):
        tag = WIDE_TAGS[i]
        msg = msgs[step % 4]
        t = hashlib.sha256(tag).digest()
        exp = hashlib.sha256(t + t + msg).digest()
        res.transitions += 1
        # an equal tag object with another identity each time, and a second call on the now cached tag
        for rep in (0, 1):
            got = attempt(ph.tagged_hash, bytes(bytearray(tag)), msg)
            if got != exp:
                cls = "first-use" if step == 0 and rep == 0 else ("repeated-use" if rep or i in case["wide"][:step] else "after-other-tags")
                res.violation(f"C02/tagcache/wide/{cls}", {"engine": "tagcache", "case": dict(case, wide=case["wide"][: step + 1])}, got, exp, f"tagged_hash({tag!r}, msg) wrong at step {step} of the history")
                return res
        if tag in named:
            fn = getattr(bh, named[tag], None) or getattr(ph, named[tag])
            got = attempt(fn, msg)
            if got != exp:
                res.violation(f"C02/tagcache/{named[tag]}", {"engine": "tagcache", "case": dict(case, wide=case["wide"][: step + 1])}, got, exp, f"tagged hash function wrong at step {step} of a history with arbitrary tags")
                return res
    res.states += 1
    res.ok("wide history ok", nontrivial=("wide", tuple(case["wide"])) if len(set(case["wide"])) > 1 else None, sample=case if len(case["wide"]) == 4 and len(set(case["wide"])) == 4 else None)
    return res


def run_tagcache(case):
    import buidl.hash as bh
    import buidl.phash as ph

    if "wide" in case:
        return run_tagcache_wide(case)
    res = Res()
    cache = getattr(ph, "TAG_HASH_CACHE", None)
    if isinstance(cache, dict):
        cache.clear()
    msgs = [b"", b"\x01" * 32, b"abc" * 30]
    for step, i in enumerate(case["hist"]):
        name, tag = TAG_FUNCS[i]
        fn = getattr(bh, name, None) or getattr(ph, name)
        msg = msgs[step % 3]
        t = hashlib.sha256(tag).digest()
        exp = hashlib.sha256(t + t + msg).digest()
        got = attempt(fn, msg)
        res.transitions += 1
        if got != exp:
            res.violation(f"C02/tagcache/{name}", {"engine": "tagcache", "case": case}, got, exp, f"tagged hash wrong at step {step} of history")
            return res
        # generic entry point too
        got2 = attempt(ph.tagged_hash, tag, msg)
        if got2 != exp:
            res.violation(f"C02/tagcache/tagged_hash", {"engine": "tagcache", "case": case}, got2, exp, "tagged_hash(tag, msg) wrong")
            return res
    res.states += 1
    res.ok("history ok", nontrivial=tuple(case["hist"]) if len(set(case["hist"])) > 1 else None, sample=case if len(case["hist"]) == 3 else None)
    return res


def engines(tier, seed):
    toys = [(43, 31)] if tier == "quick" else [(43, 31), (79, 67), (67, 79)]
    hl = 2 if tier == "quick" else 3
    es = []
    for toy in toys:
        es.append(Engine(f"toy-sign-{toy[0]}", gen_toy_sign(toy), run_toy_sign, toy=toy, kind="E3", rule=f"toy curve p={toy[0]} n={toy[1]}: every secret x every nonce in [0,n-1] (nonce seam) x messages: 64 bytes == BIP340 reference for that nonce, verifies; plus un-seamed signing over 4 aux values == reference nonce derivation"))
        es.append(Engine(f"toy-verify-{toy[0]}", gen_toy_verify(toy), run_toy_verify, toy=toy, kind="E3", rule=f"toy curve p={toy[0]} n={toy[1]}: every public key (both parities) x messages x R.x in [0,p+1]+{{2^256-1}} (first message: [0,2p+1], the alias x+p of every valid x) x s in [0,n+1]+{{2^256-1}}: SchnorrSignature.parse + verify_schnorr == BIP340 verify, both directions; plus the key as a 32-byte string through S256Point.parse: every kx in [0,2p+1]+{{2^256-1}} (0, off-curve, >= p incl. the alias x+p of every valid x) x {'1 message' if tier == 'quick' else '2 messages'} x the same (R.x, s) grid == BIP340 verify of those bytes"))
        es.append(Engine(f"toy-history-{toy[0]}", gen_toy_history(toy), run_toy_history, toy=toy, kind="E2", rule=f"toy curve p={toy[0]} n={toy[1]}: every secret d0 paired with d0+1 and with n-d0 (same x-only key): every sequence of <= {hl} sign operations over the alphabet (key 0/1, message 0/1, aux 0/1) on two key objects created once, in one process; after each operation the 64 bytes == BIP340 reference and the signature is verified under both keys == BIP340 verify"))
    es += [
        Engine("real-sign", gen_real_sign, run_real_sign, kind="E1", rule="secp256k1 (each deviation also as a hand-built SchnorrSignature(R, s) object with R given as the even-y and as the odd-y point of its x, judged by the 64 bytes the object serialises to): secrets covering all four (P parity, R parity) classes + boundary secrets x messages x aux {None,00,ff,filler}: exact 64 bytes of the BIP340 reference, verifies, also under the parsed x-only key; plus, for an odd-Y secret (thorough: also an even-Y one), the first filler messages whose reference signature has s < 2^248 resp. R.x < 2^248 (leading zero byte, deterministic reference-only search)"),
        Engine("real-verify", gen_real_verify, run_real_verify, kind="E1", rule="secp256k1 (each deviation also as a hand-built SchnorrSignature(R, s) object with R given as the even-y and as the odd-y point of its x, judged by the 64 bytes the object serialises to): base signatures (4 parity classes + 2 per leading-zero secret with a leading zero byte in s resp. R.x) x deviation catalogue (bit flips of all 64 signature bytes, 32 message bytes and 32 key bytes: 1 bit per byte quick / all 8 thorough; R in {0,1,p-1,p,2^256-1,off-curve,Gx}; s in {0,n-1,n,n+1,2^256-1,s+n,n-s}; other/off-curve/out-of-range key; forgeries computed from the secret: odd-Y R with matching s, s for the un-normalised secret, s*G - e*P = infinity): accepted iff the BIP340 reference accepts"),
        Engine("real-history", gen_real_history, run_real_history, kind="E2", rule=f"secp256k1: one even-Y and one odd-Y secret: every sequence of <= {hl} sign operations over the alphabet (key 0/1, message 0/1, aux 0/1), both key objects created once per sequence, all operations in one process; after each operation the 64 bytes == BIP340 reference and the signature is verified under both keys == BIP340 verify"),
        Engine("real-keyforms", gen_real_keyforms, run_real_keyforms, kind="E1", rule="secp256k1 (each deviation also as a hand-built SchnorrSignature(R, s) object with R given as the even-y and as the odd-y point of its x, judged by the 64 bytes the object serialises to): 4 parity-class secrets (thorough: +4) x ways to obtain the key object: signing keys {uncompressed/testnet constructor, WIF round trip compressed and uncompressed/testnet, tweaked_key() without and with merkle root}: 64 bytes == BIP340 reference for the object's secret, verifies under key.point and the parsed x-only key; verifying points {x-only, SEC 02, 03, 04, 04 of the negated point, int and field constructors, -1*P, even_point(), PrivateKey(n-d).point, (d-1)G+G}: valid / message bit / n-s / valid again == BIP340 verify under the x-only key"),
        Engine("nonce-bytes", gen_nonce_bytes, run_nonce_bytes, kind="E1", rule="secp256k1, PrivateKey.bip340_k directly (no curve arithmetic): 6 secrets x (message with byte i forced to 00 / ff, i = 0..31; aux likewise) and secrets 01<<8i, ff<<8i (i = 0..31, below n) x 3 (message, aux) pairs: k mod n in {k0, n-k0} for the BIP340 nonce k0 = int(hash_nonce(bytes(d) xor hash_aux(aux) || bytes(P) || m)) mod n (both give the same signature)"),
        Engine("tagcache", gen_tagcache, run_tagcache, kind="E2", rule="every sequence of <= 3 first uses over the 10 tagged-hash functions from an emptied TAG_HASH_CACHE equals sha256(sha256(tag)||sha256(tag)||msg); plus tagged_hash with arbitrary tags {empty, 'Tap', 'TapLeaf', the 64 midstate bytes of TapLeaf, 'TapLeaf\\x00', two 11-byte tags, sha256('TapLeaf')}: every history of <= 3 uses over these 8 and of exactly 4 over the first 4, each use twice with a fresh equal bytes object"),
    ]
    return es
