"""C16 - wsh(sortedmulti) descriptors: text + Core checksum, round trip, corruption detection,
address derivation, supply-order independence, receive != change.

E1 `text`       : wallets (m-of-n x network x account index x SLIP-132 assignment x origin-path style)
                  -> str(P2WSHSortedMulti) / key_records / checksum against the reference; parse(text)
                  reproduces the descriptor; every one of the n! supply orders yields the same state.
E1 `address`    : wallets x address index x {receive, change}, built through the constructor and through
                  parse() of a descriptor whose records are NOT in xpub order; get_address against the
                  reference P2WSH of the BIP67-sorted child keys; receive != change.
E1 `subst`      : every single-character substitution (95-character descriptor alphabet) at every position
                  of body and checksum of several descriptors must be rejected.  HDPublicKey.child is
                  memoised by the harness in this engine only (see _Memo).
E1 `subst-real` : the same sweep with the library completely untouched (no memoisation) on fewer descriptors.
"""
import itertools

from mc.core import Engine, Res, attempt, Rejected, filler, filler_int
from mc.ref import descref

PROP = "C16"
MAXI = 2**31 - 1

# ------------------------------------------------------------------------------- key material
_POOLS = {}


def _raw_key(seed, label, i):
    k = filler_int(seed, "c16-key/" + label, i, 1, descref.SECP.n - 1)
    return {
        "point": descref.SECP.mulg(k),
        "cc": filler(seed, "c16-cc/" + label, i, 32),
        "pfp": filler(seed, "c16-pfp/" + label, i, 4),
        "xfp": filler(seed, "c16-xfp/" + label, i, 4).hex(),
    }


def _xpub(key, version_hex):
    return descref.xpub_encode(version_hex, 4, key["pfp"], 0x80000002, key["cc"], key["point"])


def key_pool(seed, pool_id, count=6):
    """Deterministic walk over filler-derived key sets: the first set whose first two keys have
    (a) child-key order at (receive, 0) opposite to their xpub order and (b) xfp order opposite to
    their xpub order, so that 'children not re-sorted' / 'sorted by the wrong field' are visible in
    every wallet with n >= 2 whatever the seed."""
    ck = (seed, pool_id, count)
    if ck in _POOLS:
        return _POOLS[ck]
    j = 0
    while True:
        keys = [_raw_key(seed, f"{pool_id}/{j}", i) for i in range(count)]
        two = [{"xfp": k["xfp"], "path": "m", "xpub": _xpub(k, "043587cf"), "idx": 0} for k in keys[:2]]
        srt = descref.norm_records(two)
        ch = descref.child_keys(srt, 0, 0)
        if ch is not None and ch[0] > ch[1] and srt[0]["xfp"] > srt[1]["xfp"] and len({k["xfp"] for k in keys}) == count:
            _POOLS[ck] = keys
            return keys
        j += 1


SLIP = {  # kind -> network -> version
    "std": {"mainnet": "0488b21e", "testnet": "043587cf"},
    "p2sh-segwit": {"mainnet": "049d7cb2", "testnet": "044a5262"},  # ypub / upub
    "segwit": {"mainnet": "04b24746", "testnet": "045f1cf6"},  # zpub / vpub
    "p2sh-multisig": {"mainnet": "0295b43f", "testnet": "024289ef"},  # Ypub / Upub
    "multisig": {"mainnet": "02aa7ed3", "testnet": "02575483"},  # Zpub / Vpub
}
ACCTS = {
    "0": [0] * 6,
    "1": [1] * 6,
    "max-1": [MAXI - 1] * 6,
    "max": [MAXI] * 6,
    "mixed": [0, 1, MAXI - 1, 5, 1, 0],
}
PATHS = {
    "h": lambda coin, i: f"m/48h/{coin}h/0h/2h",
    "apos": lambda coin, i: f"m/48'/{coin}'/0'/2'",
    "root": lambda coin, i: "m",
    "long": lambda coin, i: f"m/48h/{coin}h/{i}h/2h/2147483647/0/{i}",
    "mixedstyle": lambda coin, i: [f"m/48h/{coin}'/0h/2'", "m", f"m/45'/{i}", f"m/48h/{coin}h/0h/2h"][i % 4],
}


def make_wallet(seed, pool_id, m, n, net, acct, ver, path):
    """ver = 'std' | '<kind>:all' | '<kind>:first' | '<kind>:last' (which record, in canonical
    order, is supplied with a SLIP-132 prefix)."""
    keys = key_pool(seed, pool_id)[:n]
    coin = 0 if net == "mainnet" else 1
    std = SLIP["std"][net]
    order = sorted(range(n), key=lambda i: _xpub(keys[i], std))  # canonical rank
    kind, _, which = ver.partition(":")
    recs = []
    for i, k in enumerate(keys):
        v = std
        if kind != "std" and (which == "all" or (which == "first" and order[0] == i) or (which == "last" and order[-1] == i)):
            v = SLIP[kind][net]
        recs.append({"xfp": k["xfp"], "path": PATHS[path](coin, i), "xpub": _xpub(k, v), "idx": ACCTS[acct][i]})
    return {
        "m": m,
        "recs": recs,
        "net": net,
        "tag": f"{m}of{n}/{net}/acct={acct}/ver={ver}/path={path}/pool={pool_id}",
        "slip": "std" if kind == "std" else "slip132",
    }


def mn_pairs(nmax):
    return [(m, n) for n in range(1, nmax + 1) for m in range(1, n + 1)]


def lib_records(recs):
    return [{"xfp": r["xfp"], "path": r["path"], "xpub_parent": r["xpub"], "account_index": r["idx"]} for r in recs]


def expected_state(m, recs, ordered=None):
    """What a descriptor object over these records must contain (canonical order unless given)."""
    o = descref.norm_records(recs) if ordered is None else ordered
    body = descref.body_text(m, o)
    chk = descref.descriptor_checksum(body)
    return {
        "str": body + "#" + chk,
        "m": m,
        "key_records": [{"path": r["path"], "xfp": r["xfp"], "xpub_parent": r["xpub"], "account_index": r["idx"]} for r in o],
        "network": descref.wallet_network(recs),
        "checksum": chk,
    }


def state_of(d):
    return {
        "str": str(d),
        "m": d.quorum_m,
        "key_records": [dict(k) for k in d.key_records],
        "network": d.network,
        "checksum": d.checksum,
    }


def diff_class(got, exp):
    """Coarse class of a state mismatch (for fingerprints)."""
    if isinstance(got, Rejected):
        return "rejected"
    gb, _, gc = got["str"].partition("#")
    eb, _, ec_ = exp["str"].partition("#")
    if gb == eb and gc != ec_:
        return "checksum"
    if gb != eb:
        pre = len("wsh(sortedmulti(")
        gi, ei = gb[pre:-2].split(","), eb[pre:-2].split(",")
        if gi[0] == ei[0] and gi[1:] != ei[1:] and sorted(gi[1:]) == sorted(ei[1:]):
            return "record-order"
        return "body"
    for k in ("key_records", "network", "m", "checksum"):
        if got[k] != exp[k]:
            return "attr-" + k
    return "other"


# ------------------------------------------------------------------------------- engine: text
def gen_text(tier, seed):
    cases = []
    thorough = tier == "thorough"
    nmax = 6 if thorough else 4
    kinds = ["multisig", "segwit"] + (["p2sh-multisig", "p2sh-segwit"] if thorough else [])
    vers = ["std"] + [f"{k}:{w}" for k in kinds for w in ("all", "first", "last")]
    pools = ["A", "B"] if thorough else ["A"]
    for pool in pools:
        for m, n in mn_pairs(nmax):
            for net in ("testnet", "mainnet"):
                seen = set()

                def add(acct, ver, path, perms):
                    key = (acct, ver, path)
                    if key in seen:
                        return
                    seen.add(key)
                    cases.append({"w": make_wallet(seed, pool, m, n, net, acct, ver, path), "perms": perms})

                full = thorough and pool == "A"
                # base origin path: account classes x version assignments, all n! supply orders
                for acct in ACCTS:
                    for ver in vers if (full or acct == "0") else ["std"]:
                        add(acct, ver, "h", "all" if n <= 5 or (full and acct in ("0", "mixed")) else "rot")
                # other path styles (x version assignments: thorough everywhere, quick on two shapes)
                product = full or (m, n) in ((1, 2), (2, 3))
                for acct in ("0", "max-1") if full else ("0",):
                    for path in PATHS:
                        for ver in vers if product else ["std"]:
                            add(acct, ver, path, "all" if n <= 4 else "rot")
    return cases


def perm_list(n, mode):
    if mode == "all":
        return [list(p) for p in itertools.permutations(range(n))]
    out = [list(range(n))[k:] + list(range(n))[:k] for k in range(n)]
    out += [list(reversed(p)) for p in out]
    uniq = []
    for p in out:
        if p not in uniq:
            uniq.append(p)
    return uniq


def run_text(case):
    from buidl.descriptor import P2WSHSortedMulti

    res = Res()
    w = case["w"]
    m, recs, tag, slip = w["m"], w["recs"], w["tag"], w["slip"]
    n = len(recs)
    vc = {"engine": "text", "case": case}
    exp = expected_state(m, recs)
    canon = descref.norm_records(recs)
    xfp_sorted = sorted(canon, key=lambda r: r["xfp"]) != canon
    raw_sorted = [descref.xpub_standardise(r["xpub"]) for r in sorted(recs, key=lambda r: r["xpub"])] != [r["xpub"] for r in canon]

    # 1. construction: text, checksum, state
    d = attempt(P2WSHSortedMulti, m, lib_records(recs))
    got = d if isinstance(d, Rejected) else attempt(state_of, d)
    ctor_bad = None
    if got != exp:
        ctor_bad = diff_class(got, exp)
        res.violation(
            f"C16/text/construct-{ctor_bad}/{slip}", vc, got if isinstance(got, Rejected) else got["str"], exp["str"],
            "descriptor built from key records differs from the reference text / Core checksum / canonical record order",
        )
    else:
        res.ok(
            "construct==ref",
            nontrivial=("construct", tag),
            sample={"wallet": tag, "str": exp["str"][:60] + "..." + exp["str"][-12:], "xfp_order_differs": xfp_sorted, "raw_string_order_differs": raw_sorted},
        )

    # 2. parse(text) reproduces the descriptor
    p = attempt(P2WSHSortedMulti.parse, exp["str"])
    gotp = p if isinstance(p, Rejected) else attempt(state_of, p)
    if isinstance(gotp, Rejected):
        qual = w["tag"].split("/")[4] if ctor_bad is None else f"with-construct-{ctor_bad}"
        res.violation(f"C16/text/parse-rejected/{qual}", vc, repr(gotp), exp["str"], "parse() rejects the canonical descriptor text with its correct checksum")
    elif gotp != exp:
        res.violation(f"C16/text/parse-{diff_class(gotp, exp)}/{slip}", vc, gotp["str"], exp["str"], "parse(text) does not reproduce the descriptor")
    else:
        res.ok("parse(text)==descriptor", nontrivial=("parse", tag))

    # 3. state is independent of the order in which key records are supplied
    # (compared with the reference state, or - when construction already deviates from the reference -
    #  with the state the library itself produced for the first supply order, to isolate order dependence)
    if ctor_bad is not None:
        if isinstance(got, Rejected):
            return res
        exp = got
    base = lib_records(recs)
    canon_perm = [[r["xfp"] for r in recs].index(c["xfp"]) for c in canon]
    bad = None
    cnt = nt = 0
    for perm in perm_list(n, case["perms"]):
        dp = attempt(P2WSHSortedMulti, m, [base[i] for i in perm])
        gp = dp if isinstance(dp, Rejected) else attempt(state_of, dp)
        if gp != exp:
            bad = bad or (perm, gp)
        else:
            cnt += 1
            nt += 1 if perm != canon_perm else 0
    if bad:
        perm, gp = bad
        res.violation(
            f"C16/text/order-dependent-{diff_class(gp, exp)}/{slip}", {"engine": "text", "case": case, "perm": perm}, gp if isinstance(gp, Rejected) else gp["str"], exp["str"],
            "descriptor state depends on the order in which key records were supplied",
        )
    res.bulk("supply-order->same-state", cnt, nt)
    return res


# ------------------------------------------------------------------------------- engine: address
IDX_QUICK = [0, 1, MAXI]
IDX_FULL = [0, 1, 2, 255, 256, 65535, 65536, MAXI - 1, MAXI]


def gen_address(tier, seed):
    cases = []
    thorough = tier == "thorough"
    nmax = 6 if thorough else 4
    for m, n in mn_pairs(nmax):
        for net in ("testnet", "mainnet"):
            combos = [("0", "std", "h", IDX_FULL if thorough else IDX_QUICK)]
            if thorough or (net == "testnet" and (m, n) in ((1, 1), (1, 2), (2, 3), (3, 4))):
                combos += [(a, "std", "h", IDX_QUICK) for a in ("1", "max-1", "max", "mixed")]
            if thorough or (net == "mainnet" and (m, n) in ((1, 2), (2, 3))):
                combos += [("0", "multisig:last", "apos", IDX_QUICK)]
            if thorough:
                combos += [("mixed", "segwit:all", "long", IDX_QUICK)]
            done = set()
            for pool in ("A", "B") if thorough else ("A",):
                for acct, ver, path, idxs in combos:
                    if pool == "B" and acct != "0":
                        continue
                    for i in idxs:
                        if (pool, acct, ver, path, i) in done:
                            continue
                        done.add((pool, acct, ver, path, i))
                        cases.append({"w": make_wallet(seed, pool, m, n, net, acct, ver, path), "index": i, "route": "ctor", "perm": None})
    # supply-order independence of the address, both routes, every permutation
    pmax = 4 if thorough else 3
    for m, n in mn_pairs(pmax):
        if n < 2:
            continue
        for net in ("testnet", "mainnet") if thorough else ("testnet",):
            for acct, index in (("0", 0), ("mixed", 1)) if thorough else (("0", 1),):
                w = make_wallet(seed, "A", m, n, net, acct, "std", "h")
                for perm in itertools.permutations(range(n)):
                    for route in ("ctor", "parse"):
                        cases.append({"w": w, "index": index, "route": route, "perm": list(perm)})
    return cases


def run_address(case):
    from buidl.descriptor import P2WSHSortedMulti

    res = Res()
    w, index, route = case["w"], case["index"], case["route"]
    m, recs, tag = w["m"], w["recs"], w["tag"]
    n = len(recs)
    vc = {"engine": "address", "case": case}
    supplied = [recs[i] for i in case["perm"]] if case["perm"] else recs
    canon = descref.norm_records(recs)
    if route == "ctor":
        d = attempt(P2WSHSortedMulti, m, lib_records(supplied))
        held = canon  # order in which the object must hold the records
    else:
        # a well-formed descriptor whose records are not in xpub order (e.g. exported by other software)
        held = [dict(r, xpub=descref.xpub_standardise(r["xpub"])) for r in supplied]
        body = descref.body_text(m, held)
        d = attempt(P2WSHSortedMulti.parse, body + "#" + descref.descriptor_checksum(body))
    if isinstance(d, Rejected):
        res.violation(f"C16/address/{route}-rejected", vc, repr(d), "descriptor object", "valid wallet rejected")
        return res
    got = {}
    for branch in (0, 1):
        bname = "change" if branch else "receive"
        exp = descref.address(m, recs, branch, index)
        if exp is None:
            res.skip("account index 2^31-1: the change branch (account index + 1) is outside the BIP32 non-hardened range")
            continue
        a = attempt(d.get_address, index, bool(branch))
        got[branch] = a
        if a != exp:
            keys = descref.child_keys(held, branch, index)
            hyp = "other"
            if isinstance(a, Rejected) or not a:
                top = max(r["idx"] for r in recs) + branch
                hyp = "rejected" + ("-index=2^31-1" if index == MAXI else "") + (f"-account={top}" if top >= MAXI - 1 else "")
            elif a == descref.segwit_v0_address(descref.HRP[w["net"]], descref.sha256(descref.multisig_script(m, keys))):
                hyp = "children-in-record-order"
            elif a == descref.address(m, recs, 1 - branch, index):
                hyp = "other-branch"
            elif any(a == descref.address(mm, recs, branch, index) for mm in range(1, n + 1) if mm != m):
                hyp = "wrong-threshold"
            elif a == descref.segwit_v0_address(descref.HRP["mainnet" if w["net"] == "testnet" else "testnet"], descref.sha256(descref.multisig_script(m, sorted(keys)))):
                hyp = "wrong-network"
            res.violation(
                f"C16/address/{bname}-{hyp}", vc, a, exp,
                f"get_address({index}, is_change={bool(branch)}) is not the P2WSH of the {m}-of-{n} script over the sorted child keys",
            )
        else:
            keys = descref.child_keys(held, branch, index)
            reorder = keys != sorted(keys)
            res.ok(
                f"address==ref({bname})",
                nontrivial=(tag, route, tuple(case["perm"] or ()), branch, index) if (reorder or case["perm"]) else None,
                sample={"wallet": tag, "route": route, "branch": bname, "index": index, "address": a, "child_order_differs_from_record_order": reorder} if reorder and index else None,
            )
    if len(got) == 2 and not isinstance(got[0], Rejected) and not isinstance(got[1], Rejected):
        if got[0] == got[1]:
            res.violation("C16/address/receive==change", vc, got, "different addresses", "receive and change address coincide at the same index")
        else:
            res.ok("receive!=change")
        # no receive address of the index alphabet is a change address of the alphabet (reference side for the others)
        others = IDX_FULL
        clash = [j for j in others if descref.address(m, recs, 1, j) == got[0] or descref.address(m, recs, 0, j) == got[1]]
        if clash:
            res.violation("C16/address/branches-overlap", vc, {"index": index, "clash_with": clash}, "disjoint", "a receive address equals a change address at another index")
        else:
            res.ok("branches-disjoint-over-index-alphabet")
    return res


# ------------------------------------------------------------------------------- engine: substitution
class _Memo:
    """Harness-side memoisation of HDPublicKey.child for the substitution sweeps.

    parse() derives one child key (one 44 ms scalar multiplication) per key record before the
    checksum is compared, and the sweep presents the same (parent key, index) pairs tens of
    thousands of times.  child() is a pure function of the attributes in the cache key; the first
    call for every distinct key executes the real code, later calls get a fresh HDPublicKey built
    from the remembered attributes.  Nothing else of the library is touched; `subst-real` and the
    `address`/`text` engines run the library without it."""

    cache = {}

    def __enter__(self):
        import buidl.hd as hd

        self.hd = hd
        self.orig = orig = hd.HDPublicKey.child
        cache = self.cache

        def child(self_, index):
            key = (self_.point.sec(), self_.chain_code, self_.depth, self_.parent_fingerprint, self_.child_number, self_.network, self_.pub_version, index)
            hit = cache.get(key)
            if hit is None:
                c = orig(self_, index)  # exceptions propagate and are not cached
                hit = (c.point, c.chain_code, c.depth, c.parent_fingerprint, c.child_number, c.network, c.pub_version)
                cache[key] = hit
            return hd.HDPublicKey(point=hit[0], chain_code=hit[1], depth=hit[2], parent_fingerprint=hit[3], child_number=hit[4], network=hit[5], pub_version=hit[6])

        hd.HDPublicKey.child = child
        return self

    def __exit__(self, *a):
        self.hd.HDPublicKey.child = self.orig


class _NoMemo:
    def __enter__(self):
        return self

    def __exit__(self, *a):
        pass


def subst_wallets(tier, seed, real):
    """(id, wallet) list.  Features are spread over the descriptors: both networks, both hardened
    markers, empty / long origin paths, 1- and 10-digit account indexes."""
    s1 = ("1of1-testnet", make_wallet(seed, "A", 1, 1, "testnet", "0", "std", "h"))
    s2 = ("1of2-mainnet-apos-acct2147483646", make_wallet(seed, "A", 1, 2, "mainnet", "max-1", "std", "apos"))
    s3 = ("2of3-testnet-mixedstyle-acct1", make_wallet(seed, "A", 2, 3, "testnet", "1", "std", "mixedstyle"))
    if real:
        return [s1] if tier == "quick" else [s1, s2]
    out = [s1, s2, s3]
    if tier == "thorough":
        out += [
            ("2of2-testnet-long-mixedacct", make_wallet(seed, "B", 2, 2, "testnet", "mixed", "std", "long")),
            ("1of4-mainnet-root", make_wallet(seed, "B", 1, 4, "mainnet", "0", "std", "root")),
            ("3of5-mainnet-h", make_wallet(seed, "A", 3, 5, "mainnet", "0", "std", "h")),
            ("6of6-testnet-apos-mixedacct", make_wallet(seed, "A", 6, 6, "testnet", "mixed", "std", "apos")),
        ]
    return out


def gen_subst(real):
    def gen(tier, seed):
        cases = []
        for wid, w in subst_wallets(tier, seed, real):
            text = expected_state(w["m"], w["recs"])["str"]
            for pos in range(len(text)):
                cases.append({"wid": wid, "w": w, "pos": pos})
        return cases

    return gen


def run_subst(real):
    ename = "subst-real" if real else "subst"

    def run(case):
        from buidl.descriptor import P2WSHSortedMulti

        res = Res()
        w, pos = case["w"], case["pos"]
        canon = descref.norm_records(w["recs"])
        exp = expected_state(w["m"], w["recs"])
        text = exp["str"]
        region = descref.regions(w["m"], canon)[pos]
        vc = {"engine": ename, "case": case}
        with (_NoMemo() if real else _Memo()):
            # 0 deviations: the honest text must be accepted and reproduce the descriptor
            if pos == 0 or not real:
                p = attempt(P2WSHSortedMulti.parse, text)
                gp = p if isinstance(p, Rejected) else attempt(state_of, p)
                if gp != exp:
                    res.violation(f"C16/{ename}/honest-text-not-reproduced", vc, gp if isinstance(gp, Rejected) else gp["str"], text, "uncorrupted descriptor rejected or changed by parse()")
                    return res
                res.ok("honest-accepted")
            if region == "hash":
                res.skip("'#' separator replaced: the text no longer carries a checksum (same descriptor without one); outside 'body or checksum'", len(descref.INPUT_CHARSET) - 1)
                return res
            n_rej = n_only_checksum = 0
            for ch in descref.INPUT_CHARSET:
                if ch == text[pos]:
                    continue
                s = text[:pos] + ch + text[pos + 1 :]
                r = attempt(P2WSHSortedMulti.parse, s)
                if isinstance(r, Rejected) or r is None or r is False:
                    n_rej += 1
                    if descref.strict_parse(s) is not None:
                        n_only_checksum += 1  # well-formed: only the checksum stands between it and acceptance
                    continue
                if descref.accepts(s):
                    res.ok("benign(reference-accepts)")
                    continue
                gs = attempt(state_of, r)
                same = (not isinstance(gs, Rejected)) and gs == exp
                cls = "whitespace" if ch == " " else "backslash" if ch == "\\" else "bech32-char" if ch in descref.CHECKSUM_CHARSET else "other-char"
                res.violation(
                    f"C16/{ename}/accepted-{region}-{'same' if same else 'different'}-descriptor/{cls}",
                    {"engine": ename, "case": case, "char": ch, "corrupted": s},
                    gs if isinstance(gs, Rejected) else gs["str"],
                    "rejected",
                    f"descriptor with character {pos} ({region}) '{text[pos]}' replaced by '{ch}' is accepted",
                )
            res.bulk(f"rejected[{region}]", n_rej, n_only_checksum)
            if n_only_checksum and len(res.samples) < 1:
                res.samples.append({"descriptor": case["wid"], "pos": pos, "region": region, "substitutions_rejected": n_rej, "of_which_only_the_checksum_rejects": n_only_checksum})
        return res

    return run


# ------------------------------------------------------------------------------- engines
def engines(tier, seed):
    return [
        Engine(
            "text",
            gen_text,
            run_text,
            kind="E1",
            rule="wallets = every 1<=m<=n<=4 (thorough 6) x {testnet, mainnet} x account index {0,1,2^31-2,2^31-1,mixed per cosigner} x SLIP-132 assignment "
            "{std, {Zpub/Vpub, zpub/vpub (+Ypub/Upub, ypub/upub thorough)} x {all, canonical-first, canonical-last record}} x origin-path style {h, ', empty, long with 2^31-1, mixed}. "
            "Quick: account classes, version assignments and path styles each varied from the base wallet, version x path product on 1-of-2 and 2-of-3; thorough: account x version product on the "
            "base path, version x path product at accounts 0 and 2^31-2, plus a second key pool with the quick scheme. Keys come from a deterministic walk so that xfp order and child-key order "
            "are opposite to xpub order. Checks: str/key_records/network/checksum == reference (Core checksum; canonical record order = ascending standardised xpub, the library's documented "
            "convention), parse(text) == descriptor, and every one of the n! supply orders (2n rotations/reversals for some 6-key wallets and for n>=5 on non-base paths) gives the identical state. "
            "Non-trivial = distinct wallet for construct/parse; supply order that is not already canonical",
        ),
        Engine(
            "address",
            gen_address,
            run_address,
            kind="E1",
            chunk=1,
            rule="wallets (every m-of-n, both networks, account classes, one SLIP-132 variant) x index {0,1,2^31-1} (thorough {0,1,2,255,256,65535,65536,2^31-2,2^31-1} at the base wallet) x {receive, change}: "
            "get_address == reference P2WSH (BIP32 public CKD over mc.ref.ec, BIP67 sort, bech32); receive != change, and neither collides with the other branch over the index alphabet; "
            "plus every permutation of the key records for n<=3 (thorough 4) through the constructor and through parse() of a descriptor whose records are in that (non-canonical) order. "
            "Non-trivial = child-key order differs from the order of the stored records, or a permuted supply order",
        ),
        Engine(
            "subst",
            gen_subst(False),
            run_subst(False),
            kind="E1",
            rule="one case per character position of 'body#checksum' of 3 descriptors (thorough 7: 1-of-1 .. 6-of-6, both networks, h and ' markers, empty/long origin paths, 1- and 10-digit "
            "account indexes): all 94 other characters of the 95-character descriptor alphabet are substituted and P2WSHSortedMulti.parse must raise; the '#' position is skipped (out of statement). "
            "HDPublicKey.child is memoised by the harness (pure function; first call per distinct (parent, index) runs the real code). Non-trivial = the corrupted text is still a strictly "
            "well-formed descriptor, i.e. only the checksum comparison can reject it",
        ),
        Engine(
            "subst-real",
            gen_subst(True),
            run_subst(True),
            kind="E1",
            chunk=1,
            rule="same sweep with the library untouched (no memoisation): the 1-of-1 descriptor in the quick tier, 1-of-1 + 1-of-2 (10-digit account index) in the thorough tier",
        ),
    ]
