"""C16 - wsh(sortedmulti) descriptors: text + Core checksum, round trip, corruption detection,
address derivation, supply-order independence, receive != change.

E1 `text`       : wallets (m-of-n x network x account index x SLIP-132 assignment x origin-path style)
                  -> str(P2WSHSortedMulti) / key_records / checksum against the reference; parse(text)
                  reproduces the descriptor; every one of the n! supply orders yields the same state.
E1 `address`    : wallets x address index x {receive, change}, built through the constructor and through
                  parse() of a descriptor whose records are NOT in xpub order; get_address against the
                  reference P2WSH of the BIP67-sorted child keys; receive != change.
E1 `subst`      : every single-character substitution (95-character descriptor alphabet) at every position
                  of body and checksum of several descriptors must be rejected.  HDPublicKey.child is
                  memoised by the harness in this engine only (see _Memo).
E1 `subst-real` : the same sweep with the library completely untouched (no memoisation) on fewer descriptors.
E1 `spelling`   : non-Core spellings of fingerprint / origin path accepted by the constructor must stay self-consistent
                  (own text accepted and reproduced by parse, fingerprint printed lower case as Core does).
E2 `history`    : all get_address call sequences (length 3) on one object and interleaved over objects sharing xpubs.
E1 `keyrecord`  : parse_full/partial/any_key_record on all version kinds, and string -> record -> descriptor.
E1 `ties`       : one xpub at several account indexes: every supply order, address invariance.
E1 `slipmix`    : full product of per-record SLIP-132 kinds.   E1 `xpubfields`: boundary depth / child number / parent fp.
E1 `checksum`   : calc_core_checksum on every short string.    E1 `index`: byte boundaries of account x address index.
E1 `ctor-checksum`: the constructor's checksum argument.
"""
import itertools

from mc.core import Engine, Res, attempt, Rejected, filler, filler_int
from mc.ref import descref

PROP = "C16"
MAXI = 2**31 - 1

# ------------------------------------------------------------------------------- key material
_POOLS = {}


def _raw_key(seed, label, i):
    k = filler_int(seed, "c16-key/" + label, i, 1, descref.SECP.n - 1)
    return {
        "point": descref.SECP.mulg(k),
        "cc": filler(seed, "c16-cc/" + label, i, 32),
        "pfp": filler(seed, "c16-pfp/" + label, i, 4),
        "xfp": filler(seed, "c16-xfp/" + label, i, 4).hex(),
    }


def _xpub(key, version_hex):
    return descref.xpub_encode(version_hex, 4, key["pfp"], 0x80000002, key["cc"], key["point"])


def key_pool(seed, pool_id, count=6):
    """Deterministic walk over filler-derived key sets: the first set whose first two keys have
    (a) child-key order at (receive, 0) opposite to their xpub order and (b) xfp order opposite to
    their xpub order, so that 'children not re-sorted' / 'sorted by the wrong field' are visible in
    every wallet with n >= 2 whatever the seed."""
    ck = (seed, pool_id, count)
    if ck in _POOLS:
        return _POOLS[ck]
    j = 0
    while True:
        keys = [_raw_key(seed, f"{pool_id}/{j}", i) for i in range(count)]
        two = [{"xfp": k["xfp"], "path": "m", "xpub": _xpub(k, "043587cf"), "idx": 0} for k in keys[:2]]
        srt = descref.norm_records(two)
        ch = descref.child_keys(srt, 0, 0)
        if ch is not None and ch[0] > ch[1] and srt[0]["xfp"] > srt[1]["xfp"] and len({k["xfp"] for k in keys}) == count:
            _POOLS[ck] = keys
            return keys
        j += 1


SLIP = {  # kind -> network -> version
    "std": {"mainnet": "0488b21e", "testnet": "043587cf"},
    "p2sh-segwit": {"mainnet": "049d7cb2", "testnet": "044a5262"},  # ypub / upub
    "segwit": {"mainnet": "04b24746", "testnet": "045f1cf6"},  # zpub / vpub
    "p2sh-multisig": {"mainnet": "0295b43f", "testnet": "024289ef"},  # Ypub / Upub
    "multisig": {"mainnet": "02aa7ed3", "testnet": "02575483"},  # Zpub / Vpub
}
ACCTS = {
    "0": [0] * 6,
    "1": [1] * 6,
    "max-1": [MAXI - 1] * 6,
    "max": [MAXI] * 6,
    "mixed": [0, 1, MAXI - 1, 5, 1, 0],
}
PATHS = {
    "h": lambda coin, i: f"m/48h/{coin}h/0h/2h",
    "apos": lambda coin, i: f"m/48'/{coin}'/0'/2'",
    "root": lambda coin, i: "m",
    "long": lambda coin, i: f"m/48h/{coin}h/{i}h/2h/2147483647/0/{i}",
    "mixedstyle": lambda coin, i: [f"m/48h/{coin}'/0h/2'", "m", f"m/45'/{i}", f"m/48h/{coin}h/0h/2h"][i % 4],
}


def make_wallet(seed, pool_id, m, n, net, acct, ver, path):
    """ver = 'std' | '<kind>:all' | '<kind>:first' | '<kind>:last' (which record, in canonical
    order, is supplied with a SLIP-132 prefix)."""
    keys = key_pool(seed, pool_id)[:n]
    coin = 0 if net == "mainnet" else 1
    std = SLIP["std"][net]
    order = sorted(range(n), key=lambda i: _xpub(keys[i], std))  # canonical rank
    kind, _, which = ver.partition(":")
    recs = []
    for i, k in enumerate(keys):
        v = std
        if kind != "std" and (which == "all" or (which == "first" and order[0] == i) or (which == "last" and order[-1] == i)):
            v = SLIP[kind][net]
        recs.append({"xfp": k["xfp"], "path": PATHS[path](coin, i), "xpub": _xpub(k, v), "idx": ACCTS[acct][i]})
    return {
        "m": m,
        "recs": recs,
        "net": net,
        "tag": f"{m}of{n}/{net}/acct={acct}/ver={ver}/path={path}/pool={pool_id}",
        "slip": "std" if kind == "std" else "slip132",
    }


def mn_pairs(nmax):
    return [(m, n) for n in range(1, nmax + 1) for m in range(1, n + 1)]


def lib_records(recs):
    return [{"xfp": r["xfp"], "path": r["path"], "xpub_parent": r["xpub"], "account_index": r["idx"]} for r in recs]


def expected_state(m, recs, ordered=None):
    """What a descriptor object over these records must contain (canonical order unless given)."""
    o = descref.norm_records(recs) if ordered is None else ordered
    body = descref.body_text(m, o)
    chk = descref.descriptor_checksum(body)
    return {
        "str": body + "#" + chk,
        "m": m,
        "key_records": [{"path": r["path"], "xfp": r["xfp"], "xpub_parent": r["xpub"], "account_index": r["idx"]} for r in o],
        "network": descref.wallet_network(recs),
        "checksum": chk,
    }


def state_of(d):
    return {
        "str": str(d),
        "m": d.quorum_m,
        "key_records": [dict(k) for k in d.key_records],
        "network": d.network,
        "checksum": d.checksum,
    }


def diff_class(got, exp):
    """Coarse class of a state mismatch (for fingerprints)."""
    if isinstance(got, Rejected):
        return "rejected"
    gb, _, gc = got["str"].partition("#")
    eb, _, ec_ = exp["str"].partition("#")
    if gb == eb and gc != ec_:
        return "checksum"
    if gb != eb:
        pre = len("wsh(sortedmulti(")
        gi, ei = gb[pre:-2].split(","), eb[pre:-2].split(",")
        if gi[0] == ei[0] and gi[1:] != ei[1:] and sorted(gi[1:]) == sorted(ei[1:]):
            return "record-order"
        return "body"
    for k in ("key_records", "network", "m", "checksum"):
        if got[k] != exp[k]:
            return "attr-" + k
    return "other"


# ------------------------------------------------------------------------------- engine: text
def gen_text(tier, seed):
    cases = []
    thorough = tier == "thorough"
    nmax = 6 if thorough else 4
    kinds = ["multisig", "segwit"] + (["p2sh-multisig", "p2sh-segwit"] if thorough else [])
    vers = ["std"] + [f"{k}:{w}" for k in kinds for w in ("all", "first", "last")]
    pools = ["A", "B"] if thorough else ["A"]
    for pool in pools:
        for m, n in mn_pairs(nmax):
            for net in ("testnet", "mainnet"):
                seen = set()

                def add(acct, ver, path, perms):
                    key = (acct, ver, path)
                    if key in seen:
                        return
                    seen.add(key)
                    cases.append({"w": make_wallet(seed, pool, m, n, net, acct, ver, path), "perms": perms})

                full = thorough and pool == "A"
                # base origin path: account classes x version assignments, all n! supply orders
                for acct in ACCTS:
                    for ver in vers if (full or acct == "0") else ["std"]:
                        add(acct, ver, "h", "all" if n <= 5 or (full and acct in ("0", "mixed")) else "rot")
                # other path styles (x version assignments: thorough everywhere, quick on two shapes)
                product = full or (m, n) in ((1, 2), (2, 3))
                for acct in ("0", "max-1") if full else ("0",):
                    for path in PATHS:
                        for ver in vers if product else ["std"]:
                            add(acct, ver, path, "all" if n <= 4 else "rot")
    return cases


def perm_list(n, mode):
    if mode == "all":
        return [list(p) for p in itertools.permutations(range(n))]
    out = [list(range(n))[k:] + list(range(n))[:k] for k in range(n)]
    out += [list(reversed(p)) for p in out]
    uniq = []
    for p in out:
        if p not in uniq:
            uniq.append(p)
    return uniq


def run_text(case):
    from buidl.descriptor import P2WSHSortedMulti

    res = Res()
    w = case["w"]
    m, recs, tag, slip = w["m"], w["recs"], w["tag"], w["slip"]
    n = len(recs)
    vc = {"engine": "text", "case": case}
    exp = expected_state(m, recs)
    canon = descref.norm_records(recs)
    xfp_sorted = sorted(canon, key=lambda r: r["xfp"]) != canon
    raw_sorted = [descref.xpub_standardise(r["xpub"]) for r in sorted(recs, key=lambda r: r["xpub"])] != [r["xpub"] for r in canon]

    # 1. construction: text, checksum, state
    d = attempt(P2WSHSortedMulti, m, lib_records(recs))
    got = d if isinstance(d, Rejected) else attempt(state_of, d)
    ctor_bad = None
    if got != exp:
        ctor_bad = diff_class(got, exp)
        res.violation(
            f"C16/text/construct-{ctor_bad}/{slip}", vc, got if isinstance(got, Rejected) else got["str"], exp["str"],
            "descriptor built from key records differs from the reference text / Core checksum / canonical record order",
        )
    else:
        res.ok(
            "construct==ref",
            nontrivial=("construct", tag),
            sample={"wallet": tag, "str": exp["str"][:60] + "..." + exp["str"][-12:], "xfp_order_differs": xfp_sorted, "raw_string_order_differs": raw_sorted},
        )

    # 2. parse(text) reproduces the descriptor
    p = attempt(P2WSHSortedMulti.parse, exp["str"])
    gotp = p if isinstance(p, Rejected) else attempt(state_of, p)
    if isinstance(gotp, Rejected):
        qual = w["tag"].split("/")[4] if ctor_bad is None else f"with-construct-{ctor_bad}"
        res.violation(f"C16/text/parse-rejected/{qual}", vc, repr(gotp), exp["str"], "parse() rejects the canonical descriptor text with its correct checksum")
    elif gotp != exp:
        res.violation(f"C16/text/parse-{diff_class(gotp, exp)}/{slip}", vc, gotp["str"], exp["str"], "parse(text) does not reproduce the descriptor")
    else:
        res.ok("parse(text)==descriptor", nontrivial=("parse", tag))

    # 3. state is independent of the order in which key records are supplied
    # (compared with the reference state, or - when construction already deviates from the reference -
    #  with the state the library itself produced for the first supply order, to isolate order dependence)
    if ctor_bad is not None:
        if isinstance(got, Rejected):
            return res
        exp = got
    base = lib_records(recs)
    canon_perm = [[r["xfp"] for r in recs].index(c["xfp"]) for c in canon]
    bad = None
    cnt = nt = 0
    for perm in perm_list(n, case["perms"]):
        dp = attempt(P2WSHSortedMulti, m, [base[i] for i in perm])
        gp = dp if isinstance(dp, Rejected) else attempt(state_of, dp)
        if gp != exp:
            bad = bad or (perm, gp)
        else:
            cnt += 1
            nt += 1 if perm != canon_perm else 0
    if bad:
        perm, gp = bad
        res.violation(
            f"C16/text/order-dependent-{diff_class(gp, exp)}/{slip}", {"engine": "text", "case": case, "perm": perm}, gp if isinstance(gp, Rejected) else gp["str"], exp["str"],
            "descriptor state depends on the order in which key records were supplied",
        )
    res.bulk("supply-order->same-state", cnt, nt)
    return res


# ------------------------------------------------------------------------------- engine: address
IDX_QUICK = [0, 1, MAXI]
IDX_FULL = [0, 1, 2, 255, 256, 65535, 65536, MAXI - 1, MAXI]


def gen_address(tier, seed):
    cases = []
    thorough = tier == "thorough"
    nmax = 6 if thorough else 4
    for m, n in mn_pairs(nmax):
        for net in ("testnet", "mainnet"):
            combos = [("0", "std", "h", IDX_FULL if thorough else IDX_QUICK)]
            if thorough or (net == "testnet" and (m, n) in ((1, 1), (1, 2), (2, 3), (3, 4))):
                combos += [(a, "std", "h", IDX_QUICK) for a in ("1", "max-1", "max", "mixed")]
            if thorough or (net == "mainnet" and (m, n) in ((1, 2), (2, 3))):
                combos += [("0", "multisig:last", "apos", IDX_QUICK)]
            if thorough:
                combos += [("mixed", "segwit:all", "long", IDX_QUICK)]
            done = set()
            for pool in ("A", "B") if thorough else ("A",):
                for acct, ver, path, idxs in combos:
                    if pool == "B" and acct != "0":
                        continue
                    for i in idxs:
                        if (pool, acct, ver, path, i) in done:
                            continue
                        done.add((pool, acct, ver, path, i))
                        cases.append({"w": make_wallet(seed, pool, m, n, net, acct, ver, path), "index": i, "route": "ctor", "perm": None})
    # supply-order independence of the address, both routes, every permutation
    pmax = 4 if thorough else 3
    for m, n in mn_pairs(pmax):
        if n < 2:
            continue
        for net in ("testnet", "mainnet") if thorough else ("testnet",):
            for acct, index in (("0", 0), ("mixed", 1)) if thorough else (("0", 1),):
                w = make_wallet(seed, "A", m, n, net, acct, "std", "h")
                for perm in itertools.permutations(range(n)):
                    for route in ("ctor", "parse"):
                        cases.append({"w": w, "index": index, "route": route, "perm": list(perm)})
    return cases


def run_address(case, ename="address"):
    from buidl.descriptor import P2WSHSortedMulti

    res = Res()
    w, index, route = case["w"], case["index"], case["route"]
    m, recs, tag = w["m"], w["recs"], w["tag"]
    n = len(recs)
    vc = {"engine": ename, "case": case}
    supplied = [recs[i] for i in case["perm"]] if case["perm"] else recs
    canon = descref.norm_records(recs)
    if route == "ctor":
        d = attempt(P2WSHSortedMulti, m, lib_records(supplied))
        held = canon  # order in which the object must hold the records
    else:
        # a well-formed descriptor whose records are not in xpub order (e.g. exported by other software)
        held = [dict(r, xpub=descref.xpub_standardise(r["xpub"])) for r in supplied]
        body = descref.body_text(m, held)
        d = attempt(P2WSHSortedMulti.parse, body + "#" + descref.descriptor_checksum(body))
    if isinstance(d, Rejected):
        res.violation(f"C16/{ename}/{route}-rejected", vc, repr(d), "descriptor object", "valid wallet rejected")
        return res
    got = {}
    for branch in (0, 1):
        bname = "change" if branch else "receive"
        exp = descref.address(m, recs, branch, index)
        if exp is None:
            res.skip("account index 2^31-1: the change branch (account index + 1) is outside the BIP32 non-hardened range")
            continue
        a = attempt(d.get_address, index, bool(branch))
        got[branch] = a
        if a != exp:
            keys = descref.child_keys(held, branch, index)
            hyp = "other"
            if isinstance(a, Rejected) or not a:
                top = max(r["idx"] for r in recs) + branch
                hyp = "rejected" + ("-index=2^31-1" if index == MAXI else "") + (f"-account={top}" if top >= MAXI - 1 else "")
            elif a == descref.segwit_v0_address(descref.HRP[w["net"]], descref.sha256(descref.multisig_script(m, keys))):
                hyp = "children-in-record-order"
            elif a == descref.address(m, recs, 1 - branch, index):
                hyp = "other-branch"
            elif any(a == descref.address(mm, recs, branch, index) for mm in range(1, n + 1) if mm != m):
                hyp = "wrong-threshold"
            elif a == descref.segwit_v0_address(descref.HRP["mainnet" if w["net"] == "testnet" else "testnet"], descref.sha256(descref.multisig_script(m, sorted(keys)))):
                hyp = "wrong-network"
            res.violation(
                f"C16/{ename}/{bname}-{hyp}", vc, a, exp,
                f"get_address({index}, is_change={bool(branch)}) is not the P2WSH of the {m}-of-{n} script over the sorted child keys",
            )
        else:
            keys = descref.child_keys(held, branch, index)
            reorder = keys != sorted(keys)
            res.ok(
                f"address==ref({bname})",
                nontrivial=(tag, route, tuple(case["perm"] or ()), branch, index) if (reorder or case["perm"]) else None,
                sample={"wallet": tag, "route": route, "branch": bname, "index": index, "address": a, "child_order_differs_from_record_order": reorder} if reorder and index else None,
            )
    if len(got) == 2 and not isinstance(got[0], Rejected) and not isinstance(got[1], Rejected):
        if got[0] == got[1]:
            res.violation(f"C16/{ename}/receive==change", vc, got, "different addresses", "receive and change address coincide at the same index")
        else:
            res.ok("receive!=change")
        # no receive address of the index alphabet is a change address of the alphabet (reference side for the others)
        others = IDX_FULL
        clash = [j for j in others if descref.address(m, recs, 1, j) == got[0] or descref.address(m, recs, 0, j) == got[1]]
        if clash:
            res.violation(f"C16/{ename}/branches-overlap", vc, {"index": index, "clash_with": clash}, "disjoint", "a receive address equals a change address at another index")
        else:
            res.ok("branches-disjoint-over-index-alphabet")
    return res


# ------------------------------------------------------------------------------- engine: substitution
class _Memo:
    """Harness-side memoisation of HDPublicKey.child for the substitution sweeps.

    parse() derives one child key (one 44 ms scalar multiplication) per key record before the
    checksum is compared, and the sweep presents the same (parent key, index) pairs tens of
    thousands of times.  child() is a pure function of the attributes in the cache key; the first
    call for every distinct key executes the real code, later calls get a fresh HDPublicKey built
    from the remembered attributes.  Nothing else of the library is touched; `subst-real` and the
    `address`/`text` engines run the library without it."""

    cache = {}

    def __enter__(self):
        import buidl.hd as hd

        self.hd = hd
        self.orig = orig = hd.HDPublicKey.child
        cache = self.cache

        def child(self_, index):
            key = (self_.point.sec(), self_.chain_code, self_.depth, self_.parent_fingerprint, self_.child_number, self_.network, self_.pub_version, index)
            hit = cache.get(key)
            if hit is None:
                c = orig(self_, index)  # exceptions propagate and are not cached
                hit = (c.point, c.chain_code, c.depth, c.parent_fingerprint, c.child_number, c.network, c.pub_version)
                cache[key] = hit
            return hd.HDPublicKey(point=hit[0], chain_code=hit[1], depth=hit[2], parent_fingerprint=hit[3], child_number=hit[4], network=hit[5], pub_version=hit[6])

        hd.HDPublicKey.child = child
        return self

    def __exit__(self, *a):
        self.hd.HDPublicKey.child = self.orig


class _NoMemo:
    def __enter__(self):
        return self

    def __exit__(self, *a):
        pass


def subst_wallets(tier, seed, real):
    """(id, wallet) list.  Features are spread over the descriptors: both networks, both hardened
    markers, empty / long origin paths, 1- and 10-digit account indexes."""
    s1 = ("1of1-testnet", make_wallet(seed, "A", 1, 1, "testnet", "0", "std", "h"))
    s2 = ("1of2-mainnet-apos-acct2147483646", make_wallet(seed, "A", 1, 2, "mainnet", "max-1", "std", "apos"))
    s3 = ("2of3-testnet-mixedstyle-acct1", make_wallet(seed, "A", 2, 3, "testnet", "1", "std", "mixedstyle"))
    if real:
        return [s1] if tier == "quick" else [s1, s2]
    s4 = ("2of2-testnet-h-records-in-descending-xpub-order", dict(make_wallet(seed, "A", 2, 2, "testnet", "0", "std", "h"), order="reversed"))
    out = [s1, s2, s3, s4]
    if tier == "thorough":
        out += [
            ("2of2-testnet-long-mixedacct", make_wallet(seed, "B", 2, 2, "testnet", "mixed", "std", "long")),
            ("1of4-mainnet-root", make_wallet(seed, "B", 1, 4, "mainnet", "0", "std", "root")),
            ("3of5-mainnet-h", make_wallet(seed, "A", 3, 5, "mainnet", "0", "std", "h")),
            ("6of6-testnet-apos-mixedacct", make_wallet(seed, "A", 6, 6, "testnet", "mixed", "std", "apos")),
        ]
    return out


def subst_order(w):
    """Order in which the records appear in the swept text: canonical, or (order='reversed') descending
    xpub order, i.e. a well-formed descriptor as exported by software that does not sort the records."""
    canon = descref.norm_records(w["recs"])
    return list(reversed(canon)) if w.get("order") == "reversed" else canon


def gen_subst(real):
    def gen(tier, seed):
        cases = []
        for wid, w in subst_wallets(tier, seed, real):
            text = expected_state(w["m"], w["recs"], subst_order(w))["str"]
            for pos in range(len(text)):
                cases.append({"wid": wid, "w": w, "pos": pos})
        return cases

    return gen


def run_subst(real):
    ename = "subst-real" if real else "subst"

    def run(case):
        from buidl.descriptor import P2WSHSortedMulti

        res = Res()
        w, pos = case["w"], case["pos"]
        canon = subst_order(w)
        exp = expected_state(w["m"], w["recs"], canon)
        text = exp["str"]
        region = descref.regions(w["m"], canon)[pos]
        vc = {"engine": ename, "case": case}
        with (_NoMemo() if real else _Memo()):
            # 0 deviations: the honest text must be accepted and reproduce the descriptor
            if pos == 0 or not real:
                p = attempt(P2WSHSortedMulti.parse, text)
                gp = p if isinstance(p, Rejected) else attempt(state_of, p)
                if gp != exp:
                    res.violation(f"C16/{ename}/honest-text-not-reproduced", vc, gp if isinstance(gp, Rejected) else gp["str"], text, "uncorrupted descriptor rejected or changed by parse()")
                    return res
                res.ok("honest-accepted")
            if region == "hash":
                res.skip("'#' separator replaced: the text no longer carries a checksum (same descriptor without one); outside 'body or checksum'", len(descref.INPUT_CHARSET) - 1)
                return res
            n_rej = n_only_checksum = 0
            for ch in descref.INPUT_CHARSET:
                if ch == text[pos]:
                    continue
                s = text[:pos] + ch + text[pos + 1 :]
                r = attempt(P2WSHSortedMulti.parse, s)
                if isinstance(r, Rejected) or r is None or r is False:
                    n_rej += 1
                    if descref.strict_parse(s) is not None:
                        n_only_checksum += 1  # well-formed: only the checksum stands between it and acceptance
                    continue
                if descref.accepts(s):
                    res.ok("benign(reference-accepts)")
                    continue
                gs = attempt(state_of, r)
                same = (not isinstance(gs, Rejected)) and gs == exp
                cls = "whitespace" if ch == " " else "backslash" if ch == "\\" else "bech32-char" if ch in descref.CHECKSUM_CHARSET else "other-char"
                res.violation(
                    f"C16/{ename}/accepted-{region}-{'same' if same else 'different'}-descriptor/{cls}",
                    {"engine": ename, "case": case, "char": ch, "corrupted": s},
                    gs if isinstance(gs, Rejected) else gs["str"],
                    "rejected",
                    f"descriptor with character {pos} ({region}) '{text[pos]}' replaced by '{ch}' is accepted",
                )
            res.bulk(f"rejected[{region}]", n_rej, n_only_checksum)
            if n_only_checksum and len(res.samples) < 1:
                res.samples.append({"descriptor": case["wid"], "pos": pos, "region": region, "substitutions_rejected": n_rej, "of_which_only_the_checksum_rejects": n_only_checksum})
        return res

    return run


# =============================================================================== phase-2 engines
# Shared builders -----------------------------------------------------------------------------
BOUNDARY = [255, 256, 65535, 65536, 2**24 - 1, 2**24]  # byte boundaries of the 4-byte child index
KINDS = ["std", "p2sh-segwit", "segwit", "p2sh-multisig", "multisig"]


def build_wallet(seed, pool_id, m, net, idxs, kinds=None, paths=None, hdr=None, key_ids=None, xfps=None, tag=""):
    """Wallet with explicit per-record account index / SLIP-132 kind / origin path / pool key id
    (a key id may repeat: same xpub at several account indexes) and optional xpub header fields
    hdr = {"depth", "pfp" (hex), "child"} shared by all records."""
    n = len(idxs)
    pool = key_pool(seed, pool_id)
    key_ids = key_ids or list(range(n))
    coin = 0 if net == "mainnet" else 1
    recs = []
    for i in range(n):
        k = pool[key_ids[i]]
        v = SLIP[kinds[i] if kinds else "std"][net]
        if hdr:
            xpub = descref.xpub_encode(v, hdr["depth"], bytes.fromhex(hdr["pfp"]), hdr["child"], k["cc"], k["point"])
        else:
            xpub = _xpub(k, v)
        recs.append({"xfp": xfps[i] if xfps else k["xfp"], "path": paths[i] if paths else f"m/48h/{coin}h/0h/2h", "xpub": xpub, "idx": idxs[i]})
    return {"m": m, "recs": recs, "net": net, "tag": tag, "slip": "slip132" if kinds and set(kinds) != {"std"} else "std"}


_REFADDR = {}


def ref_address(w, branch, index):
    """Reference address, remembered per process (pure function of the wallet)."""
    k = (w["m"], tuple((r["xpub"], r["idx"]) for r in w["recs"]), branch, index)
    if k not in _REFADDR:
        _REFADDR[k] = descref.address(w["m"], w["recs"], branch, index)
    return _REFADDR[k]


def ref_text(w, ordered=None):
    o = descref.norm_records(w["recs"]) if ordered is None else ordered
    body = descref.body_text(w["m"], o)
    return body + "#" + descref.descriptor_checksum(body)


# ------------------------------------------------------------------------------- engine: spelling
SPELL_XFPS = ["a1b2c3d4", "0f9e8d7c", "00c0ffee"]
SPELL_XC = ["lower", "upper", "mixed"]
SPELL_MK = ["h", "'", "H"]
SPELL_NZ = ["none", "double-slash", "lead-space", "trail-space", "capital-m"]


def _spell_xfp(x, xc):
    if xc == "lower":
        return x
    if xc == "upper":
        return x.upper()
    out, k = "", 0
    for c in x:  # every other hex letter upper-cased
        if c.isalpha():
            out += c.upper() if k % 2 == 0 else c
            k += 1
        else:
            out += c
    return out


def _spell_path(p, mk, nz):
    p = p.replace("h", mk)
    if nz == "double-slash":
        p = p.replace("m/", "m//", 1)
    elif nz == "lead-space":
        p = " " + p
    elif nz == "trail-space":
        p = p + " "
    elif nz == "capital-m":
        p = "M" + p[1:]
    return p


def gen_spelling(tier, seed):
    cases = []
    shapes = [("deriv", 1, 2, "testnet")] + ([("deriv", 2, 3, "mainnet")] if tier == "thorough" else []) + [("root", 1, 2, "testnet")]
    for base, m, n, net in shapes:
        coin = 0 if net == "mainnet" else 1
        paths = [f"m/48h/{coin}h/0h/2h" if base == "deriv" else "m"] * n
        w = build_wallet(seed, "A", m, net, [0] * n, paths=paths, xfps=SPELL_XFPS[:n], tag=f"{m}of{n}/{net}/origin={base}")
        for xc in SPELL_XC:
            for mk in SPELL_MK if base == "deriv" else ["h"]:
                for nz in SPELL_NZ:
                    if base == "root" and nz == "double-slash":
                        continue
                    cases.append({"w": w, "xc": xc, "mk": mk, "nz": nz})
    return cases


def _spell_eval(P2, w, xc, mk, nz):
    """Outcome class of one spelling variant: 'ctor-rejects' | 'ok' | a failure class."""
    m = w["m"]
    supplied = [dict(r, xfp=_spell_xfp(r["xfp"], xc), path=_spell_path(r["path"], mk, nz)) for r in w["recs"]]
    d = attempt(P2, m, lib_records(supplied))
    if isinstance(d, Rejected):
        return "ctor-rejects", None
    gs = attempt(state_of, d)
    if isinstance(gs, Rejected):
        return "state-unreadable", repr(gs)
    body, _, chk = gs["str"].partition("#")
    if descref.descriptor_checksum(body) != chk or gs["checksum"] != chk:
        return "checksum-not-core", gs["str"]
    p = attempt(P2.parse, gs["str"])
    if isinstance(p, Rejected):
        return "own-text-rejected", gs["str"]
    ps = attempt(state_of, p)
    if ps != gs:
        return "own-text-not-reproduced", {"constructed": gs["key_records"], "parsed": ps if isinstance(ps, Rejected) else ps["key_records"]}
    if nz == "none" and mk != "H":
        # the spelling differs from Core's printed form in the fingerprint case only: Core prints lower case
        core = expected_state(m, [dict(r, path=_spell_path(r["path"], mk, "none")) for r in w["recs"]])
        if gs != core:
            return "not-core-form", gs["str"]
    return "ok", None


def run_spelling(case):
    from buidl.descriptor import P2WSHSortedMulti as P2

    res = Res()
    w, xc, mk, nz = case["w"], case["xc"], case["mk"], case["nz"]
    vc = {"engine": "spelling", "case": case}
    devs = ([("xfp-case", "xc")] if xc != "lower" else []) + ([("marker-H", "mk")] if mk == "H" else []) + ([("path-" + nz, "nz")] if nz != "none" else [])
    with _Memo():
        out, detail = _spell_eval(P2, w, xc, mk, nz)
        if out == "ok" or (out == "ctor-rejects" and devs):
            res.ok(out if devs else "clean-spelling-ok", nontrivial=(w["tag"], xc, mk, nz) if devs else None,
                   sample={"wallet": w["tag"], "xfp": xc, "marker": mk, "path": nz, "outcome": out} if devs and out == "ok" else None)
            return res
        if not devs:
            res.violation(f"C16/spelling/clean-{out}", vc, detail, "accepted, Core text, reproduced by parse()", "key records in Core's own spelling are not handled")
            return res
        culprit = devs[0][0] if len(devs) == 1 else "combination"
        if len(devs) > 1:
            for name, dim in devs:  # which single deviation alone gives the same failure?
                o1, _ = _spell_eval(P2, w, xc if dim == "xc" else "lower", mk if dim == "mk" else "h", nz if dim == "nz" else "none")
                if o1 == out:
                    culprit = name
                    break
        res.violation(
            f"C16/spelling/{out}/{culprit}", vc, detail, "constructor rejects, or its text is accepted and reproduced by parse() (and is Core's lower-case form for fingerprints)",
            f"key records spelt with xfp={xc}, hardened marker {mk!r}, path noise {nz}: the constructor accepts them but {out}",
        )
    return res


# ------------------------------------------------------------------------------- engine: history (E2)
def hist_setup(tier, seed, kind):
    """-> (object specs, op alphabet, depth). An object spec is (wallet, route)."""
    if kind == "single":
        w = make_wallet(seed, "A", 2, 3, "testnet", "0", "std", "h")
        return {"A": (w, "ctor")}, [("A", i, b) for i in (0, 1, MAXI) for b in (0, 1)], 3
    if kind == "single-parse":
        w = make_wallet(seed, "A", 2, 3, "mainnet", "mixed", "std", "h")
        return {"A": (w, "parse")}, [("A", i, b) for i in (0, 1, MAXI) for b in (0, 1)], 3
    if kind == "multi":
        w0 = make_wallet(seed, "A", 2, 3, "testnet", "0", "std", "h")
        w1 = make_wallet(seed, "A", 2, 3, "testnet", "1", "std", "h")
        return {"A": (w0, "ctor"), "B": (w1, "ctor"), "P": (w0, "parse")}, [(o, i, b) for o in ("A", "B", "P") for i in (0, 1) for b in (0, 1)], 3 if tier == "quick" else 4
    if kind == "real":
        w = make_wallet(seed, "A", 1, 1, "testnet", "0", "std", "h")
        return {"A": (w, "ctor")}, [("A", i, b) for i in (0, 1) for b in (0, 1)], 2 if tier == "quick" else 3
    raise ValueError(kind)


def gen_history(tier, seed):
    cases = []
    for kind in ["single", "multi", "real"] + (["single-parse"] if tier == "thorough" else []):
        _, ops, depth = hist_setup(tier, seed, kind)
        for first in ops:
            if kind == "multi" and depth == 4:
                for second in ops:
                    cases.append({"kind": kind, "prefix": [list(first), list(second)]})
            else:
                cases.append({"kind": kind, "prefix": [list(first)]})
    return cases


def run_history(case, tier="quick", seed=0):
    from buidl.descriptor import P2WSHSortedMulti as P2

    res = Res()
    kind, prefix = case["kind"], [tuple(o) for o in case["prefix"]]
    specs, ops, depth = hist_setup(tier, seed, kind)
    vc = {"engine": "history", "case": case}

    def fresh():
        out = {}
        for name, (w, route) in specs.items():
            if route == "ctor":
                out[name] = P2(w["m"], lib_records(w["recs"]))
            else:  # records in descending xpub order: the object holds them unsorted
                out[name] = P2.parse(ref_text(w, list(reversed(descref.norm_records(w["recs"])))))
        return out

    reported = set()
    n_ok = n_nt = 0
    with (_NoMemo() if kind == "real" else _Memo()):
        for rest in itertools.product(ops, repeat=depth - len(prefix)):
            seq = prefix + list(rest)
            objs = attempt(fresh)
            if isinstance(objs, Rejected):
                res.violation(f"C16/history/{kind}/objects-rejected", vc, repr(objs), "descriptor objects", "valid wallet rejected")
                return res
            exps = []
            for k, (o, index, branch) in enumerate(seq):
                exp = ref_address(specs[o][0], branch, index)
                a = attempt(objs[o].get_address, index, bool(branch))
                res.transitions += 1
                if a != exp:
                    hyp = "rejected" if isinstance(a, Rejected) or not a else "stale-answer-of-an-earlier-call" if a in exps else "fresh-object-wrong" if k == 0 else "wrong-after-history"
                    if hyp not in reported:
                        reported.add(hyp)
                        res.violation(
                            f"C16/history/{kind}/{hyp}", {"engine": "history", "case": case, "sequence": [list(x) for x in seq], "call": k}, a, exp,
                            f"call {k} of the sequence (object, index, branch) on {'one object' if len(specs) == 1 else 'objects sharing cosigner xpubs'}: get_address differs from the reference",
                        )
                    break
                exps.append(exp)
                n_ok += 1
                n_nt += 1 if k else 0
    res.bulk("address==ref(after history)", n_ok, n_nt)
    # distinct histories below this case's prefix (each was extended by every operation)
    res.states += sum(len(ops) ** j for j in range(0, depth - len(prefix) + 1))
    if n_nt and not reported:
        res.samples.append({"kind": kind, "prefix": case["prefix"], "sequences": len(ops) ** (depth - len(prefix)), "depth": depth})
    return res


# ------------------------------------------------------------------------------- engine: keyrecord
KR_COMBOS = [("h", 0), ("apos", 0), ("root", 0), ("long", 0), ("mixedstyle", 0), ("h", 1), ("h", 5), ("h", MAXI - 1), ("h", MAXI)]


def gen_keyrecord(tier, seed):
    cases = []
    nkeys = 6 if tier == "thorough" else 2
    keys = key_pool(seed, "A")
    for net in ("testnet", "mainnet"):
        coin = 0 if net == "mainnet" else 1
        for kind in KINDS:
            for i in range(nkeys):
                for path, idx in KR_COMBOS:
                    r = {"xfp": keys[i]["xfp"], "path": PATHS[path](coin, i), "xpub": _xpub(keys[i], SLIP[kind][net]), "idx": idx}
                    cases.append({"kind": "record", "r": r, "net": net, "slip": "std" if kind == "std" else "slip132", "any": path == "h" and idx == 0})
        # string -> key record -> constructor (the coordinator flow), SLIP-132 keys of one kind or mixed kinds
        n = 3
        assigns = [[k] * n for k in KINDS] + [KINDS[j : j + n] for j in range(len(KINDS) - n + 1)]
        for a in assigns:
            for m in (2,) if tier == "quick" else (1, 2, 3):
                coinp = [PATHS["mixedstyle"](coin, i) for i in range(n)]
                w = build_wallet(seed, "A", m, net, ACCTS["mixed"][:n], kinds=a, paths=coinp, tag=f"{m}of{n}/{net}/flow/kinds={','.join(a)}")
                cases.append({"kind": "flow", "w": w})
    return cases


def run_keyrecord(case):
    from buidl import descriptor as D

    res = Res()
    vc = {"engine": "keyrecord", "case": case}
    if case["kind"] == "flow":
        w = case["w"]
        parsed = attempt(lambda: [D.parse_full_key_record(descref.record_text(r)) for r in w["recs"]])
        if isinstance(parsed, Rejected):
            res.violation(f"C16/keyrecord/flow-record-rejected/{w['slip']}", vc, repr(parsed), "key records", "parse_full_key_record rejects a valid key record string")
            return res
        exp = expected_state(w["m"], w["recs"])
        for perm in itertools.permutations(range(len(parsed))):
            d = attempt(D.P2WSHSortedMulti, w["m"], [parsed[i] for i in perm])
            got = d if isinstance(d, Rejected) else attempt(state_of, d)
            if got != exp:
                res.violation(
                    f"C16/keyrecord/flow-{diff_class(got, exp)}/{w['slip']}", {"engine": "keyrecord", "case": case, "perm": list(perm)}, got if isinstance(got, Rejected) else got["str"], exp["str"],
                    "descriptor built from parse_full_key_record() outputs differs from the reference",
                )
                return res
            res.ok("string->record->descriptor==ref", nontrivial=(w["tag"], perm))
        return res
    r, net, slip = case["r"], case["net"], case["slip"]
    full_s = descref.record_text(r)
    part_s = full_s[: -len("/%d/*" % r["idx"])]
    exp_full = {"xfp": r["xfp"], "path": r["path"], "xpub_parent": r["xpub"], "account_index": r["idx"], "network": net, "xpub_child": descref.ckd_pub_xpub(r["xpub"], r["idx"])}
    exp_part = {"xfp": r["xfp"], "path": r["path"], "xpub": r["xpub"], "network": net}

    def compare(fn_name, fn, s, exp):
        got = attempt(fn, s)
        if isinstance(got, Rejected) or not isinstance(got, dict):
            res.violation(f"C16/keyrecord/{fn_name}-rejected/{slip}", {"engine": "keyrecord", "case": case, "string": s}, repr(got), exp, f"{fn_name} rejects a valid key record string")
            return
        badf = [k for k in exp if got.get(k) != exp[k]]
        if badf:
            res.violation(
                f"C16/keyrecord/{fn_name}-{badf[0]}/{slip}", {"engine": "keyrecord", "case": case, "string": s}, {k: got.get(k) for k in badf}, {k: exp[k] for k in badf},
                f"{fn_name} returns a wrong {badf[0]} (child xpub = BIP32 public derivation at the account index, same version bytes)",
            )
        else:
            res.ok(f"{fn_name}==ref", nontrivial=(fn_name, s), sample={"fn": fn_name, "record": s[:30] + "..." + s[-14:], "xpub_child": str(exp.get("xpub_child"))[:16] + "..."} if slip != "std" and fn_name == "full" else None)

    compare("full", D.parse_full_key_record, full_s, exp_full)
    compare("partial", D.parse_partial_key_record, part_s, exp_part)
    compare("any(partial)", D.parse_any_key_record, part_s, exp_part)
    if case["any"]:
        compare("any(full)", D.parse_any_key_record, full_s, exp_full)
    return res


# ------------------------------------------------------------------------------- engine: ties
def ties_wallets(tier, seed):
    out = []
    for net in ("testnet", "mainnet") if tier == "thorough" else ("testnet",):
        out.append(build_wallet(seed, "A", 2, net, [0, 2, 0], key_ids=[0, 0, 1], tag=f"2of3/{net}/X@0,X@2,Y@0"))
        out.append(build_wallet(seed, "A", 1, net, [0, 1], key_ids=[0, 0], tag=f"1of2/{net}/X@0,X@1"))
        out.append(build_wallet(seed, "A", 2, net, [0, 2, 0], key_ids=[0, 0, 1], kinds=["std", "multisig", "std"], tag=f"2of3/{net}/X@0,Zpub(X)@2,Y@0"))
        if tier == "thorough":
            out.append(build_wallet(seed, "A", 3, net, [0, 1, 2, 0], key_ids=[0, 0, 0, 1], tag=f"3of4/{net}/X@0,X@1,X@2,Y@0"))
        # DIFFERENT xpubs that carry the SAME master fingerprint and the same account index (one seed contributing
        # several accounts, or a coordinator writing 00000000 for unknown fingerprints)
        out.append(build_wallet(seed, "A", 2, net, [0, 0, 0], xfps=["00000000"] * 3, paths=[f"m/48h/1h/{i}h/2h" for i in range(3)], tag=f"2of3/{net}/three-xpubs-one-xfp-00000000"))
        out.append(build_wallet(seed, "A", 1, net, [3, 3], xfps=["5a5a5a5a"] * 2, paths=["m/48h/1h/0h/2h", "m/48h/1h/1h/2h"], tag=f"1of2/{net}/two-xpubs-one-xfp@3"))
    return out


def gen_ties(tier, seed):
    cases = []
    for w in ties_wallets(tier, seed):
        for perm in itertools.permutations(range(len(w["recs"]))):
            for route in ("ctor", "parse") if tier == "thorough" else ("ctor",):
                cases.append({"w": w, "perm": list(perm), "route": route, "index": 1})
    return cases


def run_ties(case):
    from buidl.descriptor import P2WSHSortedMulti as P2

    res = Res()
    w, perm, route, index = case["w"], case["perm"], case["route"], case["index"]
    m, recs = w["m"], w["recs"]
    vc = {"engine": "ties", "case": case}
    supplied = [recs[i] for i in perm]
    std = [dict(r, xpub=descref.xpub_standardise(r["xpub"])) for r in supplied]
    if route == "ctor":
        d = attempt(P2, m, lib_records(supplied))
    else:
        d = attempt(P2.parse, ref_text(w, std))
    gs = d if isinstance(d, Rejected) else attempt(state_of, d)
    if isinstance(gs, Rejected):
        res.violation(f"C16/ties/{route}-rejected", vc, repr(gs), "descriptor object", "valid wallet (one xpub used at two account indexes, or several xpubs under one fingerprint) rejected")
        return res
    # text: Core checksum of the emitted body; the records are exactly the supplied ones (standardised), ascending by xpub
    # when built from key records (the order among records with the same xpub is not prescribed)
    body, _, chk = gs["str"].partition("#")
    want = sorted((r["xpub"], r["idx"], r["xfp"], r["path"]) for r in std)
    have = [(k["xpub_parent"], k["account_index"], k["xfp"], k["path"]) for k in gs["key_records"]]
    xs = [h[0] for h in have]
    if descref.descriptor_checksum(body) != chk:
        res.violation("C16/ties/checksum", vc, gs["str"], descref.descriptor_checksum(body), "checksum is not Core's checksum of the emitted descriptor body")
    elif sorted(have) != want or descref.strict_parse(gs["str"]) is None or (route == "ctor" and xs != sorted(xs)) or (route == "parse" and have != [(r["xpub"], r["idx"], r["xfp"], r["path"]) for r in std]):
        res.violation("C16/ties/records", vc, gs["str"], want, "the descriptor does not hold exactly the supplied key records (xpub-ascending when built from key records, text order when parsed)")
    else:
        res.ok("text-consistent", nontrivial=(w["tag"], tuple(perm), route))
    p = attempt(P2.parse, gs["str"])
    ps = p if isinstance(p, Rejected) else attempt(state_of, p)
    if ps != gs:
        res.violation("C16/ties/parse-not-reproduced", vc, ps if isinstance(ps, Rejected) else ps["str"], gs["str"], "parse(str(d)) does not reproduce the descriptor")
    else:
        res.ok("parse(str(d))==d")
    got = {}
    for branch in (0, 1):
        exp = ref_address(w, branch, index)
        a = attempt(d.get_address, index, bool(branch))
        got[branch] = a
        if a != exp:
            res.violation(f"C16/ties/{'change' if branch else 'receive'}-address", vc, a, exp, "address differs from the reference P2WSH over the sorted child keys (which is independent of the supply order)")
        else:
            res.ok("address==ref(supply-order independent)", nontrivial=(w["tag"], tuple(perm), route, branch))
    if got[0] == got[1] and not isinstance(got[0], Rejected):
        res.violation("C16/ties/receive==change", vc, got, "different addresses", "receive and change address coincide")
    return res


# ------------------------------------------------------------------------------- engine: slipmix
def gen_slipmix(tier, seed):
    cases = []
    shapes = [(1, 1), (1, 2), (2, 3)] + ([(2, 4)] if tier == "thorough" else [])
    for m, n in shapes:
        for net in ("testnet", "mainnet"):
            for a in itertools.product(KINDS, repeat=n):
                w = build_wallet(seed, "A", m, net, ACCTS["mixed"][:n], kinds=list(a), tag=f"{m}of{n}/{net}/kinds={','.join(a)}")
                cases.append({"w": w})
    return cases


def run_slipmix(case):
    from buidl.descriptor import P2WSHSortedMulti as P2

    res = Res()
    w = case["w"]
    m, recs = w["m"], w["recs"]
    exp = expected_state(m, recs)
    base = lib_records(recs)
    mixed = len({descref.xpub_decode(r["xpub"])["version"] for r in recs}) > 1
    cnt = 0
    for perm in itertools.permutations(range(len(recs))):
        d = attempt(P2, m, [base[i] for i in perm])
        got = d if isinstance(d, Rejected) else attempt(state_of, d)
        if got != exp:
            res.violation(
                f"C16/slipmix/{'construct' if list(perm) == sorted(perm) else 'order-dependent'}-{diff_class(got, exp)}/{'mixed-kinds' if mixed else 'one-kind'}",
                {"engine": "slipmix", "case": case, "perm": list(perm)}, got if isinstance(got, Rejected) else got["str"], exp["str"],
                "descriptor built from key records with per-record SLIP-132 prefixes differs from the reference (xpub/tpub text, Core checksum, canonical order)",
            )
            return res
        cnt += 1
    res.bulk("construct==ref(all supply orders)", cnt, cnt if w["slip"] != "std" else 0)
    if mixed and len(recs) == 3:
        res.samples.append({"wallet": w["tag"], "str": exp["str"][:40] + "..." + exp["str"][-12:]})
    return res


# ------------------------------------------------------------------------------- engine: xpubfields
XF_DEPTH = [0, 1, 254, 255]
XF_CHILD = [0, 2**31 - 1, 2**31, 2**32 - 1]


def gen_xpubfields(tier, seed):
    cases = []
    pfps = ["00000000", "ffffffff", filler(seed, "c16-xf-pfp", 0, 4).hex()]
    j = 0
    for depth in XF_DEPTH:
        for child in XF_CHILD:
            for pi, pfp in enumerate(pfps):
                hdr = {"depth": depth, "pfp": pfp, "child": child}
                for net in ("testnet", "mainnet"):
                    kindsets = [["std", "std"]] + ([["multisig", "std"]] if pi == 2 or tier == "thorough" else [])
                    for kinds in kindsets:
                        coin = 0 if net == "mainnet" else 1
                        paths = ["m" if depth == 0 else f"m/48h/{coin}h/0h/2h"] * 2
                        w = build_wallet(seed, "A", 1, net, [0, MAXI - 1], kinds=kinds, paths=paths, hdr=hdr, tag=f"1of2/{net}/depth={depth}/child={child}/pfp={pfp}/kinds={','.join(kinds)}")
                        addr = tier == "thorough" or (pi == 0 and kinds[0] == "std" and (j % 2 == 0) == (net == "testnet"))
                        cases.append({"w": w, "hdr": hdr, "addr": addr})
                j += 1
    return cases


def run_xpubfields(case):
    from buidl.descriptor import P2WSHSortedMulti as P2

    res = Res()
    w, hdr = case["w"], case["hdr"]
    m, recs = w["m"], w["recs"]
    vc = {"engine": "xpubfields", "case": case}
    if hdr["depth"] == 255:
        res.skip("extended key at depth 255: its children cannot be serialised (one-byte depth) and Core refuses to derive from it; not asserted")
        return res
    cls = f"depth={hdr['depth']}" if hdr["depth"] in (0, 254) else "child>=2^31" if hdr["child"] >= 2**31 else "plain"
    exp = expected_state(m, recs)
    d = attempt(P2, m, lib_records(recs))
    got = d if isinstance(d, Rejected) else attempt(state_of, d)
    if got != exp:
        res.violation(f"C16/xpubfields/construct-{diff_class(got, exp)}/{cls}", vc, got if isinstance(got, Rejected) else got["str"], exp["str"], "descriptor over extended keys with boundary header fields differs from the reference")
        return res
    res.ok("construct==ref", nontrivial=("c", w["tag"]))
    p = attempt(P2.parse, exp["str"])
    gp = p if isinstance(p, Rejected) else attempt(state_of, p)
    if gp != exp:
        res.violation(f"C16/xpubfields/parse-{diff_class(gp, exp)}/{cls}", vc, gp if isinstance(gp, Rejected) else gp["str"], exp["str"], "parse(text) does not reproduce the descriptor over extended keys with boundary header fields")
    else:
        res.ok("parse(text)==descriptor", nontrivial=("p", w["tag"]))
    if case["addr"]:
        got = {}
        for branch in (0, 1):
            exp_a = ref_address(w, branch, 1)
            a = attempt(d.get_address, 1, bool(branch))
            got[branch] = a
            if a != exp_a:
                res.violation(f"C16/xpubfields/{'change' if branch else 'receive'}-address/{cls}", vc, a, exp_a, "address differs from the reference (it depends on key and chain code only, not on the header fields)")
            else:
                res.ok("address==ref", nontrivial=("a", w["tag"], branch))
        if got[0] == got[1] and not isinstance(got[0], Rejected):
            res.violation("C16/xpubfields/receive==change", vc, got, "different addresses", "receive and change address coincide")
    return res


# ------------------------------------------------------------------------------- engine: checksum
FOREIGN = [chr(c) for c in range(256) if chr(c) not in descref.INPUT_CHARSET] + ["€", "０", "٠"]


def gen_checksum(tier, seed):
    A = descref.INPUT_CHARSET
    cases = [{"kind": "strings", "prefix": "", "tail": 0}, {"kind": "strings", "prefix": "", "tail": 1}]
    cases += [{"kind": "strings", "prefix": c, "tail": 1} for c in A]
    if tier == "thorough":
        cases += [{"kind": "strings", "prefix": a + b, "tail": 1} for a in A for b in A]
    # longer strings: every length 3..48 (all residues mod 3 of the class-symbol grouping), one string per length and per
    # starting offset into the alphabet, so that every character occurs at every position of a group of three
    cases += [{"kind": "rotations", "length": L} for L in range(3, 49)]
    cases += [{"kind": "foreign", "template": t} for t in ("", "wsh()", "wsh(sortedmulti(1,[00000000/48h]x/0/*))")]
    return cases


def run_checksum(case):
    from buidl.descriptor import calc_core_checksum

    res = Res()
    A = descref.INPUT_CHARSET
    vc = {"engine": "checksum", "case": case}

    def cmp(strings, cls):
        n = 0
        for s in strings:
            got = attempt(calc_core_checksum, s)
            exp = descref.descriptor_checksum(s)
            if got != exp:
                res.violation(f"C16/checksum/value/{cls}", {"engine": "checksum", "case": case, "string": s}, got, exp, "calc_core_checksum differs from Bitcoin Core's DescriptorChecksum")
                return
            n += 1
        res.bulk(f"checksum==core[{cls}]", n, n)

    if case["kind"] == "strings":
        cmp([case["prefix"] + "".join(t) for t in itertools.product(A, repeat=case["tail"])], f"len={len(case['prefix']) + case['tail']}")
    elif case["kind"] == "rotations":
        L = case["length"]
        cmp(["".join(A[(o + 7 * i) % 95] for i in range(L)) for o in range(95)], f"len%3={L % 3}")
    else:
        t = case["template"]
        n = 0
        for ch in FOREIGN:
            for pos in sorted({0, len(t) // 2, len(t)}):
                s = t[:pos] + ch + t[pos:]
                got = attempt(calc_core_checksum, s)
                if not (isinstance(got, Rejected) or got is None or got is False or got == ""):
                    res.violation("C16/checksum/foreign-character-accepted", {"engine": "checksum", "case": case, "string": s}, got, "rejected", "a character outside Core's descriptor alphabet gets a checksum")
                    return res
                n += 1
        res.bulk("foreign-character-rejected", n, n)
    return res


# ------------------------------------------------------------------------------- engine: index
def gen_index(tier, seed):
    accts = BOUNDARY + ([0, 1, MAXI - 1] if tier == "thorough" else [])
    offs = BOUNDARY + ([0, 1, MAXI] if tier == "thorough" else [])
    cases = []
    for a in accts:
        w = build_wallet(seed, "A", 2, "testnet", [a] * 3, tag=f"2of3/testnet/acct={a}/ver=std/path=h/pool=A")
        for i in offs:
            cases.append({"w": w, "index": i, "route": "ctor", "perm": None})
    # per-cosigner account indexes on both sides of different byte boundaries, parse route
    w = build_wallet(seed, "A", 2, "mainnet", [255, 65536, 2**24 - 1], tag="2of3/mainnet/acct=255,65536,16777215/ver=std/path=h/pool=A")
    for i in (256, 2**24) if tier == "quick" else offs:
        cases.append({"w": w, "index": i, "route": "parse", "perm": [2, 0, 1]})
    return cases


def run_index(case):
    return run_address(case, "index")


# ------------------------------------------------------------------------------- engine: ctor-checksum
def cc_wallets(tier, seed):
    return [
        ("1of1-testnet", make_wallet(seed, "A", 1, 1, "testnet", "0", "std", "h")),
        ("2of3-mainnet-apos-zpub", make_wallet(seed, "A", 2, 3, "mainnet", "mixed", "segwit:last", "apos")),
    ] + ([("3of5-testnet-long", make_wallet(seed, "B", 3, 5, "testnet", "max-1", "std", "long"))] if tier == "thorough" else [])


def gen_ctor_checksum(tier, seed):
    cases = []
    for wid, w in cc_wallets(tier, seed):
        cases += [{"wid": wid, "w": w, "pos": pos} for pos in range(8)]
        cases.append({"wid": wid, "w": w, "pos": "other"})
    return cases


def run_ctor_checksum(case):
    from buidl.descriptor import P2WSHSortedMulti as P2

    res = Res()
    w, pos = case["w"], case["pos"]
    m, recs = w["m"], w["recs"]
    exp = expected_state(m, recs)
    chk = exp["checksum"]
    base = lib_records(recs)
    vc = {"engine": "ctor-checksum", "case": case}

    def must_accept(arg, what):
        d = attempt(P2, m, base, arg)
        got = d if isinstance(d, Rejected) else attempt(state_of, d)
        if got != exp:
            res.violation(f"C16/ctor-checksum/{what}-not-accepted", {"engine": "ctor-checksum", "case": case, "checksum": arg}, got if isinstance(got, Rejected) else got["str"], exp["str"], f"constructor with {what} does not give the reference descriptor")
        else:
            res.ok(f"{what}-accepted")

    def must_reject(args, cls):
        n = 0
        for arg in args:
            d = attempt(P2, m, base, arg)
            if not (isinstance(d, Rejected) or d is None):
                res.violation(f"C16/ctor-checksum/wrong-checksum-accepted/{cls}", {"engine": "ctor-checksum", "case": case, "checksum": arg}, str(d), "rejected", f"constructor accepts a checksum that is not Core's checksum of the descriptor ({chk})")
                return
            n += 1
        res.bulk(f"wrong-checksum-rejected[{cls}]", n, n)

    if pos == "other":
        must_accept(chk, "correct-checksum")
        must_accept("", "no-checksum")
        must_reject([chk[:i] + chk[i + 1 :] for i in range(8)], "one-character-deleted")
        must_reject([chk[:i] + c + chk[i:] for i in range(9) for c in descref.CHECKSUM_CHARSET], "one-character-inserted")
    else:
        must_reject([chk[:pos] + c + chk[pos + 1 :] for c in descref.INPUT_CHARSET if c != chk[pos]], "one-character-substituted")
    return res



# ------------------------------------------------------------------------------- engines
def engines(tier, seed):
    return [
        Engine(
            "text",
            gen_text,
            run_text,
            kind="E1",
            rule="wallets = every 1<=m<=n<=4 (thorough 6) x {testnet, mainnet} x account index {0,1,2^31-2,2^31-1,mixed per cosigner} x SLIP-132 assignment "
            "{std, {Zpub/Vpub, zpub/vpub (+Ypub/Upub, ypub/upub thorough)} x {all, canonical-first, canonical-last record}} x origin-path style {h, ', empty, long with 2^31-1, mixed}. "
            "Quick: account classes, version assignments and path styles each varied from the base wallet, version x path product on 1-of-2 and 2-of-3; thorough: account x version product on the "
            "base path, version x path product at accounts 0 and 2^31-2, plus a second key pool with the quick scheme. Keys come from a deterministic walk so that xfp order and child-key order "
            "are opposite to xpub order. Checks: str/key_records/network/checksum == reference (Core checksum; canonical record order = ascending standardised xpub, the library's documented "
            "convention), parse(text) == descriptor, and every one of the n! supply orders (2n rotations/reversals for some 6-key wallets and for n>=5 on non-base paths) gives the identical state. "
            "Non-trivial = distinct wallet for construct/parse; supply order that is not already canonical",
        ),
        Engine(
            "address",
            gen_address,
            run_address,
            kind="E1",
            chunk=1,
            rule="wallets (every m-of-n, both networks, account classes, one SLIP-132 variant) x index {0,1,2^31-1} (thorough {0,1,2,255,256,65535,65536,2^31-2,2^31-1} at the base wallet) x {receive, change}: "
            "get_address == reference P2WSH (BIP32 public CKD over mc.ref.ec, BIP67 sort, bech32); receive != change, and neither collides with the other branch over the index alphabet; "
            "plus every permutation of the key records for n<=3 (thorough 4) through the constructor and through parse() of a descriptor whose records are in that (non-canonical) order. "
            "Non-trivial = child-key order differs from the order of the stored records, or a permuted supply order",
        ),
        Engine(
            "subst",
            gen_subst(False),
            run_subst(False),
            kind="E1",
            rule="one case per character position of 'body#checksum' of 4 descriptors (thorough 8: 1-of-1 .. 6-of-6, both networks, h and ' markers, empty/long origin paths, 1- and 10-digit "
            "account indexes; one 2-of-2 descriptor has its records in descending xpub order): all 94 other characters of the 95-character descriptor alphabet are substituted and P2WSHSortedMulti.parse must raise; the '#' position is skipped (out of statement). "
            "HDPublicKey.child is memoised by the harness (pure function; first call per distinct (parent, index) runs the real code). Non-trivial = the corrupted text is still a strictly "
            "well-formed descriptor, i.e. only the checksum comparison can reject it",
        ),
        Engine(
            "subst-real",
            gen_subst(True),
            run_subst(True),
            kind="E1",
            chunk=1,
            rule="same sweep with the library untouched (no memoisation): the 1-of-1 descriptor in the quick tier, 1-of-1 + 1-of-2 (10-digit account index) in the thorough tier",
        ),
        Engine(
            "spelling",
            gen_spelling,
            run_spelling,
            kind="E1",
            rule="key records that the constructor may accept in a non-Core spelling: fingerprint case {lower, UPPER, every-other-letter} x hardened marker {h, ', H} x path noise {none, 'm//', leading "
            "space, trailing space, capital 'M'} on a 1-of-2 wallet with origin m/48h/1h/0h/2h (45) and with the empty origin 'm' (12) (thorough: also 2-of-3 mainnet); fingerprints fixed to "
            "a1b2c3d4/0f9e8d7c/00c0ffee. Oracle: either the constructor rejects, or (a) the checksum is Core's checksum of the emitted body, (b) parse(str(d)) accepts and (c) reproduces the same "
            "state, and (d) when only the fingerprint case deviates the state equals the reference descriptor with the fingerprint in lower case (Core prints HexStr). Spellings that merely differ from "
            "Core's printed path form are not compared with Core. A failing combination is attributed to the single deviation that fails alone. HDPublicKey.child memoised by the harness. "
            "Non-trivial = any deviation from Core's spelling",
        ),
        Engine(
            "history",
            gen_history,
            lambda case: run_history(case, tier, seed),
            kind="E2",
            rule="explicit-state search over get_address call histories, every call compared with the reference: 'single' = one constructor-built 2-of-3 object, operations (index in {0,1,2^31-1}) x "
            "{receive, change}, ALL sequences of length 3 (216; thorough also a parse()-built mainnet object with per-cosigner account indexes); 'multi' = three live objects over the same cosigner "
            "xpubs - A (account 0, constructor), B (account 1, constructor; B.receive == A.change legitimately), P (account 0, parse() of a text with records in descending xpub order) - operations "
            "(object, index in {0,1}, branch), ALL sequences of length 3 (1728; thorough length 4: 20736), fresh objects per sequence; 'real' = the library without memoisation, 1-of-1, "
            "operations {0,1} x {receive, change}, all sequences of length 2 (thorough 3). One case per first operation (thorough multi: per first two). HDPublicKey.child memoised by the harness "
            "except in 'real'. States = distinct histories, transitions = executed calls. Non-trivial = a call made after at least one earlier call",
        ),
        Engine(
            "keyrecord",
            gen_keyrecord,
            run_keyrecord,
            kind="E1",
            rule="key record strings '[xfp/path]xpub/idx/*': 2 keys (thorough 6) x {testnet, mainnet} x all 5 version kinds (xpub/tpub + the four SLIP-132 kinds) x (origin-path style, account index) in "
            "{h,',empty,long,mixed} x {0} + {h} x {1,5,2^31-2,2^31-1}: parse_full_key_record fields (xfp, path, xpub_parent, account_index, network, xpub_child = reference BIP32 public child with the "
            "same version bytes), parse_partial_key_record and parse_any_key_record on the string without '/idx/*' (xfp, path, xpub, network), parse_any_key_record on the full string for the base "
            "combination; plus the flow string -> parse_full_key_record -> P2WSHSortedMulti for 2-of-3 (thorough 1..3-of-3) wallets whose three records carry one kind (5) or three different kinds (3), "
            "mixed path styles and account indexes, every supply order: state == reference. Non-trivial = every (function, string) pair / (wallet, order)",
        ),
        Engine(
            "ties",
            gen_ties,
            run_ties,
            kind="E1",
            chunk=1,
            rule="wallets in which one cosigner xpub occurs at several account indexes (equal sort keys): {X@0, X@2, Y@0} 2-of-3, {X@0, X@1} 1-of-2 (the change branch of the first record is the receive "
            "branch of the second), {X@0, Zpub(X)@2, Y@0}, and wallets whose DIFFERENT xpubs share one master fingerprint and one account index (three xpubs under 00000000, two under 5a5a5a5a at account 3) (thorough: both networks, 3-of-4 {X@0,X@1,X@2,Y@0}); EVERY supply order through the constructor (thorough: also through parse() of the text "
            "in that order). Checks: checksum == Core checksum of the emitted body; the object holds exactly the supplied records, xpub-ascending (constructor) / in text order (parse) - no order is "
            "demanded among records with equal xpub; parse(str(d)) reproduces d; get_address(1, receive/change) == reference P2WSH of the sorted child keys (hence identical for all orders); "
            "receive != change. Non-trivial = every (wallet, order)",
        ),
        Engine(
            "slipmix",
            gen_slipmix,
            run_slipmix,
            kind="E1",
            rule="per-record version bytes: the FULL product of the 5 version kinds {xpub/tpub, ypub/upub, zpub/vpub, Ypub/Upub, Zpub/Vpub} over the records of 1-of-1, 1-of-2 and 2-of-3 wallets "
            "(5 + 25 + 125; thorough also 2-of-4: 625) x {testnet, mainnet}, per-cosigner account indexes; every one of the n! supply orders: str/key_records/network/checksum == reference "
            "(standard version bytes in the text, Core checksum, ascending standardised xpub). No elliptic-curve work. Non-trivial = wallets with at least one SLIP-132 key",
        ),
        Engine(
            "xpubfields",
            gen_xpubfields,
            run_xpubfields,
            kind="E1",
            chunk=1,
            rule="extended-key header fields: depth {0,1,254,255} x child number {0, 2^31-1, 2^31, 2^32-1} x parent fingerprint {00000000, ffffffff, filler} x {testnet, mainnet}, 1-of-2 wallets "
            "(account indexes 0 and 2^31-2), xpub/tpub keys everywhere and a Zpub/Vpub first record on the filler fingerprint (thorough: everywhere): construct == reference, parse(text) == "
            "descriptor; get_address(1, receive/change) == reference and receive != change on the 12 (depth, child) combinations with parent fingerprint 0 (thorough: all). Depth 255 is skipped "
            "(children not serialisable, Core refuses to derive): not asserted. Non-trivial = every asserted wallet",
        ),
        Engine(
            "checksum",
            gen_checksum,
            run_checksum,
            kind="E1",
            rule="calc_core_checksum as a function against the reference DescriptorChecksum: EVERY string of length 0, 1 and 2 (thorough: and 3) over the 95-character descriptor alphabet "
            "(1 + 95 + 9025 (+ 857375)); for every length 3..48 the 95 strings s_o[i] = alphabet[(o + 7i) mod 95] (all three residues of the 3-character class grouping, every character at every "
            "group position); every one of the 161 other code points < 256 plus 3 non-Latin-1 characters inserted at start / middle / end of 3 templates must be rejected. "
            "Non-trivial = every string",
        ),
        Engine(
            "index",
            gen_index,
            run_index,
            kind="E1",
            chunk=1,
            rule="byte boundaries of the serialised child index: account index (all three cosigners) in {255, 256, 65535, 65536, 2^24-1, 2^24} x address index in the same set, full 6 x 6 product "
            "(thorough: both sets + {0, 1, 2^31-2 | 2^31-1}) on one 2-of-3 testnet wallet, plus a mainnet wallet with per-cosigner account indexes (255, 65536, 2^24-1) through parse() of a permuted "
            "text; same comparisons as the address engine (receive and change == reference, receive != change, no overlap over the index alphabet)",
        ),
        Engine(
            "ctor-checksum",
            gen_ctor_checksum,
            run_ctor_checksum,
            kind="E1",
            rule="the constructor's checksum argument on 2 wallets (thorough 3): the reference checksum and the empty string (= none supplied) give the reference descriptor; every substitution of one "
            "of the 8 characters by each of the 94 other characters of the descriptor alphabet, every single-character deletion and every insertion of a checksum-alphabet character must be rejected. "
            "No elliptic-curve work",
        ),
    ]
