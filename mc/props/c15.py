"""C15 — SLIP39 shares: any k recover, fewer never do, corruption is detected.

Engines (all E1: complete enumeration of the stated alphabets/bounds, no sampling):
  gf          GF(256) exp/log tables of ShareSet vs carry-less multiplication, all 256^2 products
  interp      ShareSet.interpolate vs textbook Lagrange for all subsets (size 1..4) of the x-coordinates
              {0..15, 254, 255}, every target x outside the subset, every byte value at every point
  interp-wide recover_secret-style interpolation (targets 255 and 254) from every subset of the 16
              share indexes, points taken from reference polynomials of every degree 0..15
  split       generate_shares for all 136 (k, n): the produced shares lie on one polynomial of degree < k
              whose value at 255 decrypts to the secret and whose value at 254 is a valid digest share
  threshold   end to end through generate_shares / recover_mnemonic: every subset of the produced shares
  mixed       two splits (same/different identifier, secret, randomness, passphrase, exponent, k, n, length):
              every union of a non-empty part of each
  header      Share.mnemonic / Share.parse vs reference bit packing over all header fields
  crypt       ShareSet.encrypt / decrypt vs reference Feistel; inverse; wrong passphrase
  subst       every single-word substitution through Share.parse; complete pair/triple position grid
  syndrome    every 2- and 3-word corruption decided on the single-error syndrome table of the real
              rs1024_polymod (affinity of the function is itself checked)
  member      reference-built shares with member thresholds (one group, two levels) through recover_mnemonic
  draws       shape of the randomness consumed (widths, count, every draw matters) through the randbits seam
  direct      split_secret / recover_secret called directly: reference SplitSecret, subsets, tampered points
  repeat      lists with repeated shares
  defaults    default passphrase / exponent arguments
  tokens      tokens outside the 1024-word list in Share.parse and the word lookup
  order       unsorted lists, middle subset sizes for large n
  foreign     a foreign share inside an otherwise valid set (replaced, three splits, re-encoded member index)
"""
import itertools

from mc.core import Engine, Res, attempt, Rejected, filler
from mc.ref import slip39ref as ref

PROP = "C15"
KN = [(k, n) for n in range(1, 17) for k in range(1, n + 1)]
XS = list(range(16)) + [254, 255]


# ---------------------------------------------------------------- shared helpers
class Stream:
    """Enumerated replacement for secrets.randbits: byte draws follow `kind`, the (single) wide draw
    is the share-set identifier."""

    def __init__(self, ident, kind, seed, label="rs"):
        self.ident, self.kind, self.seed, self.label = ident, kind, seed, label
        self.i = 0
        self.buf = b""

    def __call__(self, nbits):
        mask = (1 << nbits) - 1
        if nbits > 8:
            return mask if self.ident < 0 else self.ident & mask  # "ones": all-one draw of whatever width is asked
        self.i += 1
        if self.kind == "zero":
            return 0
        if self.kind == "ones":
            return mask
        if self.kind == "ctr":
            return (self.i * 37 + 11) & mask
        j = self.i - 1
        if j % 64 == 0:
            self.buf = filler(self.seed, self.label + self.kind, j // 64, 64)
        return self.buf[j % 64] & mask


class patched_randbits:
    def __init__(self, stream):
        self.stream = stream

    def __enter__(self):
        import buidl.shamir as sh

        self.sh, self.old = sh, sh.randbits
        sh.randbits = self.stream

    def __exit__(self, *a):
        self.sh.randbits = self.old


def secret_of(bits, sv, seed):
    n = bits // 8
    if sv == "zero":
        return bytes(n)
    if sv == "ones":
        return b"\xff" * n
    if sv == "hi":
        return b"\x80" + bytes(n - 1)
    if sv == "halves":  # left half == right half
        h = filler(seed, "halves", 0, n // 2)
        return h + h
    return filler(seed, "secret-" + sv, bits, n)


def ident_of(name, seed):
    if name == "fill":
        return int.from_bytes(filler(seed, "ident", 0, 2), "big") & 0x7FFF
    if name == "fill2":
        return (int.from_bytes(filler(seed, "ident", 0, 2), "big") + 0x1234) & 0x7FFF
    if name == "ones":
        return -1
    return int(name)


PASS = {
    "empty": b"",
    "trezor": b"TREZOR",
    "bin": b"\xff\x00\xc3\xa9\x80",
    "nul": b"\x00",
}


def pass_of(name, seed):
    if name == "long":
        return filler(seed, "passphrase", 0, 100)
    return PASS[name]


BASE_CFG = {"bits": 128, "sv": "f0", "pp": "empty", "e": 0, "id": "fill", "rs": "fill"}
CFG_DEVS = [
    {},
    {"bits": 256},
    {"sv": "zero"},
    {"sv": "ones"},
    {"pp": "trezor"},
    {"pp": "bin"},
    {"pp": "long"},
    {"e": 1},
    {"e": 2},
    {"rs": "zero"},
    {"rs": "ones"},
    {"rs": "ctr"},
    {"id": "0"},
    {"id": "ones"},
]
CFG_256 = {"bits": 256, "sv": "f1", "pp": "trezor", "e": 0, "id": "fill2", "rs": "ctr"}


def cfg(**dev):
    c = dict(BASE_CFG)
    c.update(dev)
    return c


def make_split(c, k, n, seed, label="rs"):
    """Run the real generate_shares under an enumerated randbits. Returns (mnemonic, secret, passphrase, shares|Rejected)."""
    from buidl.shamir import ShareSet

    pp = pass_of(c["pp"], seed)
    if c["sv"].startswith("ems:"):
        # the secret is chosen through its ENCRYPTED form (the payload that is split): leading / trailing / all zero bytes
        nb = c["bits"] // 8
        body = filler(seed, "ems-edge", c["bits"], nb)
        ems = {"lead0": b"\x00\x00" + body[2:], "trail0": body[:-2] + b"\x00\x00", "zero": bytes(nb)}[c["sv"][4:]]
        ident = ident_of(c["id"], seed)
        secret = ref.decrypt(ems, pp, c["e"], 0x7FFF if ident < 0 else ident)
    else:
        secret = secret_of(c["bits"], c["sv"], seed)
    mn = ref.bip39_encode(secret)
    with patched_randbits(Stream(ident_of(c["id"], seed), c["rs"], seed, label)):
        shares = attempt(ShareSet.generate_shares, mn, k, n, passphrase=pp, exponent=c["e"])
    return mn, secret, pp, shares


def kclass(k):
    return "k=1" if k == 1 else "k=2" if k == 2 else "k>=3"


def well_formed(shares, k, n):
    if isinstance(shares, Rejected):
        return "generate_shares raised " + shares.how
    if not isinstance(shares, (list, tuple)) or not all(isinstance(s, str) for s in shares):
        return "generate_shares did not return a list of strings"
    if len(set(shares)) != len(shares):
        return "generate_shares returned duplicate shares"
    # k == 1: the library hands out a single share for any n (recorded in DESIGN 6 as not a violation)
    if len(shares) != n and not (k == 1 and len(shares) >= 1):
        return f"generate_shares returned {len(shares)} shares for n={n}"
    return None


# ---------------------------------------------------------------- gf
def gen_gf(tier, seed):
    return [{"a": a} for a in range(256)]


def run_gf(case):
    from buidl.shamir import ShareSet

    res = Res()
    a = case["a"]
    exp, log = ShareSet.exp, ShareSet.log2
    vc = {"engine": "gf", "case": case}
    if a == 0:
        # table shape: exp has the 255 non-zero elements exactly once, log inverts it
        ok = len(exp) == 255 and len(log) == 256 and sorted(exp) == list(range(1, 256)) and all(log[exp[i]] == i for i in range(255))
        if not ok:
            res.violation("C15/gf/table-shape", vc, {"len_exp": len(exp), "len_log": len(log)}, "exp is a bijection Z255 -> GF(256)*, log its inverse", "exp/log tables malformed")
            return res
        res.ok("table-shape")
        g = exp[1]
        if all(exp[i] == ref.gf_pow(g, i) for i in range(255)):
            res.ok("exp[i]==g^i", nontrivial=("pow", g))
        else:
            res.violation("C15/gf/exp-not-powers", vc, exp[:8], [ref.gf_pow(g, i) for i in range(8)], "exp table is not the sequence of powers of its base in GF(2^8)/0x11B")
        return res
    bad = None
    for b in range(1, 256):
        got = exp[(log[a] + log[b]) % 255]
        if got != ref.gf_mul(a, b):
            bad = (b, got, ref.gf_mul(a, b))
            break
        d = exp[(log[a] - log[b]) % 255]
        if ref.gf_mul(d, b) != a:
            bad = (b, d, "a/b")
            break
    if bad:
        res.violation("C15/gf/product", vc, {"b": bad[0], "got": bad[1]}, bad[2], "product/quotient via exp/log tables differs from carry-less multiplication mod 0x11B")
    else:
        res.bulk("product+quotient==ref", 510, 510)
    return res


# ---------------------------------------------------------------- interp
SMALL = (0, 1, 0x80, 0xFF)


def interp_values(s, seed):
    """Byte strings y_0..y_{s-1}: segment i sweeps y_i over all 256 values with the others fixed, a final
    segment runs over SMALL^s.  (Interpolation is bytewise, every byte position is one evaluation.)"""
    ys = [bytearray() for _ in range(s)]
    for i in range(s):
        for j in range(s):
            if i == j:
                ys[j] += bytes(range(256))
            else:
                ys[j] += bytes([filler(seed, "interp-y", j, 1)[0] | 1]) * 256
    for combo in itertools.product(SMALL, repeat=s):
        for j in range(s):
            ys[j].append(combo[j])
    return [bytes(y) for y in ys]


def gen_interp(tier, seed):
    cases = []
    for s in (1, 2, 3, 4):
        for xs in itertools.combinations(XS, s):
            if s <= 3 or tier == "thorough":
                targets = "all"
            else:
                targets = "recover+next"  # 254, 255 and the smallest unused share index
            cases.append({"xs": list(xs), "targets": targets, "seed": seed})
    return cases


def run_interp(case):
    from buidl.shamir import ShareSet

    res = Res()
    xs = case["xs"]
    ys = interp_values(len(xs), case["seed"])
    pts = list(zip(xs, ys))
    free = [x for x in XS if x not in xs]
    if case["targets"] == "all":
        targets = free
    else:
        targets = [x for x in (254, 255) if x in free] + [min(x for x in free if x < 16)]
    res.skip("interpolation target equal to a data x-coordinate (never requested by split/recover)", len(xs))
    for x in targets:
        want = ref.interpolate(x, pts)
        got = attempt(ShareSet.interpolate, x, [(a, b) for a, b in pts])
        if got != want:
            pos = None
            if isinstance(got, bytes) and len(got) == len(want):
                pos = next(i for i in range(len(want)) if got[i] != want[i])
            res.violation(
                f"C15/interp/size{len(xs)}",
                {"engine": "interp", "case": case},
                {"x": x, "first_diff_at": pos, "got": repr(got)[:80]},
                {"want": want[:16].hex()},
                "ShareSet.interpolate differs from Lagrange interpolation over GF(256)",
            )
        else:
            res.bulk("interpolate==ref", len(want), len(want))
    return res


# ---------------------------------------------------------------- interp-wide
def wide_poly(k, nbytes, seed):
    coeffs = [filler(seed, "wide-coeff", k * 32 + i, nbytes) for i in range(k)]
    # leading coefficient non-zero in every byte so the degree is exactly k-1 everywhere
    coeffs[-1] = bytes(b | 1 for b in coeffs[-1])
    return coeffs


_wide_cache = {}


def wide_points(k, nbytes, seed):
    key = (k, nbytes, seed)
    if key not in _wide_cache:
        co = wide_poly(k, nbytes, seed)
        _wide_cache[key] = {x: ref.poly_eval(co, x) for x in XS}
    return _wide_cache[key]


def gen_wide(tier, seed):
    return [{"k": k, "hi": hi, "nbytes": 16 if tier == "quick" else 32, "all_sizes": tier == "thorough", "seed": seed} for k in range(1, 17) for hi in range(256)]


def run_wide(case):
    from buidl.shamir import ShareSet

    res = Res()
    k = case["k"]
    P = wide_points(k, case["nbytes"], case["seed"])
    n_ok = 0
    for lo in range(256):
        mask = case["hi"] << 8 | lo
        size = bin(mask).count("1")
        if size < k or (not case["all_sizes"] and size > k + 1):
            continue
        pts = [(i, P[i]) for i in range(16) if mask >> i & 1]
        for x in (255, 254):
            got = attempt(ShareSet.interpolate, x, pts)
            if got != P[x]:
                res.violation(
                    f"C15/interp-wide/{'size=k' if size == k else 'size>k'}/to{x}",
                    {"engine": "interp-wide", "case": case},
                    {"mask": mask, "got": repr(got)[:80]},
                    P[x].hex(),
                    "interpolating >= k points of a degree k-1 polynomial does not reproduce its value at the secret/digest coordinate",
                )
            else:
                n_ok += 1
    if n_ok:
        res.bulk("interpolate==poly", n_ok, n_ok)
    else:
        res.skip("no subset of the required size in this block")
    return res


# ---------------------------------------------------------------- split
def gen_split(tier, seed):
    cfgs = [cfg(), cfg(**CFG_256), cfg(rs="zero"), cfg(rs="ones", id="ones"), cfg(bits=256, rs="ctr", sv="ones", id="0"), cfg(sv="zero", pp="bin", e=2)]
    if tier == "thorough":
        cfgs += [cfg(**d) for d in CFG_DEVS[1:]] + [cfg(bits=256, sv=sv, rs=rs) for sv in ("zero", "hi", "f2") for rs in ("zero", "ones", "fill")]
    out, seen = [], set()
    for c in cfgs:
        if repr(sorted(c.items())) in seen:
            continue
        seen.add(repr(sorted(c.items())))
        for k, n in KN:
            out.append({"cfg": c, "k": k, "n": n, "seed": seed})
    return out


def run_split(case):
    res = Res()
    c, k, n, seed = case["cfg"], case["k"], case["n"], case["seed"]
    vc = {"engine": "split", "case": case}
    tag = kclass(k)
    mn, secret, pp, shares = make_split(c, k, n, seed)
    err = well_formed(shares, k, n)
    if err:
        res.violation(f"C15/split/generate/{tag}", vc, err, f"{n} distinct share mnemonics", "generate_shares failed on an in-statement input")
        return res
    dec = []
    for s in shares:
        try:
            dec.append(ref.decode_share(s))
        except ref.Invalid as e:
            res.violation(f"C15/split/share-not-slip39/{tag}", vc, {"share": s, "why": str(e)}, "a well-formed SLIP39 share", "generated share is rejected by the reference decoder")
            return res
    # the spec's recovery (exactly k shares) on the first and the last k shares, and relaxed on all
    want = secret
    for name, sub in (("first-k", dec[:k]), ("last-k", dec[-k:]), ("all", dec)):
        try:
            got = ref.recover(sub, pp, exact=(name != "all"))
        except ref.Invalid as e:
            got = "Invalid(%s)" % e
        if got != want:
            res.violation(f"C15/split/ref-recover/{tag}", vc, got, want.hex(), "the reference recovery of library-generated shares does not give the secret")
            return res
    # all points on one polynomial of degree < k
    pts = [(d["gi"], d["value"]) for d in dec]
    if k > 1:
        head = pts[:k]
        for x, y in pts[k:]:
            if ref.interpolate(x, head) != y:
                res.violation(f"C15/split/not-on-polynomial/{tag}", vc, {"x": x}, "value of the degree<k polynomial through the first k shares", "shares are not evaluations of one polynomial of degree < k")
                return res
    res.ok("shares==polynomial(secret,digest)", nontrivial=(c["bits"], c["sv"], c["rs"], c["pp"], c["e"], c["id"], k, n), sample={"k": k, "n": n, "share0": shares[0]} if (k, n) == (3, 5) else None)
    return res


# ---------------------------------------------------------------- threshold
def gen_threshold(tier, seed):
    cases = []
    small = 6 if tier == "quick" else 8
    devs = [cfg(**d) for d in CFG_DEVS]
    for c in devs:
        for k, n in KN:
            if n <= small:
                cases.append({"cfg": c, "k": k, "n": n, "mode": "all", "seed": seed})
    # payload edge values (the split payload has leading / trailing / only zero bytes) and passphrase x exponent interaction
    edge = [cfg(sv="ems:lead0"), cfg(sv="ems:trail0"), cfg(sv="ems:zero"), cfg(bits=256, sv="ems:lead0"), cfg(bits=256, sv="ems:trail0", pp="trezor"), cfg(pp="bin", e=2), cfg(pp="long", e=1)]
    for c in edge:
        for k, n in KN:
            if n <= (4 if tier == "quick" else 6):
                cases.append({"cfg": c, "k": k, "n": n, "mode": "all", "seed": seed})
    two = [cfg(), cfg(**CFG_256)]
    if tier == "quick":
        for c in two:
            for k, n in KN:
                if 7 <= n <= 8:
                    cases.append({"cfg": c, "k": k, "n": n, "mode": "all", "seed": seed})
                elif n >= 9:
                    cases.append({"cfg": c, "k": k, "n": n, "mode": "windows", "seed": seed})
    else:
        for c in two:
            for k, n in KN:
                if 9 <= n <= 12:
                    for size in range(0, n + 1):
                        cases.append({"cfg": c, "k": k, "n": n, "mode": "size", "size": size, "seed": seed})
                elif n >= 13:
                    wanted = (0, 1, k - 1, k, k + 1, n) if c["bits"] == 128 else (k - 1, k, n)
                    for size in sorted({s for s in wanted if 0 <= s <= n}):
                        cases.append({"cfg": c, "k": k, "n": n, "mode": "size", "size": size, "seed": seed})

    def weight(cs):
        import math

        if cs["mode"] == "size":
            return math.comb(cs["n"], cs["size"]) * (1 if cs["size"] >= cs["k"] else 0.05)
        return 2 ** cs["n"] if cs["mode"] == "all" else cs["n"] * 4

    cases.sort(key=weight, reverse=True)
    return cases


def subsets_for(case, m):
    """index tuples into the m produced shares"""
    k, n, mode = case["k"], case["n"], case["mode"]
    if mode == "all":
        for size in range(0, m + 1):
            if m <= 4:
                yield from itertools.permutations(range(m), size)
            else:
                yield from itertools.combinations(range(m), size)
    elif mode == "size":
        if case["size"] <= m:
            yield from itertools.combinations(range(m), case["size"])
    else:  # windows: every cyclic window of size k-1, k, k+1 and the full set (forward and reversed)
        seen = set()
        for size in (k - 1, k, k + 1, m):
            if not 0 <= size <= m:
                continue
            for start in range(m):
                w = tuple(sorted((start + j) % m for j in range(size)))
                if w not in seen:
                    seen.add(w)
                    yield w
        yield tuple(reversed(range(m)))


def run_threshold(case):
    from buidl.shamir import ShareSet

    res = Res()
    c, k, n, seed = case["cfg"], case["k"], case["n"], case["seed"]
    vc = {"engine": "threshold", "case": case}
    tag = kclass(k)
    mn, secret, pp, shares = make_split(c, k, n, seed)
    err = well_formed(shares, k, n)
    if err:
        res.violation(f"C15/threshold/generate/{tag}", vc, err, f"{n} distinct share mnemonics", "generate_shares failed on an in-statement input")
        return res
    m = len(shares)
    if m != n:
        res.notes["k=1 splits returning a single share (not asserted)"] = 1
    for comb in subsets_for(case, m):
        sub = [shares[i] for i in comb]
        size = len(comb)
        r = attempt(ShareSet.recover_mnemonic, sub, pp)
        if size >= k:
            if r != mn:
                rel = "size=k" if size == k else "size>k"
                res.violation(
                    f"C15/threshold/not-recovered/{tag}/{rel}",
                    vc,
                    {"subset": list(comb), "got": repr(r)[:120]},
                    mn,
                    f"{size} >= k distinct shares of a {k}-of-{n} split do not recover the original mnemonic",
                )
            else:
                res.ok("recovered", nontrivial=(c["bits"], c["sv"], c["pp"], c["e"], c["id"], c["rs"], k, n, comb), sample={"k": k, "n": n, "subset": list(comb)} if size == k == 3 and n == 5 else None)
        else:
            if not isinstance(r, Rejected):
                res.violation(
                    f"C15/threshold/below-threshold-accepted/{tag}",
                    vc,
                    {"subset": list(comb), "got": repr(r)[:120], "is_secret": r == mn},
                    "rejection",
                    f"{size} < k shares of a {k}-of-{n} split returned a value",
                )
            else:
                res.ok("below-threshold-rejected", nontrivial=(c["bits"], c["sv"], c["pp"], c["e"], c["id"], c["rs"], k, n, comb))
    if case["mode"] in ("all", "windows") or case.get("size") == m:
        # ONE ShareSet object asked with a wrong, the right, another wrong and the right passphrase in turn: every
        # answer must be the reference's for that passphrase (state kept on the object between calls is exposed)
        from buidl.shamir import Share

        def reuse():
            ss = ShareSet([Share.parse(x) for x in shares])
            out = []
            for p2 in (pp + b"x", pp, pp + b"y", pp):
                out.append(ss.recover(p2))
            return out

        got = attempt(reuse)
        try:
            decs = [ref.decode_share(x) for x in shares]
            want = [ref.recover(decs, p2, exact=False) for p2 in (pp + b"x", pp, pp + b"y", pp)]
        except Exception:
            want = None
        if want is not None and m >= k:
            if got != want:
                res.violation(f"C15/threshold/recover-on-reused-shareset/{tag}", vc, repr(got)[:200], [w.hex() for w in want], "ShareSet.recover on one object with passphrases (wrong, right, wrong2, right) in turn differs from the reference for those passphrases")
            else:
                res.ok("reused ShareSet: each passphrase its own answer", nontrivial=("reuse", c["bits"], c["pp"], c["e"], k, n))
        # wrong passphrase on the full set must not give the original mnemonic
        r = attempt(ShareSet.recover_mnemonic, list(shares), pp + b"x")
        if r == mn:
            res.violation(f"C15/threshold/wrong-passphrase-recovers/{tag}", vc, r, "anything but the original mnemonic", "recovery with a different passphrase returned the original mnemonic")
        else:
            res.ok("wrong-passphrase!=secret")
    return res


# ---------------------------------------------------------------- mixed
MIX_VARIANTS = ["rand", "secret", "secret+rand", "id", "exp", "pp", "bits"]


def variant_cfg(a, v):
    b = dict(a)
    if v == "rand":
        b["rs"] = "ctr" if a["rs"] != "ctr" else "fill"
    elif v == "secret":
        b["sv"] = "f7"
    elif v == "secret+rand":
        b["sv"], b["rs"] = "f7", "ones"
    elif v == "id":
        b["id"] = "fill2"
    elif v == "exp":
        b["e"] = 1
    elif v == "pp":
        b["pp"] = "trezor"
    elif v == "bits":
        b["bits"] = 256
    return b


def gen_mixed(tier, seed):
    nmax = 4 if tier == "quick" else 6
    cases = []
    bases = [cfg(), cfg(rs="zero")] if tier == "quick" else [cfg(), cfg(rs="zero"), cfg(**CFG_256)]
    for a in bases:
        for k, n in KN:
            if n > nmax:
                continue
            for v in MIX_VARIANTS:
                cases.append({"a": a, "b": variant_cfg(a, v), "v": v, "k": k, "n": n, "kb": k, "nb": n, "seed": seed})
    a = cfg()
    kn_max = 4 if tier == "quick" else 5
    for k, n in KN:
        for kb, nb in KN:
            if n <= kn_max and nb <= kn_max and (k, n) != (kb, nb):
                for v in ("kn", "kn+secret"):
                    b = variant_cfg(a, "secret+rand") if v == "kn+secret" else dict(a)
                    cases.append({"a": a, "b": b, "v": v, "k": k, "n": n, "kb": kb, "nb": nb, "seed": seed})
    return cases


def run_mixed(case):
    from buidl.shamir import ShareSet

    res = Res()
    seed = case["seed"]
    vc = {"engine": "mixed", "case": case}
    mnA, secA, ppA, A = make_split(case["a"], case["k"], case["n"], seed, "rsA")
    mnB, secB, ppB, B = make_split(case["b"], case["kb"], case["nb"], seed, "rsB")
    for nm, sh, k, n in (("A", A, case["k"], case["n"]), ("B", B, case["kb"], case["nb"])):
        err = well_formed(sh, k, n)
        if err:
            res.violation(f"C15/mixed/generate/{kclass(k)}", vc, err, "shares", "generate_shares failed on an in-statement input")
            return res
    if set(A) == set(B):
        res.skip("the two splits produced identical share sets (not different splits)")
        return res
    dA = [ref.decode_share(s) for s in A]
    dB = [ref.decode_share(s) for s in B]
    both_orders = len(A) + len(B) <= 6
    for ma in range(1, 1 << len(A)):
        ia = [i for i in range(len(A)) if ma >> i & 1]
        for mb in range(1, 1 << len(B)):
            ib = [i for i in range(len(B)) if mb >> i & 1]
            texts = [A[i] for i in ia] + [B[i] for i in ib]
            decs = [dA[i] for i in ia] + [dB[i] for i in ib]
            if len(set(texts)) != len(texts) or set(texts) <= set(A) or set(texts) <= set(B):
                # a share common to both splits makes the union a plain subset of one split
                res.skip("union is a subset of a single split (identical share text in both splits)")
                continue
            try:
                want = ref.bip39_encode(ref.recover(decs, ppA, exact=False))
                why = "accepted"
            except ref.Invalid as e:
                want, why = None, str(e)
            for order in (0, 1) if both_orders else (0,):
                lst = texts if order == 0 else texts[::-1]
                r = attempt(ShareSet.recover_mnemonic, lst, ppA)
                if want is None:
                    if isinstance(r, Rejected):
                        res.ok(f"mixed-rejected({'digest' if why == 'digest' else 'header/count'})", nontrivial=(repr(case["a"]), case["v"], case["k"], case["n"], case["kb"], case["nb"], ma, mb, order) if why == "digest" else None)
                    else:
                        res.violation(
                            f"C15/mixed/accepted/reference-rejects-for-{why.replace(' ', '-')}",
                            vc,
                            {"from_A": ia, "from_B": ib, "order": order, "got": repr(r)[:120], "equals_A": r == mnA, "equals_B": r == mnB},
                            f"rejection (reference: {why})",
                            "shares of two different splits were combined into a result",
                        )
                else:
                    # 2^-32 accident or structurally identical polynomials: the union is a valid share set
                    if r == want or isinstance(r, Rejected):
                        res.ok("mixed-but-consistent(reference accepts)")
                    else:
                        res.violation("C15/mixed/garbage", vc, {"from_A": ia, "from_B": ib, "got": repr(r)[:120]}, want, "mixed set accepted with a value different from the reference's")
    return res


# ---------------------------------------------------------------- header
H_ALPHA = {
    "id": ["0", "1", "32767", "fill"],
    "exp": [0, 1, 2, 31],
    "gi": [0, 1, 15],
    "gtc": [[1, 1], [1, 16], [16, 16], [2, 3]],
    "mi": [0, 15],
    "mt": [1, 2, 16],
    "val": ["zero", "ones", "hi", "one", "f0"],
    "bits": [128, 256],
}
H_BASE = {"id": "fill", "exp": 0, "gi": 1, "gtc": [2, 3], "mi": 0, "mt": 1, "val": "f0", "bits": 128}


def gen_header(tier, seed):
    cases = [{"kind": "wordlist"}]
    for bits in (128, 256):
        for lo in range(0, 32768, 512):
            cases.append({"kind": "sweep", "field": "id", "lo": lo, "hi": lo + 512, "bits": bits, "seed": seed})
        for f, lo, hi in (("exp", 0, 32), ("gi", 0, 16), ("mi", 0, 16), ("mt", 1, 17), ("valbit", 0, bits), ("valnbit", 0, bits)):
            cases.append({"kind": "sweep", "field": f, "lo": lo, "hi": hi, "bits": bits, "seed": seed})
        cases.append({"kind": "sweep", "field": "gtc", "lo": 0, "hi": len(KN), "bits": bits, "seed": seed})
    keys = list(H_ALPHA)
    for combo in itertools.product(*[range(len(H_ALPHA[k])) for k in keys[:4]]):
        cases.append({"kind": "product", "fix": {k: H_ALPHA[k][i] for k, i in zip(keys[:4], combo)}, "seed": seed})
    return cases


def h_share(d, seed):
    bits = d["bits"]
    v = d["val"]
    if isinstance(v, int):
        value = v.to_bytes(bits // 8, "big")
    elif v == "one":
        value = (1).to_bytes(bits // 8, "big")
    else:
        value = secret_of(bits, v, seed)
    return {"bits": bits, "id": ident_of(d["id"], seed) if isinstance(d["id"], str) else d["id"], "exp": d["exp"], "gi": d["gi"], "gt": d["gtc"][0], "gc": d["gtc"][1], "mi": d["mi"], "mt": d["mt"], "value": value}


def lib_fields(p):
    return {
        "bits": p.share_bit_length,
        "id": p.id,
        "exp": p.exponent,
        "gi": p.group_index,
        "gt": p.group_threshold,
        "gc": p.group_count,
        "mi": p.member_index,
        "mt": p.member_threshold,
        "value": bytes(p.bytes),
        "int": p.value,
    }


def word_diff(got, want):
    """which part of the share text differs: header words 0..3, value words, the 3 checksum words"""
    if not isinstance(got, str):
        return "raised"
    g, w = got.split(), want.split()
    if len(g) != len(w):
        return "length"
    parts = set()
    for i, (a, b) in enumerate(zip(g, w)):
        if a != b:
            parts.add("header" if i < 4 else "checksum" if i >= len(w) - 3 else "value")
    return "+".join(sorted(parts)) + "-words"


def check_header(res, s, cls, vc):
    from buidl.shamir import Share

    want = ref.encode_share(s)
    assert ref.decode_share(want) == s
    obj = attempt(Share, s["bits"], s["id"], s["exp"], s["gi"], s["gt"], s["gc"], s["mi"], s["mt"], int.from_bytes(s["value"], "big"))
    if isinstance(obj, Rejected):
        res.violation("C15/header/construct", vc, {"share": s, "how": obj.how}, "constructible", "Share() refuses in-range header fields")
        return
    text = attempt(obj.mnemonic)
    if text != want:
        res.violation(f"C15/header/encode/{word_diff(text, want)}", vc, {"share": s, "got": repr(text)[:200]}, want, "Share.mnemonic differs from the reference encoding")
    else:
        res.ok("mnemonic==ref")
    p = attempt(Share.parse, want)
    if isinstance(p, Rejected):
        res.violation("C15/header/parse-rejects", vc, {"share": s, "text": want, "how": p.how}, "parses", "Share.parse rejects a well-formed share")
        return
    f = attempt(lib_fields, p)
    exp_f = dict(s, int=int.from_bytes(s["value"], "big"))
    if f != exp_f:
        diff = sorted(k for k in exp_f if isinstance(f, Rejected) or f.get(k) != exp_f[k])
        res.violation(f"C15/header/parse-fields/{'+'.join(diff)}", vc, {"text": want, "got": f}, exp_f, "parsed share fields differ from the encoded ones")
    else:
        res.ok("parse-fields==ref")
    back = attempt(p.mnemonic)
    if back != want:
        res.violation(f"C15/header/roundtrip/{word_diff(back, want)}", vc, {"text": want, "got": repr(back)[:200]}, want, "parse -> mnemonic does not reproduce the share text")
    else:
        res.ok("parse.mnemonic==text", nontrivial=want)


def run_header(case):
    res = Res()
    vc = {"engine": "header", "case": case}
    if case["kind"] == "wordlist":
        from buidl.shamir import SLIP39

        words = attempt(lambda: list(SLIP39.words))
        if words != ref.WORDS:
            res.violation("C15/header/wordlist", vc, {"n": len(words) if isinstance(words, list) else repr(words)}, "the published 1024-word SLIP39 list", "slip39_words.txt differs from the published list")
            return res
        bad = [w for i, w in enumerate(ref.WORDS) if attempt(SLIP39.__getitem__, w) != i or attempt(SLIP39.__getitem__, i) != w]
        if bad:
            res.violation("C15/header/wordlist-lookup", vc, bad[:5], "word <-> index bijection", "SLIP39 word lookup is not the list's index map")
        else:
            res.bulk("word<->index", 1024, 1024)
        return res
    seed = case["seed"]
    if case["kind"] == "sweep":
        f = case["field"]
        for v in range(case["lo"], case["hi"]):
            d = dict(H_BASE, bits=case["bits"])
            if f == "gtc":
                d["gtc"] = list(KN[v])
            elif f == "valbit":
                d["val"] = 1 << v
            elif f == "valnbit":
                d["val"] = ((1 << case["bits"]) - 1) ^ (1 << v)
            else:
                d[f] = v
            check_header(res, h_share(d, seed), f"sweep-{f}", vc)
        return res
    keys = list(H_ALPHA)
    for combo in itertools.product(*[H_ALPHA[k] for k in keys[4:]]):
        d = dict(case["fix"])
        d.update(zip(keys[4:], combo))
        check_header(res, h_share(d, seed), "product", vc)
    return res


# ---------------------------------------------------------------- crypt
def gen_crypt(tier, seed):
    ids = ["0", "32767", "fill"] if tier == "quick" else ["0", "1", "255", "256", "32767", "fill", "fill2"]
    pls = ["zero", "ones", "f0", "halves"] if tier == "quick" else ["zero", "ones", "hi", "f0", "f1", "halves"]
    exps = [0, 1, 2] if tier == "quick" else [0, 1, 2, 3, 4]
    pps = ["empty", "trezor", "bin", "nul", "long"]
    return [{"bits": b, "pl": p, "id": i, "e": e, "pp": pp, "seed": seed} for b in (128, 256) for p in pls for i in ids for e in exps for pp in pps]


def run_crypt(case):
    from buidl.shamir import Share, ShareSet

    res = Res()
    seed = case["seed"]
    vc = {"engine": "crypt", "case": case}
    payload = secret_of(case["bits"], case["pl"], seed)
    ident = ident_of(case["id"], seed)
    e = case["e"]
    pp = pass_of(case["pp"], seed)
    cls = f"e={e}" if e else f"pp={case['pp']}" if case["pp"] in ("empty", "long") else "base"
    want = ref.encrypt(payload, pp, e, ident)
    enc = attempt(ShareSet.encrypt, payload, ident, e, pp)
    if enc != want:
        res.violation(f"C15/crypt/encrypt/{cls}", vc, enc, want, "ShareSet.encrypt differs from the SLIP39 Feistel cipher")
        return res
    res.ok("encrypt==ref", nontrivial=(case["bits"], case["pl"], case["id"], e, case["pp"]))

    def holder():
        return ShareSet([Share(case["bits"], ident, e, 0, 1, 1, 0, 1, int.from_bytes(want, "big"))])

    ss = attempt(holder)
    if isinstance(ss, Rejected):
        res.violation("C15/crypt/holder", vc, ss.how, "ShareSet", "cannot build a one-share ShareSet")
        return res
    dec = attempt(ss.decrypt, want, pp)
    if dec != payload:
        res.violation(f"C15/crypt/decrypt-not-inverse/{cls}", vc, dec, payload, "decrypt(encrypt(x)) != x")
    else:
        res.ok("decrypt(encrypt(x))==x")
    enc2 = attempt(lambda: ShareSet.encrypt(ss.decrypt(payload, pp), ident, e, pp))
    if enc2 != payload:
        res.violation(f"C15/crypt/encrypt-not-inverse/{cls}", vc, enc2, payload, "encrypt(decrypt(x)) != x")
    else:
        res.ok("encrypt(decrypt(x))==x")
    other = pp + b"x"  # (a trailing NUL would be the same HMAC key: keys are zero-padded)
    wrong = attempt(ss.decrypt, want, other)
    if wrong == payload or wrong != ref.decrypt(want, other, e, ident):
        res.violation(f"C15/crypt/wrong-passphrase/{cls}", vc, wrong, "reference decryption under the other passphrase (!= payload)", "decryption with a different passphrase returns the payload or a non-reference value")
    else:
        res.ok("wrong-passphrase!=payload")
    return res


# ---------------------------------------------------------------- checksum: shared bases
def base_share(L, which, seed):
    bits = 128 if L == 20 else 256
    if which == 0:
        d = {"bits": bits, "id": ident_of("fill", seed), "exp": 0, "gi": 2, "gt": 3, "gc": 5, "mi": 0, "mt": 1, "value": filler(seed, "subst-base", bits, bits // 8)}
    elif which == 1:
        d = {"bits": bits, "id": 0, "exp": 0, "gi": 0, "gt": 1, "gc": 1, "mi": 0, "mt": 1, "value": bytes(bits // 8)}
    else:
        d = {"bits": bits, "id": 0x7FFF, "exp": 31, "gi": 15, "gt": 16, "gc": 16, "mi": 15, "mt": 16, "value": b"\xff" * (bits // 8)}
    text = ref.encode_share(d)
    return text, [ref.WORD_INDEX[w] for w in text.split()]


def to_text(idx):
    return " ".join(ref.WORDS[i] for i in idx)


PAIR_D = (1, 0x200, 0x3FF, 0x155, 0x2AA, 2, 0x10, 0x0F3, 0x30C)
TRIPLE_D = (1, 0x3FF, 0x200)


def gen_subst(tier, seed):
    cases = []
    full = tier == "thorough"
    for L in (20, 33):
        for which in (0, 1, 2) if full else (0, 2):
            for p in range(L):
                cases.append({"kind": "single", "L": L, "base": which, "p": p, "seed": seed})
        for p1, p2 in itertools.combinations(range(L), 2):
            cases.append({"kind": "grid", "L": L, "base": 0, "p1": p1, "p2": p2, "nd2": 9 if full else 5, "nd3": 3 if full else 2, "seed": seed})
    return cases


def run_subst(case):
    from buidl.shamir import Share, rs1024_polymod, rs1024_verify_checksum

    res = Res()
    L = case["L"]
    vc = {"engine": "subst", "case": case}
    text, idx = base_share(L, case["base"], case["seed"])
    pre = list(ref.CUSTOM)
    honest = attempt(Share.parse, text)
    if isinstance(honest, Rejected) or attempt(rs1024_verify_checksum, ref.CUSTOM, list(idx)) is not True:
        res.violation(f"C15/subst/honest-rejected/L{L}", vc, repr(honest), "parses", "an uncorrupted share is rejected")
        return res

    def probe(mod, n_err, verify=True):
        """mod: corrupted index list; records the outcome"""
        r = attempt(Share.parse, to_text(mod))
        v = attempt(rs1024_verify_checksum, ref.CUSTOM, list(mod)) if verify else False
        if not isinstance(r, Rejected):
            res.violation(f"C15/subst/accepted/{n_err}-word/L{L}", vc, {"text": to_text(mod), "diff": [i for i in range(L) if mod[i] != idx[i]]}, "rejection", f"a share with {n_err} substituted word(s) parses")
            return False
        if v is True or (not isinstance(v, Rejected) and v):
            res.violation(f"C15/subst/checksum-passes/{n_err}-word/L{L}", vc, {"text": to_text(mod)}, "checksum failure", f"the RS1024 checksum accepts {n_err} substituted word(s) (rejected only by a later check)")
            return False
        return True

    if case["kind"] == "single":
        p = case["p"]
        n_ok = 0
        for w in range(1024):
            if w == idx[p]:
                continue
            mod = list(idx)
            mod[p] = w
            if probe(mod, 1, verify=False):
                n_ok += 1
            got = attempt(rs1024_polymod, pre + mod)
            want = ref.rs1024_residue(pre + mod)
            if got == 1:
                res.violation(f"C15/subst/checksum-passes/1-word/L{L}", vc, {"text": to_text(mod)}, "polymod != 1", "the RS1024 polymod of a share with one substituted word is 1")
            if got != want:
                res.violation(f"C15/subst/polymod/L{L}", vc, {"values": mod, "got": got}, want, "rs1024_polymod differs from the GF(1024) remainder modulo (X-a)(X-a^2)(X-a^3)")
                break
        res.bulk("single-substitution-rejected", n_ok, n_ok)
        return res
    p1, p2 = case["p1"], case["p2"]
    n_ok = 0
    pair_d, triple_d = PAIR_D[: case["nd2"]], TRIPLE_D[: case["nd3"]]
    for d1 in pair_d:
        for d2 in pair_d:
            mod = list(idx)
            mod[p1] ^= d1
            mod[p2] ^= d2
            n_ok += probe(mod, 2)
    res.bulk("double-substitution-rejected", n_ok, n_ok)
    n_ok = 0
    for p3 in range(p2 + 1, L):
        for d1 in triple_d:
            for d2 in triple_d:
                for d3 in triple_d:
                    mod = list(idx)
                    mod[p1] ^= d1
                    mod[p2] ^= d2
                    mod[p3] ^= d3
                    n_ok += probe(mod, 3)
    if n_ok:
        res.bulk("triple-substitution-rejected", n_ok, n_ok)
    return res


# ---------------------------------------------------------------- syndrome
_syn_cache = {}


class Syndromes:
    """S[p][d] = polymod(word with index p xored by d) ^ polymod(word), computed with the library function,
    rows built on demand (one worker-level cache per word length)."""

    def __init__(self, L, which, seed):
        from buidl.shamir import rs1024_polymod

        self.polymod = rs1024_polymod
        self.L = L
        _, self.idx = base_share(L, which, seed)
        self.pre = list(ref.CUSTOM)
        self.p0 = rs1024_polymod(self.pre + self.idx)
        self.rows = {}
        self._all = None

    def of(self, p, d):
        mod = list(self.idx)
        mod[p] ^= d
        return self.polymod(self.pre + mod) ^ self.p0

    def __getitem__(self, p):
        if p not in self.rows:
            self.rows[p] = [0] + [self.of(p, d) for d in range(1, 1024)]
        return self.rows[p]

    def all(self):
        if self._all is None:
            self._all = frozenset(v for p in range(self.L) for v in self[p][1:])
        return self._all


def syndromes(L, which, seed):
    key = (L, which, seed)
    if key not in _syn_cache:
        _syn_cache[key] = Syndromes(L, which, seed)
    return _syn_cache[key]


def gen_syndrome(tier, seed):
    cases = []
    for L in (20, 33):
        cases.append({"kind": "singles", "L": L, "seed": seed})
        for p in range(L):
            cases.append({"kind": "affine", "L": L, "p": p, "seed": seed})
        for p1 in range(L - 2):
            cases.append({"kind": "rank", "L": L, "p1": p1, "seed": seed})
        if L == 20 or tier == "thorough":
            for p1, p2 in itertools.combinations(range(L), 2):
                cases.append({"kind": "pair", "L": L, "p1": p1, "p2": p2, "seed": seed})
    return cases


def gf2_rank(vectors):
    """rank over GF(2) of integers seen as bit vectors"""
    basis = {}
    for v in vectors:
        while v:
            h = v.bit_length() - 1
            if h not in basis:
                basis[h] = v
                break
            v ^= basis[h]
    return len(basis)


def run_syndrome(case):
    from buidl.shamir import rs1024_polymod, rs1024_verify_checksum

    res = Res()
    L, seed = case["L"], case["seed"]
    vc = {"engine": "syndrome", "case": case}
    S = syndromes(L, 0, seed)
    p0, idx = S.p0, S.idx
    pre = list(ref.CUSTOM)
    if case["kind"] == "singles":
        T = S.all()
        if p0 != 1:
            res.violation(f"C15/syndrome/honest/L{L}", vc, p0, 1, "polymod of an uncorrupted share is not 1")
        if 0 in T:
            p, d = next((p, d) for p in range(L) for d in range(1, 1024) if S[p][d] == 0)
            res.violation(f"C15/syndrome/single-undetected/L{L}", vc, {"p": p, "d": d}, "non-zero syndrome", "a single substituted word leaves the checksum valid")
        elif len(T) != L * 1023:
            res.violation(f"C15/syndrome/double-undetected/L{L}", vc, {"distinct": len(T)}, L * 1023, "two different single-word errors share a syndrome: some double substitution is undetected")
        else:
            res.bulk("single-syndromes-nonzero-and-distinct", L * 1023, L * 1023)
            res.notes[f"L{L}: double substitutions decided by distinctness of single syndromes"] = L * (L - 1) // 2 * 1023 * 1023
        # linearity inside one position: S[p][d] is the xor of S[p][bit] over the bits of d (used by the rank cases)
        for p in range(L):
            for d in range(1, 1024):
                acc = 0
                for b in range(10):
                    if d >> b & 1:
                        acc ^= S[p][1 << b]
                if acc != S[p][d]:
                    res.violation(f"C15/syndrome/not-linear-in-error/L{L}", vc, {"p": p, "d": d}, "xor of the bit syndromes", "single-error syndromes are not GF(2)-linear in the error value")
                    return res
        res.bulk("syndrome-linear-in-error-value", L * 1023, L * 1023)
        return res
    if case["kind"] == "rank":
        # the 30 bit-syndromes of any three positions are linearly independent <=> no corruption confined to
        # those positions (1, 2 or 3 words, any values) has syndrome zero
        p1 = case["p1"]
        n_ok = 0
        key = ("bits", L, seed)
        if key not in _syn_cache:
            _syn_cache[key] = [[S.of(p, 1 << b) for b in range(10)] for p in range(L)]
        bits = _syn_cache[key]
        for p2 in range(p1 + 1, L):
            for p3 in range(p2 + 1, L):
                vecs = [bits[p][b] for p in (p1, p2, p3) for b in range(10)]
                if gf2_rank(vecs) != 30:
                    # find the concrete undetected corruption by brute force over the dependent span
                    T3 = {S[p3][d]: d for d in range(1024)}
                    found = None
                    for d1 in range(1024):
                        for d2 in range(1024):
                            d3 = T3.get(S[p1][d1] ^ S[p2][d2])
                            if d3 is not None and (d1 or d2 or d3):
                                found = (d1, d2, d3)
                                break
                        if found:
                            break
                    mod = list(idx)
                    for p, d in zip((p1, p2, p3), found):
                        mod[p] ^= d
                    nerr = sum(1 for i in range(L) if mod[i] != idx[i])
                    v = attempt(rs1024_verify_checksum, ref.CUSTOM, mod)
                    res.violation(
                        f"C15/syndrome/{nerr}-word-undetected/L{L}",
                        vc,
                        {"positions": [p1, p2, p3], "xors": list(found), "text": to_text(mod), "verify_checksum": repr(v)},
                        "checksum failure",
                        f"a corruption of {nerr} words passes rs1024_verify_checksum",
                    )
                    return res
                n_ok += 1
        res.bulk("position-triple-has-full-rank", n_ok, n_ok)
        res.notes[f"L{L}: corruptions of <=3 words decided by rank (2^30-1 patterns per position triple; patterns on fewer positions are counted repeatedly)"] = n_ok * (2**30 - 1)
        return res
    if case["kind"] == "affine":
        # the table must not depend on the word it was computed from, and syndromes must add up
        p = case["p"]
        n_ok = 0
        for which in (1, 2):
            _, idx2 = base_share(L, which, seed)
            q0 = rs1024_polymod(pre + idx2)
            mod = list(idx2)
            for d in range(1, 1024):
                mod[p] = idx2[p] ^ d
                if rs1024_polymod(pre + mod) ^ q0 != S[p][d]:
                    res.violation(f"C15/syndrome/not-affine/L{L}", vc, {"base": which, "p": p, "d": d}, "same syndrome for the same error on any word", "rs1024_polymod is not affine over GF(2): the syndrome-table argument does not apply")
                    return res
                n_ok += 1
        for p2 in range(L):
            if p2 == p:
                continue
            for d1 in PAIR_D:
                for d2 in PAIR_D:
                    mod = list(idx)
                    mod[p] ^= d1
                    mod[p2] ^= d2
                    if rs1024_polymod(pre + mod) ^ p0 != S[p][d1] ^ S[p2][d2]:
                        res.violation(f"C15/syndrome/not-additive/L{L}", vc, {"p": [p, p2], "d": [d1, d2]}, "xor of the single syndromes", "syndromes of a double error are not the xor of the single ones")
                        return res
                    n_ok += 1
        res.bulk("syndrome-table-base-independent-and-additive", n_ok, n_ok)
        return res
    p1, p2 = case["p1"], case["p2"]
    T = S.all()
    row2 = S[p2][1:]
    hit = None
    for d1 in range(1, 1024):
        s1 = S[p1][d1]
        if not T.isdisjoint(map(s1.__xor__, row2)):
            hit = d1
            break
    if hit is None:
        res.bulk("pair-xor-not-a-single-syndrome", 1023 * 1023, 1023 * 1023)
        res.notes[f"L{L}: triple substitutions decided (pairs x third position x 1023)"] = 1023 * 1023 * (L - 2) * 1023 // 3
        return res
    # build the concrete counterexample and confirm it on the real verifier
    s1 = S[p1][hit]
    d2 = next(d for d in range(1, 1024) if (s1 ^ S[p2][d]) in T)
    tgt = s1 ^ S[p2][d2]
    p3, d3 = next((p, d) for p in range(L) for d in range(1, 1024) if S[p][d] == tgt)
    mod = list(idx)
    mod[p1] ^= hit
    mod[p2] ^= d2
    mod[p3] ^= d3
    nerr = sum(1 for i in range(L) if mod[i] != idx[i])
    v = attempt(rs1024_verify_checksum, ref.CUSTOM, mod)
    res.violation(
        f"C15/syndrome/{nerr}-word-undetected/L{L}",
        vc,
        {"positions": [p1, p2, p3], "xors": [hit, d2, d3], "text": to_text(mod), "verify_checksum": repr(v)},
        "checksum failure",
        f"a corruption of {nerr} words passes rs1024_verify_checksum",
    )
    return res


# ================================================================ engines added after the coverage audit
# (member / two-level recovery, draw shape, repeated shares, default arguments, non-list tokens, direct
#  split_secret / recover_secret, list order and mid sizes, foreign shares)
def real_ident(name, seed):
    i = ident_of(name, seed)
    return 0x7FFF if i < 0 else i


def rnd_source(seed, label):
    """callable n -> n filler bytes (a fresh block per call) for the reference's split_points"""
    ctr = [0]

    def rnd(n):
        ctr[0] += 1
        return filler(seed, label, ctr[0], n)

    return rnd


class RecStream(Stream):
    """Stream that records the width of every draw and the value of every byte draw; `flip` = {number of the
    byte draw: xor mask} perturbs chosen draws."""

    def __init__(self, ident, kind, seed, label="rs", flip=None):
        Stream.__init__(self, ident, kind, seed, label)
        self.log = []
        self.drawn = []
        self.flip = flip or {}

    def __call__(self, nbits):
        self.log.append(nbits)
        v = Stream.__call__(self, nbits)
        if nbits <= 8:
            v ^= self.flip.get(len(self.drawn), 0) & ((1 << nbits) - 1)
            self.drawn.append(v)
        return v


# ---------------------------------------------------------------- member (member-threshold / two-level shares)
MEMBER_CFG = {
    "A": {"bits": 128, "sv": "f0", "pp": "trezor", "e": 0, "id": "fill"},
    "B": {"bits": 256, "sv": "f1", "pp": "empty", "e": 0, "id": "fill2"},
    "C": {"bits": 128, "sv": "zero", "pp": "bin", "e": 2, "id": "0"},
}
TWO_SPECS = [[1, 1], [2, 2], [2, 3], [3, 3]]


def build_levels(c, gt, gc, spec, seed, label, secret=None):
    """Shares of a gt-of-gc group split whose group i is an (mt, mc) = spec[i] member split, produced by the
    REFERENCE splitter and encoder.  Returns (secret, passphrase, ident, texts, meta) with meta[i] = (gi, mi, mt)."""
    if secret is None:
        secret = secret_of(c["bits"], c["sv"], seed)
    pp = pass_of(c["pp"], seed)
    ident = real_ident(c["id"], seed)
    ems = ref.encrypt(secret, pp, c["e"], ident)
    rnd = rnd_source(seed, label)
    texts, meta = [], []
    for (gi, gv), (mt, mc) in zip(ref.split_points(gt, gc, ems, rnd), spec):
        for mi, mv in ref.split_points(mt, mc, gv, rnd):
            texts.append(ref.encode_share({"bits": c["bits"], "id": ident, "exp": c["e"], "gi": gi, "gt": gt, "gc": gc, "mi": mi, "mt": mt, "value": mv}))
            meta.append((gi, mi, mt))
    return secret, pp, ident, texts, meta


def level_class(meta, gt):
    """(sufficient, clean, exact): some gt groups reach their member threshold / moreover no present group is
    below its threshold / moreover exactly gt groups with exactly mt members each (the spec's rule)"""
    groups = {}
    for gi, mi, mt in meta:
        groups.setdefault(gi, [mt, set()])[1].add(mi)
    complete = [g for g, (mt, ms) in groups.items() if len(ms) >= mt]
    sufficient = len(complete) >= gt
    clean = sufficient and len(complete) == len(groups)
    exact = clean and len(groups) == gt and all(len(ms) == mt for mt, ms in groups.values())
    return sufficient, clean, exact


def gen_member(tier, seed):
    cases = []
    quick = tier == "quick"
    full_n = 5 if quick else 8
    for name in ("A", "B") if quick else ("A", "B", "C"):
        for mt, mc in KN:  # one group (1-of-1), member threshold mt of mc: the usual encoding of a plain k-of-n
            if mc <= (full_n if name == "A" else 4):
                cases.append({"kind": "levels", "cfg": name, "gt": 1, "gc": 1, "spec": [[mt, mc]], "mode": "all", "seed": seed})
            elif name == "A" or not quick or (mt, mc) in ((16, 16), (9, 16), (2, 16)):
                cases.append({"kind": "levels", "cfg": name, "gt": 1, "gc": 1, "spec": [[mt, mc]], "mode": "windows", "plus": not quick, "seed": seed})
    specs3 = TWO_SPECS[:3] if quick else TWO_SPECS
    cap = 7 if quick else 9
    for gc in (1, 2, 3):
        for gt in range(1, gc + 1):
            for spec in itertools.product(TWO_SPECS if gc < 3 else specs3, repeat=gc):
                if gc == 1 or sum(mc for _, mc in spec) > cap:
                    continue
                cases.append({"kind": "levels", "cfg": "A", "gt": gt, "gc": gc, "spec": [list(s) for s in spec], "mode": "all", "seed": seed})
    for mt, mc in KN:
        if mc <= (3 if quick else 4):
            for v in ("rand", "secret", "mt"):
                if v == "mt" and mc == 1:
                    continue
                cases.append({"kind": "mix", "cfg": "A", "mt": mt, "mc": mc, "v": v, "seed": seed})
    return cases


def run_member(case):
    from buidl.shamir import ShareSet

    res = Res()
    seed = case["seed"]
    c = MEMBER_CFG[case["cfg"]]
    vc = {"engine": "member", "case": case}
    memo = {}

    def ref_value(texts, pp, exact=False):
        """reference outcome: mnemonic or None (decryption memoised per recovered payload)"""
        decs = [ref.decode_share(t) for t in texts]
        try:
            ems = ref.recover_ems(decs, exact)
        except ref.Invalid as e:
            return None, str(e)
        key = (ems, decs[0]["exp"], decs[0]["id"])
        if key not in memo:
            memo[key] = ref.bip39_encode(ref.decrypt(ems, pp, decs[0]["exp"], decs[0]["id"]))
        return memo[key], "accepted"

    if case["kind"] == "mix":
        mt, mc = case["mt"], case["mc"]
        secA, pp, ident, A, _ = build_levels(c, 1, 1, [[mt, mc]], seed, "memA")
        secB = secA if case["v"] == "rand" else secret_of(c["bits"], "f7", seed)
        mtB = mt if case["v"] != "mt" else (mt + 1 if mt < mc else mt - 1)
        _, _, _, B, _ = build_levels(c, 1, 1, [[mtB, mc]], seed, "memB", secret=secB)
        mnA, mnB = ref.bip39_encode(secA), ref.bip39_encode(secB)
        both = len(A) + len(B) <= 6
        for ma in range(1, 1 << len(A)):
            for mb in range(1, 1 << len(B)):
                texts = [A[i] for i in range(len(A)) if ma >> i & 1] + [B[i] for i in range(len(B)) if mb >> i & 1]
                if len(set(texts)) != len(texts) or set(texts) <= set(A) or set(texts) <= set(B):
                    res.skip("union is a subset of a single split (identical share text in both splits)")
                    continue
                for order in (0, 1) if both else (0,):
                    lst = texts if order == 0 else texts[::-1]
                    want, why = ref_value(lst, pp)
                    r = attempt(ShareSet.recover_mnemonic, lst, pp)
                    if want is None:
                        if isinstance(r, Rejected):
                            res.ok(f"member-mix-rejected({'digest' if why == 'digest' else 'header/count'})", nontrivial=(case["cfg"], mt, mc, case["v"], ma, mb, order) if why == "digest" else None)
                        else:
                            res.violation(
                                f"C15/member/mix-accepted/reference-rejects-for-{why.replace(' ', '-')}",
                                vc,
                                {"from_A": ma, "from_B": mb, "order": order, "got": repr(r)[:120], "equals_A": r == mnA, "equals_B": r == mnB},
                                f"rejection (reference: {why})",
                                "member shares of two different splits were combined into a result",
                            )
                    elif r == want or isinstance(r, Rejected):
                        res.ok("member-mix-consistent(reference accepts)")
                    else:
                        res.violation("C15/member/mix-garbage", vc, {"from_A": ma, "from_B": mb, "got": repr(r)[:120]}, want, "mixed member set accepted with a value different from the reference's")
        return res

    gt, gc, spec = case["gt"], case["gc"], case["spec"]
    level = "one-group" if gc == 1 else "two-level"
    secret, pp, ident, texts, meta = build_levels(c, gt, gc, spec, seed, "mem")
    mn = ref.bip39_encode(secret)
    m = len(texts)
    if case["mode"] == "all":
        subsets = [tuple(i for i in range(m) if mask >> i & 1) for mask in range(1 << m)]
        if m <= 3:
            subsets = [p for s in subsets for p in itertools.permutations(s)]
    else:
        mt = spec[0][0]
        seen, subsets = set(), []
        for size in (mt - 1, mt, mt + 1, m) if case.get("plus") else (mt - 1, mt, m):
            if not 0 <= size <= m:
                continue
            for start in range(m):
                w = tuple((start + j) % m for j in range(size))  # list order = cyclic order (wrapping windows are not sorted)
                if tuple(sorted(w)) not in seen:
                    seen.add(tuple(sorted(w)))
                    subsets.append(w)
    for comb in subsets:
        sub = [texts[i] for i in comb]
        r = attempt(ShareSet.recover_mnemonic, sub, pp)
        if not comb:
            if isinstance(r, Rejected):
                res.ok("empty-rejected")
            else:
                res.violation(f"C15/member/below-threshold-accepted/{level}", vc, {"subset": [], "got": repr(r)[:120]}, "rejection", "an empty share list returned a value")
            continue
        sufficient, clean, exact = level_class([meta[i] for i in comb], gt)
        want, why = ref_value(sub, pp)
        if (want is not None) != clean or (want is not None and want != mn):
            raise AssertionError(f"harness: reference outcome {why!r} does not match the structure of subset {comb}")
        if clean:
            if r != mn:
                res.violation(
                    f"C15/member/not-recovered/{level}/{'exact' if exact else 'surplus'}",
                    vc,
                    {"subset": list(comb), "got": repr(r)[:120]},
                    mn,
                    "shares reaching every member threshold and the group threshold (reference-built, reference recovers them) do not recover the original mnemonic",
                )
            else:
                res.ok("recovered", nontrivial=(case["cfg"], gt, gc, repr(spec), comb), sample={"gt": gt, "gc": gc, "spec": spec, "subset": list(comb)} if exact and gc == 2 and gt == 2 else None)
        elif sufficient:
            # enough complete groups plus an incomplete one: the spec rejects, the statement allows either answer
            if isinstance(r, Rejected) or r == mn:
                res.ok("surplus-incomplete-group: rejected" if isinstance(r, Rejected) else "surplus-incomplete-group: recovered")
            else:
                res.violation(f"C15/member/wrong-value/{level}", vc, {"subset": list(comb), "got": repr(r)[:120]}, mn + " or rejection", "a share set with an incomplete extra group returned a value that is not the secret")
        else:
            if isinstance(r, Rejected):
                res.ok("below-threshold-rejected", nontrivial=(case["cfg"], gt, gc, repr(spec), comb))
            else:
                res.violation(
                    f"C15/member/below-threshold-accepted/{level}",
                    vc,
                    {"subset": list(comb), "got": repr(r)[:120], "is_secret": r == mn},
                    "rejection",
                    "fewer member shares than the member threshold (or fewer complete groups than the group threshold) returned a value",
                )
    return res


# ---------------------------------------------------------------- draws (shape of the randomness consumed)
def needed_bytes(k, nbytes):
    return 0 if k == 1 else (nbytes - 4) + (k - 2) * nbytes


def gen_draws(tier, seed):
    cases = []
    for bits in (128, 256):
        for k, n in KN:
            cases.append({"kind": "log", "bits": bits, "k": k, "n": n, "seed": seed})
            if k >= 2 and (bits == 128 or tier == "thorough" or n <= 6 or (k, n) == (16, 16)):
                cases.append({"kind": "dep", "bits": bits, "k": k, "n": n, "xors": [1, 0x80] if tier == "quick" else [1, 2, 4, 8, 0x10, 0x20, 0x40, 0x80], "seed": seed})
    return cases


def run_draws(case):
    import buidl.shamir as sh
    from buidl.shamir import ShareSet

    res = Res()
    k, n, bits, seed = case["k"], case["n"], case["bits"], case["seed"]
    nbytes = bits // 8
    tag = kclass(k)
    vc = {"engine": "draws", "case": case}
    secret = secret_of(bits, "f0", seed)
    need = needed_bytes(k, nbytes)
    if case["kind"] == "log":
        mn = ref.bip39_encode(secret)
        ids = []
        for idname in ("fill", "fill2"):
            st = RecStream(ident_of(idname, seed), "fill", seed)
            with patched_randbits(st):
                shares = attempt(ShareSet.generate_shares, mn, k, n, passphrase=b"", exponent=0)
            err = well_formed(shares, k, n)
            if err:
                res.violation(f"C15/draws/generate/{tag}", vc, err, "shares", "generate_shares failed on an in-statement input")
                return res
            wide = [b for b in st.log if b > 8]
            if not wide or wide[0] < 15:
                res.violation("C15/draws/identifier-width", vc, {"draw_widths": sorted(set(st.log))}, "one draw of at least 15 bits for the identifier", "the share-set identifier is not drawn with 15 bits of randomness")
            else:
                res.ok("identifier draw >= 15 bits")
            got_bits = sum(st.log) - (wide[0] if wide else 0)
            if got_bits < 8 * need:
                res.violation(
                    f"C15/draws/entropy-short/{tag}",
                    vc,
                    {"bits_drawn": got_bits, "draws": len(st.log), "widths": sorted(set(st.log))},
                    {"bits_needed": 8 * need},
                    "generate_shares draws fewer random bits than the k-2 random shares and the digest randomness contain (k-1 shares would not be independent of the secret)",
                )
            else:
                res.ok("random bits drawn >= 8*((k-2)*len + len-4)", nontrivial=(bits, k, n, idname))
            ids.append({ref.decode_share(s)["id"] for s in shares})
        want = [{ident_of("fill", seed)}, {ident_of("fill2", seed)}]
        if ids != want:
            res.violation("C15/draws/identifier-not-the-draw", vc, [sorted(i) for i in ids], [sorted(i) for i in want], "the identifier in the share headers is not the 15-bit value drawn from randbits")
        else:
            res.ok("header identifier == drawn value")
        return res

    def split(flip):
        st = RecStream(0, "fill", seed, "dep", flip)
        with patched_randbits(st):
            pts = attempt(ShareSet.split_secret, secret, k, n)
        if isinstance(pts, Rejected):
            return pts, st
        return tuple((x, bytes(y)) for x, y in pts), st

    base, st0 = split(None)
    if isinstance(base, Rejected):
        res.violation(f"C15/draws/split-raised/{tag}", vc, base.how, "points", "split_secret raised on an in-statement input")
        return res
    D = len(st0.drawn)
    if sum(st0.log) < 8 * need:
        res.violation(f"C15/draws/entropy-short/{tag}", vc, {"bits_drawn": sum(st0.log), "draws": D}, {"bits_needed": 8 * need}, "split_secret draws fewer random bits than the k-2 random shares and the digest randomness contain")
        return res
    seen = {base: "base"}
    widths = [b for b in st0.log if b <= 8]
    n_ok = 0
    for x in case["xors"]:
        for j in range(D):
            if x >> widths[j]:
                continue  # the library asked for a narrower draw: the mask would be cut off
            out, _ = split({j: x})
            if out == base:
                res.violation(f"C15/draws/draw-ignored/{tag}", vc, {"draw": j, "xor": x, "of": D}, "different shares", "changing one random draw does not change the produced shares (the draw is discarded)")
                return res
            if out in seen:
                res.violation(f"C15/draws/draw-collision/{tag}", vc, {"draw": j, "xor": x, "same_as": seen[out]}, "pairwise different share sets", "two different random streams give the same shares (draws are reused or combined)")
                return res
            seen[out] = (j, x)
            n_ok += 1
    res.bulk("each single-draw change gives a new share set", n_ok, n_ok)
    return res


# ---------------------------------------------------------------- direct (split_secret / recover_secret)
def gen_direct(tier, seed):
    cases = []
    quick = tier == "quick"
    for bits in (128, 256):
        for rs in ("fill", "zero", "ones", "ctr"):
            for k, n in KN:
                cases.append({"kind": "split", "bits": bits, "rs": rs, "k": k, "n": n, "seed": seed})
        for k, n in KN:
            if k == 1:
                continue
            mode = "all" if n <= (8 if quick else 10) else "windows"
            cases.append({"kind": "subsets", "bits": bits, "k": k, "n": n, "mode": mode, "seed": seed})
            cases.append({"kind": "tamper", "bits": bits, "k": k, "n": n, "full": n <= (4 if quick else 6), "seed": seed})
    return cases


def run_direct(case):
    from buidl.shamir import ShareSet

    res = Res()
    k, n, bits, seed = case["k"], case["n"], case["bits"], case["seed"]
    nbytes = bits // 8
    tag = kclass(k)
    vc = {"engine": "direct", "case": case}
    secret = secret_of(bits, "f3" if case["kind"] != "split" else "f0", seed)
    with patched_randbits(Stream(0, case.get("rs", "fill"), seed, "direct")):
        pts = attempt(ShareSet.split_secret, secret, k, n)
    ok_shape = isinstance(pts, (list, tuple)) and all(isinstance(p, (list, tuple)) and len(p) == 2 and isinstance(p[0], int) and isinstance(p[1], (bytes, bytearray)) and len(p[1]) == nbytes for p in pts)
    if not ok_shape:
        res.violation(f"C15/direct/split-shape/{tag}", vc, repr(pts)[:200], "a list of (index, bytes) points", "split_secret failed or returned malformed points on an in-statement input")
        return res
    pts = [(x, bytes(y)) for x, y in pts]
    if k == 1:
        # documented deviation (DESIGN 6): one point for any n; the spec gives n equal points. Both are accepted.
        good = len(pts) in (1, n) and [x for x, _ in pts] == list(range(len(pts))) and all(y == secret for _, y in pts)
        if not good:
            res.violation("C15/direct/split-structure/k=1", vc, repr(pts)[:200], "point(s) (i, secret), i = 0..", "a threshold-1 split does not hand out the secret itself")
        else:
            res.ok("k=1: points carry the secret")
            if len(pts) != n:
                res.notes["k=1 split_secret returning a single point (not asserted)"] = 1
        res.notes["k=1: recover_secret on a single point raises (threshold-1 handled by ShareSet.recover; not asserted)"] = 1
        return res
    if [x for x, _ in pts] != list(range(n)):
        res.violation(f"C15/direct/split-structure/{tag}", vc, [x for x, _ in pts], list(range(n)), "split_secret does not return the n points with indexes 0..n-1")
        return res
    if case["kind"] == "split":
        # order-free comparison with the spec's SplitSecret: feed the reference the random material the library
        # ended up using (its k-2 first shares and the random part of its digest share); all n points must match
        ds = ref.interpolate(ref.DIGEST_X, pts[:k])
        material = {nbytes: [y for _, y in pts[: k - 2]], nbytes - 4: [ds[4:]]}

        def rnd(m):
            return material[m].pop(0)

        want = ref.split_points(k, n, secret, rnd)
        if pts != want:
            bad = [x for (x, y), (_, w) in zip(pts, want) if y != w]
            res.violation(f"C15/direct/split-vs-reference/{tag}", vc, {"differing_indexes": bad}, "SplitSecret(k, n, secret) of the specification on the same random material", "split_secret points are not the spec's: wrong digest share, secret not at x=255, or shares off the polynomial")
        else:
            res.ok("split_secret == reference SplitSecret", nontrivial=(bits, case["rs"], k, n))
        for name, sub in (("first-k", pts[:k]), ("last-k", pts[-k:]), ("all", pts)):
            r = attempt(ShareSet.recover_secret, list(sub))
            if r != secret:
                res.violation(f"C15/direct/recover-secret/not-recovered/{tag}/{'size=k' if len(sub) == k else 'size>k'}", vc, {"subset": name, "got": repr(r)[:80]}, secret.hex(), "recover_secret on >= k points of split_secret does not return the secret")
            else:
                res.ok("recover_secret(split_secret) == secret")
        return res

    def ref_points(sub):
        try:
            return ref.recover_points(max(2, min(k, len(sub))), sub, exact=False)
        except ref.Invalid:
            return None

    if case["kind"] == "subsets":
        if case["mode"] == "all":
            subsets = [tuple(i for i in range(n) if mask >> i & 1) for mask in range(1, 1 << n)]
        else:
            seen, subsets = set(), []
            for size in (1, k - 1, k, k + 1, n):
                if 1 <= size <= n:
                    for start in range(n):
                        w = tuple(sorted((start + j) % n for j in range(size)))
                        if w not in seen:
                            seen.add(w)
                            subsets.append(w)
        n_ok = 0
        for comb in subsets:
            sub = [pts[i] for i in comb]
            r = attempt(ShareSet.recover_secret, list(sub))
            if len(comb) >= k:
                if r != secret:
                    res.violation(f"C15/direct/recover-secret/not-recovered/{tag}/{'size=k' if len(comb) == k else 'size>k'}", vc, {"subset": list(comb), "got": repr(r)[:80]}, secret.hex(), "recover_secret on >= k points of split_secret does not return the secret")
                else:
                    n_ok += 1
            elif isinstance(r, Rejected):
                n_ok += 1
            else:
                # an accidental digest match (2^-32) is the only excuse: decided by the reference on the same points
                w = ref_points(sub) if len(sub) >= 2 else (sub[0][1] if ref.digest(sub[0][1][4:], sub[0][1]) == sub[0][1][:4] else None)
                if w is not None and w == r:
                    res.skip("below-threshold point set with an accidentally valid digest")
                else:
                    res.violation(f"C15/direct/recover-secret/below-threshold-accepted/{tag}", vc, {"subset": list(comb), "got": repr(r)[:80], "is_secret": r == secret}, "rejection", "recover_secret on fewer than k points returned a value (digest check missing or ineffective)")
        res.bulk("recover_secret: >=k recovered, <k rejected", n_ok, n_ok)
        return res
    # tamper: one byte of one point changed -> the digest must not verify
    n_ok = 0
    for name, idxs in (("first-k", list(range(k))), ("all", list(range(n)))):
        victims = idxs if case["full"] else sorted({idxs[0], idxs[-1]})
        positions = range(nbytes) if case["full"] else (0, 3, 4, nbytes - 1)
        for t in victims:
            for p in positions:
                for d in (1, 0x80, 0xFF) if case["full"] else (1,):
                    sub = [(x, y if x != t else y[:p] + bytes([y[p] ^ d]) + y[p + 1 :]) for x, y in (pts[i] for i in idxs)]
                    r = attempt(ShareSet.recover_secret, list(sub))
                    if isinstance(r, Rejected):
                        n_ok += 1
                        continue
                    w = ref_points(sub)
                    if w is not None and w == r:
                        res.skip("tampered point set with an accidentally valid digest")
                    else:
                        res.violation(f"C15/direct/recover-secret/tampered-accepted/{tag}", vc, {"set": name, "point": t, "byte": p, "xor": d, "got": repr(r)[:80], "is_secret": r == secret}, "rejection", "recover_secret accepts a point set in which one share byte was changed (digest not verified)")
    res.bulk("tampered point set rejected by the digest", n_ok, n_ok)
    return res


# ---------------------------------------------------------------- repeat (lists with repeated shares)
def gen_repeat(tier, seed):
    nmax = 4 if tier == "quick" else 5
    return [{"level": lv, "k": k, "n": n, "extra": 1 if tier == "quick" else 2, "seed": seed} for lv in ("group", "member") for k, n in KN if n <= nmax]


def run_repeat(case):
    from buidl.shamir import ShareSet

    res = Res()
    k, n, seed, level = case["k"], case["n"], case["seed"], case["level"]
    vc = {"engine": "repeat", "case": case}
    if level == "group":
        mn, secret, pp, shares = make_split(cfg(), k, n, seed)
        err = well_formed(shares, k, n)
        if err:
            res.violation(f"C15/repeat/generate/{kclass(k)}", vc, err, "shares", "generate_shares failed on an in-statement input")
            return res
    else:
        secret, pp, _, shares, _ = build_levels(MEMBER_CFG["A"], 1, 1, [[k, n]], seed, "rep")
        mn = ref.bip39_encode(secret)
    m = len(shares)
    for size in range(2, min(k + case["extra"], 6) + 1):
        for tup in itertools.product(range(m), repeat=size):
            d = len(set(tup))
            if d == size:
                continue
            r = attempt(ShareSet.recover_mnemonic, [shares[i] for i in tup], pp)
            if isinstance(r, Rejected):
                res.ok("list with repeats rejected", nontrivial=(level, k, n, tup))
            elif d < k:
                res.violation(f"C15/repeat/below-threshold-accepted/{level}", vc, {"list": list(tup), "distinct": d, "got": repr(r)[:120], "is_secret": r == mn}, "rejection", f"a list of {size} entries holding only {d} < k distinct shares returned a value")
            elif r != mn:
                res.violation(f"C15/repeat/wrong-value/{level}", vc, {"list": list(tup), "distinct": d, "got": repr(r)[:120]}, mn + " or rejection", "a list with repeated shares returned a value that is not the secret")
            else:
                res.ok("list with repeats (>= k distinct) recovered", nontrivial=(level, k, n, tup))
    return res


# ---------------------------------------------------------------- defaults
def gen_defaults(tier, seed):
    nmax = 4 if tier == "quick" else 8
    return [{"bits": b, "k": k, "n": n, "seed": seed} for b in (128, 256) for k, n in KN if n <= nmax or (k, n) == (16, 16)]


def run_defaults(case):
    from buidl.shamir import Share, ShareSet

    res = Res()
    k, n, bits, seed = case["k"], case["n"], case["bits"], case["seed"]
    tag = kclass(k)
    vc = {"engine": "defaults", "case": case}
    secret = secret_of(bits, "f4", seed)
    mn = ref.bip39_encode(secret)
    ident = ident_of("fill", seed)
    with patched_randbits(Stream(ident, "fill", seed, "defaults")):
        shares = attempt(ShareSet.generate_shares, mn, k, n)  # no passphrase, no exponent
    err = well_formed(shares, k, n)
    if err:
        res.violation(f"C15/defaults/generate/{tag}", vc, err, "shares", "generate_shares(mnemonic, k, n) with default passphrase/exponent failed")
        return res
    for name, sub in (("first-k", shares[:k]), ("last-k", shares[-k:]), ("all", shares)):
        r = attempt(ShareSet.recover_mnemonic, list(sub))  # no passphrase
        if r != mn:
            res.violation(f"C15/defaults/generate-recover/{tag}", vc, {"subset": name, "got": repr(r)[:120]}, mn, "shares generated with the default passphrase/exponent are not recovered by recover_mnemonic with the default passphrase")
        else:
            res.ok("defaults: recover_mnemonic(generate_shares) == mnemonic", nontrivial=(bits, k, n, name))
    r = attempt(lambda: bytes(ShareSet([Share.parse(s) for s in shares]).recover()))
    if r != secret:
        res.violation(f"C15/defaults/shareset-recover/{tag}", vc, repr(r)[:120], secret.hex(), "ShareSet.recover() with the default passphrase does not return the secret of a default-passphrase split")
    else:
        res.ok("defaults: ShareSet.recover() == secret")
    payload = secret_of(bits, "f5", seed)

    def crypt_defaults():
        enc = ShareSet.encrypt(payload, ident, 0)
        ss = ShareSet([Share(bits, ident, 0, 0, 1, 1, 0, 1, int.from_bytes(enc, "big"))])
        return bytes(ss.decrypt(enc)), bytes(ShareSet.encrypt(ss.decrypt(payload), ident, 0))

    r = attempt(crypt_defaults)
    if r != (payload, payload):
        res.violation("C15/defaults/encrypt-decrypt", vc, repr(r)[:160], payload.hex(), "encrypt and decrypt with their default passphrases are not inverse")
    else:
        res.ok("defaults: decrypt(encrypt(x)) == x == encrypt(decrypt(x))")
    return res


# ---------------------------------------------------------------- tokens (words outside the list)
BIP39_ONLY = "abandon"  # first word of the BIP39 list; not a SLIP39 word


def gen_tokens(tier, seed):
    cases = [{"kind": "aliases", "lo": lo, "hi": lo + 128} for lo in range(0, 1024, 128)]
    for L in (20, 33):
        for which in (0, 1, 2):
            for p in range(L):
                cases.append({"kind": "pos", "L": L, "base": which, "p": p, "seed": seed})
    return cases


def run_tokens(case):
    from buidl.shamir import SLIP39, Share

    res = Res()
    vc = {"engine": "tokens", "case": case}
    if case["kind"] == "aliases":
        alias_of = {v[:4] for v in ref.WORDS if len(v) > 4}
        for i in range(case["lo"], case["hi"]):
            w = ref.WORDS[i]
            for tok in {w[:4], w[:5], w[:6], w[:7]} - {w}:
                r = attempt(SLIP39.__getitem__, tok)
                if isinstance(r, Rejected) or r is None:
                    res.ok("prefix not accepted by the word lookup")
                elif r != i:
                    res.violation("C15/tokens/alias-wrong-index", vc, {"token": tok, "got": r}, {"word": w, "index": i}, "a prefix of a SLIP39 word is looked up as a different word")
                else:
                    res.ok("prefix alias -> index of its word", nontrivial=tok)
            for tok in (w.upper(), w[:3], w + "s", w[1:]):
                if tok in ref.WORD_INDEX or tok in alias_of:
                    continue  # the token is (the 4-letter alias of) another list word
                r = attempt(SLIP39.__getitem__, tok)
                if not (isinstance(r, Rejected) or r is None) and r != i:
                    res.violation("C15/tokens/alias-wrong-index", vc, {"token": tok, "got": r}, {"word": w, "index": i}, "a token that is no SLIP39 word is looked up as a different word")
                else:
                    res.ok("variant token: not accepted or its own word")
        return res
    L, p = case["L"], case["p"]
    text, idx = base_share(L, case["base"], case["seed"])
    words = text.split()
    w = words[p]
    honest = attempt(lambda: lib_fields(Share.parse(text)))
    if isinstance(honest, Rejected):
        res.violation(f"C15/tokens/honest-rejected/L{L}", vc, repr(honest), "parses", "an uncorrupted share is rejected")
        return res

    def parse_with(subst):
        t = list(words)
        for q, tok in subst.items():
            t[q] = tok
        return attempt(lambda: lib_fields(Share.parse(" ".join(t))))

    # spellings of the SAME word: may be accepted, then as the same share
    for tok in {w[:4], w[:5], w[:3], w.upper(), w.capitalize(), w + "s"} - {w}:
        if tok in ref.WORD_INDEX:
            continue
        r = parse_with({p: tok})
        if isinstance(r, Rejected):
            res.ok("same-word spelling rejected")
        elif r != honest:
            res.violation(f"C15/tokens/alias-wrong-share/L{L}", vc, {"token": tok, "for": w, "got": r}, honest, "a prefix/spelling of the right word parses to a different share")
        else:
            res.ok("same-word spelling accepted as the same share", nontrivial=(L, case["base"], p, tok))
    # tokens naming no word, or (a spelling of) another word: corruption, must be rejected
    others = {ref.WORDS[(idx[p] + 1) % 1024], ref.WORDS[idx[p] ^ 512], ref.WORDS[0], ref.WORDS[1023]} - {w}
    foreign = {"zzzz": "nonword", BIP39_ONLY: "nonword", "0": "nonword", str(idx[p]): "nonword", "-": "nonword", w[::-1] + "q": "nonword"}
    for o in others:
        foreign[o[:4]] = "other-word"
        foreign[o.upper()] = "other-word"
        foreign[o] = "other-word"
    for tok, cls in sorted(foreign.items()):
        if tok == w:
            continue
        r = parse_with({p: tok})
        if isinstance(r, Rejected):
            res.ok("foreign token rejected", nontrivial=(L, case["base"], p, tok))
        else:
            res.violation(f"C15/tokens/foreign-accepted/{cls}/L{L}", vc, {"position": p, "token": tok, "for": w, "same_share": r == honest}, "rejection", "a share in which one word is replaced by a token that is not (a spelling of) that word parses")
    for tok in ("zzzz", BIP39_ONLY):
        for q in (((p + 7) % L,), ((p + 7) % L, (p + 13) % L)):
            r = parse_with({x: tok for x in (p,) + q})
            if isinstance(r, Rejected):
                res.ok("2-3 non-word tokens rejected")
            else:
                res.violation(f"C15/tokens/foreign-accepted/nonword/L{L}", vc, {"positions": [p] + list(q), "token": tok}, "rejection", "a share with 2-3 words replaced by non-words parses")
    return res


# ---------------------------------------------------------------- order (list order, mid sizes)
def gen_order(tier, seed):
    cases = []
    for name, c in (("128", cfg()), ("256", cfg(**CFG_256))):
        if name == "256" and tier == "quick":
            continue
        for k, n in KN:
            if n >= 5:
                cases.append({"cfg": c, "k": k, "n": n, "starts": "some" if tier == "quick" else "all", "seed": seed})
    return cases


def run_order(case):
    from buidl.shamir import ShareSet

    res = Res()
    c, k, n, seed = case["cfg"], case["k"], case["n"], case["seed"]
    vc = {"engine": "order", "case": case}
    tag = kclass(k)
    mn, secret, pp, shares = make_split(c, k, n, seed)
    err = well_formed(shares, k, n)
    if err:
        res.violation(f"C15/order/generate/{tag}", vc, err, "shares", "generate_shares failed on an in-statement input")
        return res
    m = len(shares)
    lists = []
    starts = range(m) if case["starts"] == "all" else sorted({0, m // 2, m - 1})
    for size in (k - 1, k, k + 1):
        if not 1 <= size <= m:
            continue
        for start in starts:
            w = [(start + j) % m for j in range(size)]
            if w != sorted(w):
                lists.append(tuple(w))  # wrapping window in cyclic (unsorted) order
            if size > 1:
                lists.append(tuple(reversed(w)))
    full = list(range(m))
    lists.append(tuple(full[1::2] + full[0::2]))  # odd positions first
    lists.append(tuple(x for pair in zip(full[: m // 2], reversed(full)) for x in pair))  # outside-in interleaving (may be partial)
    if m >= 13:  # sizes strictly between k+1 and n: one strided subset per size, in stride order
        stride = next(s for s in (5, 7, 3, 11) if m % s)
        for size in range(k + 2, m):
            lists.append(tuple((i * stride) % m for i in range(size)))
    for lst in dict.fromkeys(lists):
        d = len(set(lst))
        r = attempt(ShareSet.recover_mnemonic, [shares[i] for i in lst], pp)
        if d >= k:
            if r != mn:
                res.violation(f"C15/order/not-recovered/{tag}/{'size=k' if d == k else 'size>k'}", vc, {"list": list(lst), "got": repr(r)[:120]}, mn, f"{d} >= k distinct shares given in a non-ascending order do not recover the original mnemonic")
            else:
                res.ok("recovered (unsorted list)", nontrivial=(c["bits"], k, n, lst))
        elif isinstance(r, Rejected):
            res.ok("below-threshold-rejected (unsorted list)", nontrivial=(c["bits"], k, n, lst))
        else:
            res.violation(f"C15/order/below-threshold-accepted/{tag}", vc, {"list": list(lst), "got": repr(r)[:120]}, "rejection", f"{d} < k shares in a non-ascending order returned a value")
    return res


# ---------------------------------------------------------------- foreign (one foreign share among valid ones)
def gen_foreign(tier, seed):
    cases = []
    quick = tier == "quick"
    for k, n in KN:
        if k >= 2:
            cases.append({"kind": "replace", "k": k, "n": n, "seed": seed})
        if n <= (5 if quick else 7):
            cases.append({"kind": "rewritten", "k": k, "n": n, "seed": seed})
        if k >= 2 and n <= (4 if quick else 5):
            cases.append({"kind": "three", "k": k, "n": n, "seed": seed})
    return cases


def run_foreign(case):
    from buidl.shamir import ShareSet

    res = Res()
    k, n, seed = case["k"], case["n"], case["seed"]
    vc = {"engine": "foreign", "case": case}
    a = cfg()
    splits = []
    for label, c in (("rsA", a), ("rsB", variant_cfg(a, "secret+rand")), ("rsC", dict(a, sv="f8", rs="ctr"))):
        mn, secret, pp, sh = make_split(c, k, n, seed, label)
        err = well_formed(sh, k, n)
        if err:
            res.violation(f"C15/foreign/generate/{kclass(k)}", vc, err, "shares", "generate_shares failed on an in-statement input")
            return res
        splits.append((mn, sh))
        if case["kind"] != "three" and len(splits) == 2:
            break
    (mnA, A), (mnB, B) = splits[0], splits[1]
    ppA = pass_of(a["pp"], seed)
    memo = {}

    def judge(lst, what, key):
        decs = [ref.decode_share(t) for t in lst]
        try:
            ems = ref.recover_ems(decs, False)
            if ems not in memo:
                memo[ems] = ref.bip39_encode(ref.decrypt(ems, ppA, decs[0]["exp"], decs[0]["id"]))
            want, why = memo[ems], "accepted"
        except ref.Invalid as e:
            want, why = None, str(e)
        r = attempt(ShareSet.recover_mnemonic, lst, ppA)
        if want is None:
            if isinstance(r, Rejected):
                res.ok(f"foreign share rejected ({'digest' if why == 'digest' else 'header/count'})", nontrivial=(case["kind"], k, n, key) if why == "digest" else None)
            else:
                res.violation(f"C15/foreign/accepted/{what}/reference-rejects-for-{why.replace(' ', '-')}", vc, {"list": key, "got": repr(r)[:120], "equals_A": r == mnA, "equals_B": r == mnB}, f"rejection (reference: {why})", "a share set containing a share of another split was combined into a result")
        elif r == want or isinstance(r, Rejected):
            res.ok("foreign share: consistent with the reference (which accepts)")
        else:
            res.violation(f"C15/foreign/garbage/{what}", vc, {"list": key, "got": repr(r)[:120]}, want, "a share set containing a foreign share is accepted with a value different from the reference's")

    if case["kind"] == "replace":
        for name, idxs in (("all", list(range(n))), ("first-k", list(range(k)))):
            for j in idxs:
                if A[j] == B[j]:
                    res.skip("identical share text in both splits")
                    continue
                judge([B[i] if i == j else A[i] for i in idxs], "replaced", [name, j])
        return res
    if case["kind"] == "three":
        C = splits[2][1]
        src = (A, B, C)
        for width in sorted({k, n}):
            for pick in itertools.product(range(3), repeat=width):
                lst = [src[s][i] for i, s in enumerate(pick)]
                if any(set(lst) <= set(s) for s in src):
                    res.skip("list is a subset of a single split")
                    continue
                judge(lst, "three-splits", list(pick))
        return res
    # rewritten: a share of B re-encoded with another member index (and member threshold) so that it passes the
    # index-uniqueness check, put after / before the complete set A
    dB = [ref.decode_share(s) for s in B]
    for j in range(len(B)):
        for mi, mt in ((1, 1), (1, 2), (15, 1)):
            t = ref.encode_share(dict(dB[j], mi=mi, mt=mt))
            for order in (0, 1):
                lst = list(A) + [t] if order == 0 else [t] + list(A)
                judge(lst, "rewritten", [j, mi, mt, order])
    return res


# ---------------------------------------------------------------- registry
def engines(tier, seed):
    return [
        Engine(
            "gf",
            gen_gf,
            run_gf,
            rule="every a in GF(256): table shape, exp[i] = g^i, and for every b != 0 the product and quotient obtained through ShareSet.exp/log2 "
            "against carry-less multiplication mod 0x11B (all 255^2 pairs). Non-trivial = pair with a, b != 0",
        ),
        Engine(
            "interp",
            gen_interp,
            run_interp,
            rule="every subset of size 1..4 of the x-coordinates {0..15,254,255} x every target x outside the subset (size 4 in quick: targets 254, 255 and the "
            "lowest free index); each point's byte sweeps all 256 values with the others fixed plus all of {0,1,0x80,0xff}^size; every byte position is one "
            "evaluation compared with textbook Lagrange interpolation. Non-trivial = every compared byte",
        ),
        Engine(
            "interp-wide",
            gen_wide,
            run_wide,
            rule="for every k = 1..16 a reference polynomial of degree exactly k-1 (16-byte values quick, 32 thorough); every subset of the 16 share indexes of size "
            "k and k+1 (thorough: every size >= k) interpolated by the library to x=255 and x=254 must give the polynomial's values. Non-trivial = every (subset, target)",
        ),
        Engine(
            "split",
            gen_split,
            run_split,
            rule="all 136 (k,n) x configurations (secret/passphrase/exponent/identifier/length/randbits stream deviations); shares from the real generate_shares "
            "(randbits replaced by an enumerated stream: all-zero, all-one, counter, filler) decoded by the reference: spec recovery of first/last k and of all "
            "gives the secret; all n points on one polynomial of degree < k. Non-trivial = every case",
        ),
        Engine(
            "threshold",
            gen_threshold,
            run_threshold,
            chunk=1,
            rule="generate_shares -> recover_mnemonic end to end. Quick: 14 configurations x all (k,n), n<=6 x every subset (every ordered arrangement for n<=4) incl. the "
            "empty one; 2 configurations (128/256 bit) x n in 7..8 x every subset, and n in 9..16 x every cyclic window of size k-1,k,k+1 plus the full set. Thorough: "
            "14 configurations x n<=8 x every subset; 2 configurations x n in 9..12 x every subset, n in 13..16 x every subset of size 0,1,k-1,k,k+1,n (128 bit) / k-1,k,n (256 bit). >= k shares must "
            "return exactly the original mnemonic, < k must be rejected, a different passphrase must not return it. Plus 7 edge configurations x n<=4 (thorough <=6) x every subset: "
            "secrets chosen so that the split payload (encrypted secret) has two leading / two trailing / only zero bytes (128 and 256 bit), and passphrase x exponent "
            "(binary, e=2), (100 bytes, e=1). Non-trivial = every (configuration,k,n,subset)",
        ),
        Engine(
            "mixed",
            gen_mixed,
            run_mixed,
            rule="two splits A, B differing in randomness / secret / both / identifier / exponent / passphrase / length (same (k,n), n<=4 quick, <=6 thorough) or in "
            "(k,n) (all ordered pairs with n<=4 quick / <=5 thorough), every union of a non-empty subset of A with a non-empty subset of B (both list orders when "
            "|A|+|B|<=6); the library may return a value only if the reference recovery accepts the union (then the same value). Non-trivial = union that passes "
            "all header checks and is rejected only by the digest",
        ),
        Engine(
            "header",
            gen_header,
            run_header,
            rule="Share(...).mnemonic() == reference encoding, Share.parse(reference text) fields == encoded fields, parse->mnemonic identity: sweeps of every header "
            "field over its whole range (identifier 0..32767, exponent 0..31, indexes 0..15, thresholds 1..16, all 136 (gt,gc), every single value bit set/cleared) "
            "for 128 and 256 bit, plus the full product of the boundary alphabets (11 520 shares); word list equals the published list. Non-trivial = distinct share text",
        ),
        Engine(
            "crypt",
            gen_crypt,
            run_crypt,
            rule="payload (16/32 bytes: zero, ones, filler, equal halves) x identifier x exponent (0..2 quick, 0..4 thorough) x passphrase (empty, ascii, binary, NUL, 100 bytes): "
            "encrypt == reference Feistel/PBKDF2, decrypt(encrypt(x)) == x, encrypt(decrypt(x)) == x, decrypt under another passphrase == reference != x. Non-trivial = every case",
        ),
        Engine(
            "subst",
            gen_subst,
            run_subst,
            rule="3 base shares per length (20 and 33 words) x every position x every one of the 1023 other words through Share.parse and rs1024_verify_checksum (and "
            "rs1024_polymod == GF(1024) reference remainder); one base per length x every position pair x 9^2 xor patterns and every position triple x 3^3 patterns. "
            "Non-trivial = every corrupted share",
        ),
        Engine(
            "syndrome",
            gen_syndrome,
            run_syndrome,
            rule="single-error syndromes of the real rs1024_polymod for every (position, xor 1..1023) at 20 and 33 words: non-zero (1-word errors), pairwise distinct "
            "(2-word errors), xor of any two at different positions is not a single-error syndrome (3-word errors; 1023^2 set probes per position pair); the table is "
            "recomputed from two other words and double-error syndromes compared with xors (affinity). A collision is turned into a concrete mnemonic and confirmed on "
            "rs1024_verify_checksum. Non-trivial = every probe",
        ),
        Engine(
            "member",
            gen_member,
            run_member,
            rule="shares built by the REFERENCE splitter/encoder (never by generate_shares) through recover_mnemonic. One group (1-of-1) with member threshold mt of mc: "
            "quick 128 bit all (mt,mc) with mc<=5 x every subset (every ordering for <=3 shares), mc 6..16 x every cyclic window of size mt-1, mt and the full set in cyclic "
            "(unsorted) order, 256 bit mc<=4 x every subset + 3 large pairs; thorough mc<=8 every subset, windows also of size mt+1, a third configuration (binary passphrase, e=2). "
            "Two levels: every (gt,gc) with gc in 2..3 x every assignment of member splits {1of1,2of2,2of3,(3of3 for gc=2 / thorough)} to the groups with <=7 (thorough 9) shares x "
            "every subset. Oracle by structure, cross-checked with the reference recovery: every present group complete and >= gt groups -> exactly the mnemonic; no gt complete "
            "groups -> rejected; complete groups plus an incomplete one -> mnemonic or rejection. Mixes: two one-group splits (same identifier; different randomness / secret / "
            "member threshold), mc<=3 (thorough 4), every union of a non-empty part of each: value only if the reference accepts. Non-trivial = every (configuration, split, subset)",
        ),
        Engine(
            "draws",
            gen_draws,
            run_draws,
            rule="the randbits seam records every draw. All 136 (k,n) x 128/256 bit through generate_shares: a first wide draw of >= 15 bits whose value is the header identifier "
            "(two identifiers), and at least 8*((k-2)*len + len-4) further random bits. Through split_secret, every (k>=2,n) at 128 bit (256 bit: n<=6 and 16-of-16; thorough all): "
            "each single byte draw xored with 1 and with 0x80 (thorough: with every single bit) in turn - the produced point list must change and all lists must be pairwise different (no draw discarded, "
            "reused or narrowed). Non-trivial = every perturbed draw",
        ),
        Engine(
            "direct",
            gen_direct,
            run_direct,
            rule="ShareSet.split_secret / recover_secret called directly (no cipher): all 136 (k,n) x 128/256 bit x streams {filler, zero, ones, counter}: indexes 0..n-1, all n points equal "
            "to the reference SplitSecret fed with the random material the library used (order-free), recover_secret(first k / last k / all) == secret; k=1: the point(s) carry the "
            "secret (1 point instead of n is the documented deviation, recover_secret on it is not asserted). recover_secret on every non-empty subset for n<=8 (thorough 10), "
            "cyclic windows of size 1,k-1,k,k+1,n above: >= k -> secret, < k -> rejected (unless the reference finds the digest accidentally valid). Tamper: one byte of one "
            "point xored (n<=4, thorough 6: every point, byte, xor in {1,0x80,0xff}; larger n: first/last point, bytes 0,3,4,last) in the first-k and the full set -> rejected. "
            "Non-trivial = every call",
        ),
        Engine(
            "repeat",
            gen_repeat,
            run_repeat,
            rule="lists with repeated entries: (k,n) with n<=4 (thorough 5), shares from generate_shares (group level) and reference-built one-group member shares; every tuple with "
            "at least one repetition of length 2..min(k+1,6) (thorough k+2) through recover_mnemonic: fewer than k DISTINCT shares -> rejected; otherwise rejection or exactly the "
            "mnemonic. Non-trivial = every list",
        ),
        Engine(
            "defaults",
            gen_defaults,
            run_defaults,
            rule="default arguments: generate_shares(mnemonic,k,n) -> recover_mnemonic(shares) without passphrase/exponent for (k,n) with n<=4 (thorough 8) and 16-of-16, 128/256 bit, "
            "first k / last k / all shares; ShareSet(...).recover() == secret; encrypt/decrypt with default passphrase inverse to each other. Non-trivial = every case",
        ),
        Engine(
            "tokens",
            gen_tokens,
            run_tokens,
            rule="tokens outside the 1024 words. 3 base shares x 20/33 words x every position: spellings of the same word (4/5/3-letter prefix, upper case, capitalised, +s) may parse "
            "only to the identical share; tokens naming nothing (zzzz, a BIP39-only word, digits, '-', reversed word) or another word (4 other words: full, upper case, 4-letter "
            "prefix) must be rejected, also 2 and 3 non-words at once. Word lookup: every prefix of length 4..7 and upper/3-letter/+s/first-letter-dropped variant of every list "
            "word (unless it is another word or its 4-letter alias) is rejected or maps to that word's index. Non-trivial = every accepted alias / rejected token",
        ),
        Engine(
            "order",
            gen_order,
            run_order,
            rule="list order and middle sizes, generate_shares -> recover_mnemonic, every (k,n) with n>=5 (128 bit; thorough also 256): cyclic windows of size k-1,k,k+1 starting "
            "at 0, n/2, n-1 (thorough: every start) in wrapping (unsorted) and in reversed order, the full set odd-positions-first and outside-in; n>=13: one strided subset for "
            "every size k+2..n-1 in stride order. >= k -> mnemonic, < k -> rejected. Non-trivial = every list",
        ),
        Engine(
            "foreign",
            gen_foreign,
            run_foreign,
            rule="valid share sets with foreign shares (same identifier, other secret and randomness): all (k>=2,n): share j of the full set / of the first k replaced by the other "
            "split's share j, every j; n<=4 (thorough 5): every assignment of each index to one of three splits; n<=5 (thorough 7): a foreign share re-encoded by the reference with "
            "member index 1 or 15 / member threshold 2 (passes the index-uniqueness check) appended or prepended to the complete set. The library may return a value only if "
            "the reference recovery (at-least-threshold rule) accepts the same list, then the same value. Non-trivial = list rejected only by the digest",
        ),
    ]
