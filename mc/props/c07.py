"""C07 — script interpreter agrees with consensus semantics on its supported opcode set.

E1 opconf:   every implemented non-signature opcode, called as the real function through the dispatch table, on every
             stack of depth <= 3 over a 14-element alphabet and depth <= 5 (thorough 7) over a 4-element alphabet.
E2 program:  explicit-state search through Script.evaluate: every state (stack depth <= 4 / alt-stack <= 1 over 6 values;
             quick: depth <= 3) x every opcode/push transition, verdict and resulting state (observer suffix) compared
             with the reference; plus transition tours (programs of 40 operations chaining explored transitions).
E1 ifnest:   every properly nested IF/NOTIF/ELSE/ENDIF program up to a token bound over a small atom alphabet.
E1 numcodec: encode_num / decode_num on integer ranges and on every byte string of length 0..2 (thorough 0..3).
E1 timelock: CLTV / CSV over the full product of locktime x sequence x version x operand boundary sets (operands also
             zero-padded to 5 and 6 bytes: 5 must behave like the minimal form, 6 must fail).
E1 flow:     every token sequence up to a length bound over 15 tokens (constants, IF/NOTIF/ELSE/ENDIF, VERIFY, RETURN,
             alt-stack, DEPTH, DUP, DROP, NOT) that is properly nested, through Script(list) and Script.parse(raw).
E1 elements: (longbool) truth value of long zero / negative-zero / non-zero elements in IF, NOTIF, VERIFY, IFDUP and as
             final top; (wire) Script.parse(raw).evaluate for programs whose pushes use every push encoding (direct,
             PUSHDATA1/2/4); (limits) pushes around the 520-byte limit, executed and in unexecuted branches, and scripts
             around 10000 bytes.
"""
import itertools

from mc.core import Engine, Res, attempt, Rejected
from mc.ref import interp

PROP = "C07"

SIG_OPS = {172, 173, 174, 175, 186}
FLOW_OPS = {99, 100, 103, 104}
TIME_OPS = {177, 178}

A14 = [b"", b"\x00", b"\x80", b"\x01", b"\x81", b"\x02", b"\x7f", b"\xff\x00", b"\x00\x01", b"\xff\xff\xff\x7f", b"\xff\xff\xff\xff", b"\x01\x02\x03\x04\x05", b"\xaa" * 20, b"\x02" + b"\xbb" * 32]
A4 = [b"", b"\x01", b"\x81", b"\x03"]
V6 = [b"", b"\x01", b"\x02", b"\x81", b"\x80", b"\x00"]
# second value set of the program search: multi-byte numbers and a 20-byte blob
V6B = [b"", b"\x01", b"\xff\x00", b"\x00\x01", b"\xff\xff\xff\x7f", b"\xaa" * 20]
VSETS = [V6, V6B]
# long elements: zero, negative zero and non-zero values of 5 and 20 bytes (truth value for any length; as PICK/ROLL
# index they are longer than a script number may be), next to three short values
AL = [b"", b"\x01", b"\x07", b"\x00" * 5, b"\x00" * 4 + b"\x80", b"\x01" + b"\x00" * 4, b"\x00" * 20, b"\x00" * 19 + b"\x80"]
# second transaction context of the program search (CLTV / CSV can succeed here)
CTX2 = {"version": 2, "locktime": 500, "sequence": 0xFFFFFFFE}


def lib_tx(version=1, locktime=0, sequence=0xFFFFFFFF, others=(), after=()):
    """others / after: sequences of further inputs placed BEFORE / AFTER the evaluated one (which is input len(others))."""
    from buidl.script import Script
    from buidl.tx import Tx, TxIn, TxOut

    tins = []
    for j, sq in enumerate(list(others) + [sequence] + list(after)):
        tin = TxIn(bytes([j]) * 32, j, Script(), sq)
        tin._value = 0
        tin._script_pubkey = Script()
        tins.append(tin)
    return Tx(version, tins, [TxOut(0, Script())], locktime)


def ref_tx(version=1, locktime=0, sequence=0xFFFFFFFF, others=(), after=()):
    return {"version": version, "locktime": locktime, "segwit": False, "ins": [{"prev": bytes([j]) * 32, "index": j, "script": b"", "seq": sq} for j, sq in enumerate(list(others) + [sequence] + list(after))], "outs": []}


def implemented_ops():
    from buidl import op as bop

    return sorted(bop.OP_CODE_FUNCTIONS)


def lib_call_op(opcode, stack, alt, tx, idx=0):
    """Call the real op function the way Script.evaluate calls it."""
    from buidl import op as bop

    f = bop.OP_CODE_FUNCTIONS[opcode]
    if opcode in (107, 108):
        return f(stack, alt)
    if opcode in (172, 173, 174, 175, 177, 178):
        return f(stack, tx, idx)
    return f(stack)


# ------------------------------------------------------------------ layer 1
def gen_opconf(tier, seed):
    ops = [o for o in implemented_ops() if o not in SIG_OPS and o not in FLOW_OPS and o not in TIME_OPS]
    return [{"op": o, "tier": tier} for o in ops]


def stacks_for(tier):
    out = []
    for d in range(0, 4):
        out += [list(t) for t in itertools.product(A14, repeat=d)]
    dmax = 6 if tier == "quick" else 7
    for d in range(4, dmax + 1):
        out += [list(t) for t in itertools.product(A4, repeat=d)]
    # stacks of pairwise distinct elements up to depth 9 (copy-vs-move slips need distinct values)
    for d in range(4, 10):
        out.append([bytes([0x11 * (i + 1)]) for i in range(d)])
        out.append([bytes([0x11 * (d - i)]) for i in range(d)])
    # every stack of depth 1..3 over the long-element alphabet (those not already listed above)
    seen = set(tuple(x) for x in out)
    for d in range(1, 4):
        for t in itertools.product(AL, repeat=d):
            if t not in seen:
                seen.add(t)
                out.append(list(t))
    return out


def run_opconf(case):
    res = Res()
    op = case["op"]
    tx = lib_tx()
    only = case.get("only")
    alts = [[]] if op not in (107, 108) else [[], [b"\x05"], [b"\x05", b"\x06"]]
    for st in stacks_for(case["tier"]) if not only else [[bytes.fromhex(x) for x in only[0]]]:
        for alt in alts if not only else [[bytes.fromhex(x) for x in only[1]]]:
            try:
                ref = interp.run_program(bytes([op]), st, alt)
            except interp.OutOfStatement:
                res.skip("operand of an arithmetic / comparison opcode longer than 4 bytes")
                continue
            ls, la = list(st), list(alt)
            r = attempt(lib_call_op, op, ls, la, tx)
            if isinstance(r, Rejected) or not r:
                got = ("fail",)
            else:
                got = ("ok", [bytes(x) for x in ls], [bytes(x) for x in la])
            if got != ref:
                if ref == ("fail",):
                    cls = "accepts-where-consensus-fails"
                elif got == ("fail",):
                    cls = "fails-where-consensus-succeeds"
                else:
                    cls = "wrong-result"
                    if op == 113 and got[1] == list(st) + list(st[-6:-4]):
                        cls = "wrong-result/copies-5th-6th-items-instead-of-moving-them"
                if op in (121, 122) and st and len(st[-1]) > 4 and ref == ("fail",):
                    cls = "index-longer-than-4-bytes"
                res.violation(
                    f"C07/opconf/op{op}/{cls}",
                    {"engine": "opconf", "case": dict(case, only=[[x.hex() for x in st], [x.hex() for x in alt]])},
                    got,
                    ref,
                    f"opcode {op} on stack {[x.hex() for x in st]}",
                )
            else:
                res.bulk("op==consensus(ok)" if ref[0] == "ok" else "op==consensus(fail)", 1, 1)
                if len(st) == 3 and not res.samples and ref[0] == "ok":
                    res.samples.append({"opcode": op, "stack": [x.hex() for x in st], "result": [x.hex() for x in ref[1]]})
    return res


# ------------------------------------------------------------------ layer 2: program-level search
def prog_ops(values=V6):
    """Transition alphabet: the 6 pushes + every implemented opcode except signature and flow-control ops."""
    ops = [o for o in implemented_ops() if o not in SIG_OPS and o not in FLOW_OPS]
    return [("push", v) for v in values] + [("op", o) for o in ops]


def state_program(stack, alt):
    cmds = []
    for a in alt:
        cmds += [a, 107]
    cmds += list(stack)
    return cmds


def witnessy(stack):
    """Exactly the stacks on which Script.evaluate, after a data push, switches to witness-program handling
    (0 <20 bytes>, 0 <32 bytes>, 1 <32 bytes>): excluded by the statement."""
    return len(stack) == 2 and ((stack[0] == b"" and len(stack[1]) in (20, 32)) or (stack[0] == b"\x01" and len(stack[1]) == 32))


def observer(stack, alt, cur_depth_stack=None):
    """Commands that succeed iff the machine state equals (stack, alt). Returns None if a push inside the
    observer would make the evaluator see a witness-program pattern (excluded by the statement)."""
    cmds = []
    sim = list(stack)
    for e in reversed(stack):
        sim.append(e)
        if witnessy(sim):
            return None
        cmds += [e, 0x88]
        sim.pop()
        sim.pop()
    for a in reversed(alt):
        cmds += [108]
        sim.append(a)
        sim.append(a)
        if witnessy(sim):
            return None
        cmds += [a, 0x88]
        sim.pop()
        sim.pop()
    cmds += [116, 0, 0x87]
    return cmds


def to_bytes(cmds):
    from mc.ref import txref

    return txref.script_from_items(cmds)


class EvalNotRepeatable(Exception):
    pass


def lib_eval(cmds, tx, idx=0):
    """Evaluate the program; the SAME Script object is evaluated a second time and must give the same verdict and
    still hold the same commands (evaluation must not consume or alter the script it evaluates)."""
    from buidl.script import Script

    sc = Script(list(cmds))
    r = attempt(lambda: sc.evaluate(tx, idx))
    v1 = (not isinstance(r, Rejected)) and bool(r)
    r2 = attempt(lambda: sc.evaluate(tx, idx))
    v2 = (not isinstance(r2, Rejected)) and bool(r2)
    if v1 != v2 or list(sc.commands) != list(cmds):
        raise EvalNotRepeatable(f"first evaluation {v1}, second evaluation of the same Script object {v2}, commands kept: {list(sc.commands) == list(cmds)}")
    return v1


def ref_eval(cmds, rtx=None):
    """-> (verdict, state) ; verdict True iff consensus accepts the bare program"""
    r = interp.run_program(to_bytes(cmds), tx=rtx)
    if r[0] == "fail":
        return False, None
    st, alt = r[1], r[2]
    return bool(st) and interp.cast_to_bool(st[-1]), (st, alt)


def gen_program(tier, seed):
    dmax = 3 if tier == "quick" else 4
    cases = []
    for d in range(0, dmax + 1):
        for st in itertools.product(range(len(V6)), repeat=d):
            cases.append({"stack": list(st), "tier": tier})
    # the same search over the second value set (multi-byte numbers, 20-byte blob)
    # (states made only of values common to both sets were explored above: there only the new pushes are taken)
    for d in range(0, dmax + 1):
        for st in itertools.product(range(len(V6B)), repeat=d):
            cases.append({"stack": list(st), "tier": tier, "alpha": 1})
    return cases


def run_program_case(case):
    res = Res()
    tx1 = lib_tx()
    tx2 = lib_tx(CTX2["version"], CTX2["locktime"], CTX2["sequence"])
    rtx2 = ref_tx(CTX2["version"], CTX2["locktime"], CTX2["sequence"])
    V = VSETS[case.get("alpha", 0)]
    stack = [V[i] for i in case["stack"]]
    alts = [[]] + [[v] for v in V]
    only = case.get("only")
    # CLTV / CSV are also taken in the second transaction context, where they can succeed
    transitions = prog_ops(V) + [("op@ctx2", o) for o in sorted(TIME_OPS)]
    if len(stack) >= 2 and witnessy(stack[:2]):
        # the program that builds this state passes through the two-element stack the evaluator treats as a witness program
        res.skip("state is only reachable through a witness-program pattern (excluded)", len(alts))
        return res
    for alt in alts:
        # second value set: a state that already belongs to the first search only takes the pushes that are new
        old_state = case.get("alpha", 0) == 1 and all(e in V6 for e in stack + alt)
        if not old_state:
            res.states += 1
        base = state_program(stack, alt)
        for kind, x in transitions:
            label = x.hex() if kind == "push" else x
            if only and only != [[a.hex() for a in alt], kind, label]:
                continue
            if old_state and not (kind == "push" and x not in V6):
                continue
            cmd = x
            prog = base + [cmd]
            tx, rtx = (tx2, rtx2) if kind == "op@ctx2" else (tx1, None)
            if kind == "push" and witnessy(stack + [x]):
                res.skip("push creates a witness-program pattern (excluded)")
                continue
            try:
                verdict, state = ref_eval(prog, rtx)
            except interp.OutOfStatement:
                res.skip("out of statement (operand > 4 bytes)")
                continue
            res.transitions += 1
            vc = {"engine": "program", "case": dict(case, only=[[a.hex() for a in alt], kind, label])}
            if kind == "op@ctx2":
                label = f"{x}@ctx2"
            got = lib_eval(prog, tx)
            if got != verdict:
                cls = "final-truthiness" if state is not None and state[0] and not verdict and got else ("accepts" if got else "rejects")
                res.violation(f"C07/program/final-truthiness" if cls == "final-truthiness" else f"C07/program/{label}/{cls}", vc, got, verdict, f"bare program {[c if isinstance(c,int) else c.hex() for c in prog]}: verdict differs from consensus")
                continue
            if state is None:
                # consensus aborts: no continuation may rescue the script
                got2 = lib_eval(prog + [0x51], tx)
                if got2:
                    res.violation(f"C07/program/{label}/failure-not-fatal", vc, got2, False, "opcode failure does not abort the script")
                else:
                    res.bulk("fail==consensus", 1, 1)
                continue
            obs = observer(state[0], state[1])
            if obs is None:
                res.skip("observer would create a witness-program pattern")
                continue
            got3 = lib_eval(prog + obs, tx)
            if not got3:
                res.violation(f"C07/program/{label}/wrong-state", vc, "observer rejects", {"stack": state[0], "alt": state[1]}, "resulting machine state differs from consensus")
            else:
                res.bulk("state==consensus", 1, 1)
    return res


def gen_tours(tier, seed):
    dmax = 2 if tier == "quick" else 3
    cases = []
    for d in range(0, dmax + 1):
        for st in itertools.product(range(len(V6)), repeat=d):
            cases.append({"stack": list(st), "dmax": dmax + 1})
    return cases


def run_tours(case):
    """From one start state, greedily chain not-yet-used transitions into programs of <= 40 operations,
    staying inside the bounded state space; every program is evaluated end to end by the real evaluator."""
    res = Res()
    tx = lib_tx()
    start = [V6[i] for i in case["stack"]]
    ops = prog_ops()
    V = set(V6)
    used = set()

    def inb(st, alt):
        return len(st) <= case["dmax"] and len(alt) <= 1 and all(e in V for e in st) and all(e in V for e in alt)

    for first in range(len(ops)):
        prog = state_program(start, [])
        st, alt = list(start), []
        steps = 0
        j = first
        path = []
        while steps < 36:
            moved = False
            for t in range(len(ops)):
                kind, x = ops[(j + t) % len(ops)]
                key = (tuple(st), tuple(alt), (j + t) % len(ops))
                if key in used:
                    continue
                if kind == "push" and witnessy(st + [x]):
                    continue
                try:
                    r = interp.run_program(to_bytes([x]), st, alt)
                except interp.OutOfStatement:
                    continue
                if r[0] == "fail" or not inb(r[1], r[2]):
                    continue
                used.add(key)
                prog.append(x)
                path.append((j + t) % len(ops))
                st, alt = r[1], r[2]
                j = (j + t + 1) % len(ops)
                steps += 1
                moved = True
                break
            if not moved:
                break
        if steps == 0:
            continue
        obs = observer(st, alt)
        if obs is None:
            continue
        res.transitions += steps
        got = lib_eval(prog + obs, tx)
        if not got:
            # localise: shortest prefix of the tour whose observed state already differs
            culprit = "unknown"
            nbase = len(state_program(start, []))
            for cut in range(nbase + 1, len(prog) + 1):
                r = interp.run_program(to_bytes(prog[:cut]))
                o = observer(r[1], r[2]) if r[0] == "ok" else None
                if o is not None and not lib_eval(prog[:cut] + o, tx):
                    c = prog[cut - 1]
                    culprit = f"op{c}" if isinstance(c, int) else f"push{c.hex()}"
                    break
            res.violation(f"C07/tours/{culprit}/wrong-state", {"engine": "tours", "case": case}, "observer rejects", {"program": [c if isinstance(c, int) else c.hex() for c in prog], "stack": st, "alt": alt}, f"tour of {steps} operations ends in a state different from consensus")
            return res
        res.ok("tour==consensus", nontrivial=(tuple(case["stack"]), first), sample={"program": [c if isinstance(c, int) else c.hex() for c in prog]} if first == 3 else None)
    res.states += 1
    return res


# ------------------------------------------------------------------ IF nesting
ATOMS = [0x00, 0x51, 0x52, b"\x80", 0x75, 0x76]  # OP_0, OP_1, OP_2, push(80) (= false), DROP, DUP


MAX_ELSE = 3


def else_counts(prog):
    """Largest number of ELSE tokens belonging to one IF/NOTIF of the program (0 if unbalanced)."""
    open_, best = [], 0
    for c in prog:
        if c in (99, 100):
            open_.append(0)
        elif c == 103 and open_:
            open_[-1] += 1
            best = max(best, open_[-1])
        elif c == 104 and open_:
            open_.pop()
    return best


def nested_programs(tokens, depth):
    """All token lists with exactly `tokens` tokens: item* ; item = atom | IF/NOTIF prog (ELSE prog){0..MAX_ELSE} ENDIF."""
    memo = {}

    def progs(n, d):
        key = (n, d)
        if key in memo:
            return memo[key]
        out = []
        if n == 0:
            out.append([])
        else:
            # first item is an atom
            for a in ATOMS:
                for rest in progs(n - 1, d):
                    out.append([a] + rest)
            # first item is a conditional using k tokens in total (k >= 2)
            if d > 0:
                for k in range(2, n + 1):
                    for body in conds(k, d):
                        for rest in progs(n - k, d):
                            out.append(body + rest)
        memo[key] = out
        return out

    cmemo = {}

    def conds(k, d):
        key = (k, d)
        if key in cmemo:
            return cmemo[key]
        out = []
        inner = k - 2
        for opener in (99, 100):
            for t in progs(inner, d - 1):
                out.append([opener] + t + [104])
            if inner >= 1:
                for i in range(0, inner):  # tokens in the true branch; ELSE takes one
                    for t in progs(i, d - 1):
                        for f in progs(inner - 1 - i, d - 1):
                            out.append([opener] + t + [103] + f + [104])
            # several ELSE for one IF (consensus: every ELSE toggles): e ELSE tokens separate e + 1 bodies
            for e in range(2, MAX_ELSE + 1):
                if inner >= e:
                    for bodies in split_bodies(inner - e, e + 1, d - 1):
                        body = list(bodies[0])
                        for b in bodies[1:]:
                            body += [103] + b
                        out.append([opener] + body + [104])
        cmemo[key] = out
        return out

    def split_bodies(n, parts, d):
        """All lists of `parts` programs with n tokens in total."""
        if parts == 1:
            return [[t] for t in progs(n, d)]
        out = []
        for i in range(0, n + 1):
            for t in progs(i, d):
                for rest in split_bodies(n - i, parts - 1, d):
                    out.append([t] + rest)
        return out

    return progs(tokens, depth)


def gen_ifnest(tier, seed):
    nmax = 6 if tier == "quick" else 7
    cases = []
    for n in range(1, nmax + 1):
        for first in range(len(ATOMS) + 2):
            if n >= 6:  # large classes are dealt round-robin into 6 cases so that all workers are busy
                for part in range(6):
                    cases.append({"tokens": n, "first": first, "depth": 3, "part": part, "parts": 6})
            else:
                cases.append({"tokens": n, "first": first, "depth": 3})
    return cases


def run_ifnest(case):
    res = Res()
    tx = lib_tx()
    n = case["tokens"]
    progs = nested_programs(n, case["depth"])
    firsts = ATOMS + [99, 100]
    want = firsts[case["first"]]
    only = case.get("only")
    k = -1
    for prog in progs:
        if prog[0] != want:
            continue
        if 99 not in prog and 100 not in prog and n > 2:
            continue  # straight-line programs are covered by the program engine
        k += 1
        if case.get("parts") and k % case["parts"] != case["part"]:
            continue
        # every condition value comes from the program itself; prefix with 0/1/2 pushes to vary the initial stack
        for prefix in ([], [0x51], [0x00], [0x51, 0x00], [0x00, 0x51], [b"\x80", 0x51]):
            full = prefix + prog
            key = [c if isinstance(c, int) else c.hex() for c in full]
            if only and only != key:
                continue
            try:
                verdict, state = ref_eval(full)
            except interp.OutOfStatement:
                res.skip("out of statement")
                continue
            got = lib_eval(full, tx)
            vc = {"engine": "ifnest", "case": dict(case, only=key)}
            # a program in which one IF has several ELSE is its own class (different defect, different fingerprint)
            me = "several-else-per-if/" if else_counts(prog) >= 2 else ""
            if got != verdict:
                cls = "final-truthiness" if state is not None and state[0] and not verdict and got else ("accepts" if got else "rejects")
                res.violation(f"C07/ifnest/{me}{cls}", vc, got, verdict, f"conditional program {key}: verdict differs from consensus")
                continue
            if state is None:
                if lib_eval(full + [0x51], tx):
                    res.violation(f"C07/ifnest/{me}failure-not-fatal", vc, True, False, "failing conditional program is rescued by a trailing OP_1")
                else:
                    res.bulk("fail==consensus" + ("(several ELSE)" if me else ""), 1, 1)
                continue
            obs = observer(state[0], state[1])
            if not lib_eval(full + obs, tx):
                res.violation(f"C07/ifnest/{me}wrong-state", vc, "observer rejects", {"stack": state[0]}, f"conditional program {key}: resulting stack differs from consensus")
            else:
                res.bulk("state==consensus" + ("(several ELSE)" if me else ""), 1, 1)
    return res


# ------------------------------------------------------------------ number codec
NUM_EDGE_BYTES = (0x00, 0x01, 0x7F, 0x80, 0x81, 0xFF)


def gen_numcodec(tier, seed):
    cases = [{"kind": "int", "lo": lo, "hi": min(lo + 9999, 70000)} for lo in range(-70000, 70001, 10000)]
    for k in (7, 8, 15, 16, 23, 24, 31):
        for sign in (1, -1):
            c = sign * (1 << k)
            cases.append({"kind": "int", "lo": max(c - 300, -(2**31) + 1), "hi": min(c + 300, 2**31 - 1)})
    cases.append({"kind": "int", "lo": 2**31 - 600, "hi": 2**31 - 1})
    cases.append({"kind": "int", "lo": -(2**31) + 1, "hi": -(2**31) + 600})
    # strided sweep through the whole range [-2^31+1, 2^31-1] (every 65521st integer, 16 slices) and the byte
    # boundary patterns b << 8j (+-1) for b in {7f, 80, 81, ff, 100}
    lo, hi = -(2**31) + 1, 2**31 - 1
    width = (hi - lo) // 16 + 1
    for k in range(16):
        cases.append({"kind": "stride", "lo": lo + k * width, "hi": min(lo + (k + 1) * width - 1, hi), "step": 65521})
    cases.append({"kind": "edges"})
    # 4-byte strings: first and last byte from 6 boundary values, the two middle bytes exhaustive (quick: third byte
    # from the 6 boundary values)
    for f in NUM_EDGE_BYTES:
        for l in NUM_EDGE_BYTES:
            cases.append({"kind": "bytes4", "first": f, "last": l, "full": tier == "thorough"})
    cases.append({"kind": "bytes", "len": 0, "first": 0})
    cases.append({"kind": "bytes", "len": 1, "first": -1})
    for f in range(256):
        cases.append({"kind": "bytes", "len": 2, "first": f})
    if tier == "thorough":
        for f in range(256):
            for g in range(0, 256, 16):
                cases.append({"kind": "bytes3", "first": f, "g0": g})
    else:
        for f in (0x00, 0x01, 0x7F, 0x80, 0x81, 0xFF):
            for g in range(0, 256, 16):
                cases.append({"kind": "bytes3", "first": f, "g0": g})
    return cases


def run_numcodec(case):
    from buidl import op as bop

    res = Res()
    vcb = lambda x: {"engine": "numcodec", "case": dict(case, only=x)}
    only = case.get("only")
    if case["kind"] in ("int", "stride", "edges"):
        if case["kind"] == "int":
            ints = range(case["lo"], case["hi"] + 1)
        elif case["kind"] == "stride":
            ints = range(case["lo"], case["hi"] + 1, case["step"])
        else:
            ints = sorted({sg * ((b << (8 * j)) + d) for sg in (1, -1) for b in (0x7F, 0x80, 0x81, 0xFF, 0x100) for j in range(4) for d in (-1, 0, 1) if abs((b << (8 * j)) + d) <= 2**31 - 1})
        for i in ints:
            if only is not None and only != i:
                continue
            exp = interp.num_encode(i)
            got = attempt(bop.encode_num, i)
            if got != exp:
                res.violation("C07/numcodec/encode", vcb(i), got, exp, f"encode_num({i}) is not the minimal script number")
                continue
            back = attempt(bop.decode_num, exp)
            if back != i:
                res.violation("C07/numcodec/decode-encode", vcb(i), back, i, "decode_num(encode_num(i)) != i")
                continue
            res.bulk("int roundtrip", 1, 1)
        return res

    def check(b):
        exp = interp.num_decode(b, 8)
        got = attempt(bop.decode_num, b)
        if got != exp:
            res.violation("C07/numcodec/decode", vcb(b.hex()), got, exp, f"decode_num({b.hex()}) wrong")
            return
        re = attempt(bop.encode_num, got)
        if re != interp.num_encode(exp):
            res.violation("C07/numcodec/reencode", vcb(b.hex()), re, interp.num_encode(exp), "encode_num(decode_num(b)) is not the minimal encoding of the value")
            return
        res.bulk("bytes decode==ref", 1, 1)

    if case["kind"] == "bytes4":
        thirds = range(256) if case["full"] else NUM_EDGE_BYTES
        for g in range(256):
            for h in thirds:
                check(bytes([case["first"], g, h, case["last"]]))
    elif case["kind"] == "bytes":
        if case["len"] == 0:
            check(b"")
        elif case["len"] == 1:
            for a in range(256):
                check(bytes([a]))
        else:
            for a in range(256):
                check(bytes([case["first"], a]))
    else:
        for g in range(case["g0"], case["g0"] + 16):
            for h in range(256):
                check(bytes([case["first"], g, h]))
    return res


# ------------------------------------------------------------------ timelocks
LOCKTIMES = [0, 1, 99, 100, 101, 499999999, 500000000, 500000001, 2**31, 2**32 - 1]
SEQS = [0, 1, 99, 100, 101, 0xFFFF, 0x10000, (1 << 22), (1 << 22) | 100, (1 << 22) | 0xFFFF, (1 << 31), (1 << 31) | 100, 0xFFFFFFFE, 0xFFFFFFFF]
# both flags set; every bit below bit 31 set; unused bits 23..30 set next to a block / time value
SEQS += [(1 << 31) | (1 << 22) | 100, 0x7FFFFFFF, (1 << 30) | 100, (1 << 30) | (1 << 22) | 100]
OPERANDS = [-1, 0, 1, 99, 100, 101, 0xFFFF, 0x10000, 0x10064, (1 << 22), (1 << 22) | 100, (1 << 22) | 101, 499999999, 500000000, 500000001, 2**31 - 1, 2**31, (1 << 31) | 100, 2**32 - 1]
OPERANDS += [(1 << 30) | 100, (1 << 30) | 101, (1 << 30) | (1 << 22) | 100, (1 << 30) | (1 << 22) | 101]


def pad_num(v, length):
    """Non-minimal script number of exactly `length` bytes with value v (None if v does not fit)."""
    e = bytearray(interp.num_encode(v))
    if len(e) > length:
        return None
    if len(e) == length:
        return bytes(e)
    neg = bool(e) and bool(e[-1] & 0x80) and v < 0
    if e and v < 0:
        e[-1] &= 0x7F
    e += bytes(length - len(e))
    if neg:
        e[-1] |= 0x80
    return bytes(e)


def operand_bytes(operand):
    """operand descriptor -> stack ([] for "empty"); int = minimal encoding; ["pad", v, n] = zero-padded to n bytes."""
    if operand == "empty":
        return []
    if isinstance(operand, list):
        return [pad_num(operand[1], operand[2])]
    return [interp.num_encode(operand)]


def all_operands():
    out = list(OPERANDS) + ["empty"]
    for n in (5, 6):
        for v in OPERANDS:
            if len(interp.num_encode(v)) < n:
                out.append(["pad", v, n])
    return out


def gen_timelock(tier, seed):
    cases = []
    for op in (177, 178):
        for lt in LOCKTIMES:
            for sq in SEQS:
                cases.append({"op": op, "lt": lt, "seq": sq})
    # transactions with several inputs: the evaluated input is not input 0 and the other inputs carry other
    # sequences (final / non-final / relative-time) - only the evaluated input's sequence may matter
    for op in (177, 178):
        for lt in (0, 100, 500000001):
            for sq in (0, 100, (1 << 22) | 100, 0xFFFFFFFE, 0xFFFFFFFF):
                for others in ([0xFFFFFFFF], [0], [0xFFFFFFFF, 5], [(1 << 22) | 100], [1 << 31]):
                    cases.append({"op": op, "lt": lt, "seq": sq, "others": others})
                # the evaluated input is the first / a middle one: inputs after it must not matter either
                for others, after in (([], [0xFFFFFFFF]), ([], [0, (1 << 22) | 100]), ([0xFFFFFFFF], [5]), ([100], [0xFFFFFFFF, 1 << 31])):
                    cases.append({"op": op, "lt": lt, "seq": sq, "others": others, "after": after})
    return cases


def minimal_form_agrees(op, value, tx, rtx, idx):
    """Does the library agree with the reference for the minimally encoded operand of the same value (op function)?"""
    st = [interp.num_encode(value)]
    ref = interp.run_program(bytes([op]), st, [], tx=rtx, idx=idx)
    ls = list(st)
    r = attempt(lib_call_op, op, ls, [], tx, idx)
    got = ("fail",) if isinstance(r, Rejected) or not r else ("ok", [bytes(x) for x in ls], [])
    return got == ref


def run_timelock(case):
    res = Res()
    op = case["op"]
    only = case.get("only")
    others = case.get("others", [])
    after = case.get("after", [])
    idx = len(others)
    multi = bool(others or after)
    for ver in (0, 1, 2, 3, 2**31, 2**32 - 1) if not multi else (1, 2):
        tx = lib_tx(ver, case["lt"], case["seq"], others, after)
        rtx = ref_tx(ver, case["lt"], case["seq"], others, after)
        for operand in all_operands():
            if only and only != [ver, operand]:
                continue
            st = operand_bytes(operand)
            toolong = bool(st) and len(st[0]) > 5
            value = operand[1] if isinstance(operand, list) else operand
            ref = interp.run_program(bytes([op]), st, [], tx=rtx, idx=idx)
            ls = list(st)
            r = attempt(lib_call_op, op, ls, [], tx, idx)
            got = ("fail",) if isinstance(r, Rejected) or not r else ("ok", [bytes(x) for x in ls], [])
            vc = {"engine": "timelock", "case": dict(case, only=[ver, operand])}
            if got != ref:
                nm = "cltv" if op == 177 else "csv"
                if toolong:
                    cls = "operand-longer-than-5-bytes"
                elif operand != "empty" and op == 178 and value >= 0 and value & (1 << 31):
                    cls = "disable-flag-operand"
                elif got == ("fail",):
                    cls = "fails-where-consensus-succeeds"
                else:
                    cls = "accepts-where-consensus-fails"
                if isinstance(operand, list) and not toolong and minimal_form_agrees(op, value, tx, rtx, idx):
                    cls += "/padded-operand"  # only the non-minimal encoding is treated wrongly
                res.violation(f"C07/timelock/{nm}/{cls}" + ("/multi-input" if multi and not toolong else ""), vc, got, ref, f"{nm} with operand {operand}, locktime {case['lt']}, sequence {case['seq']}, version {ver}" + (f", evaluated input {idx} of {idx + 1 + len(after)}, other sequences {others} / {after}" if multi else ""))
            else:
                res.bulk("timelock==consensus(ok)" if ref[0] == "ok" else "timelock==consensus(fail)", 1, 1)
            # and through Script.evaluate (program level): <operand> CLTV/CSV DROP 1
            if operand != "empty":
                prog = [st[0], op, 0x75, 0x51]
                v = interp.run_program(to_bytes(prog), tx=rtx, idx=idx)
                verdict = v[0] == "ok"
                g2 = lib_eval(prog, tx, idx)
                if g2 != verdict:
                    nm = "cltv" if op == 177 else "csv"
                    cls = "operand-longer-than-5-bytes" if toolong else "disable-flag-operand" if (op == 178 and value >= 0 and value & (1 << 31)) else ("rejects" if verdict else "accepts")
                    if isinstance(operand, list) and not toolong and minimal_form_agrees(op, value, tx, rtx, idx):
                        cls += "/padded-operand"
                    res.violation(f"C07/timelock/{nm}-evaluate/{cls}", vc, g2, verdict, "Script.evaluate verdict differs from consensus")
                else:
                    res.bulk("evaluate==consensus", 1, 1)
    return res


# ------------------------------------------------------------------ flow: conditionals mixed with other opcodes
# OP_0, OP_1, push(02), IF, NOTIF, ELSE, ENDIF, VERIFY, RETURN, TOALTSTACK, FROMALTSTACK, DEPTH, DUP, DROP, NOT
FLOW_TOKENS = [0x00, 0x51, b"\x02", 99, 100, 103, 104, 105, 106, 107, 108, 116, 118, 117, 145]


def properly_nested(prog):
    depth = 0
    for c in prog:
        if c in (99, 100):
            depth += 1
        elif c in (103, 104):
            if depth == 0:
                return False
            if c == 104:
                depth -= 1
    return depth == 0


def gen_flow(tier, seed):
    lmax = 5 if tier == "quick" else 6
    n = len(FLOW_TOKENS)
    cases = [{"len": 1, "head": [i]} for i in range(n)]
    for L in range(2, lmax + 1):
        for i in range(n):
            for j in range(n):
                cases.append({"len": L, "head": [i, j]})
    return cases


def lib_eval_parsed(raw, tx, idx=0):
    """The same program entering as bytes: Script.parse(raw=...).evaluate, twice on the same object."""
    from buidl.script import Script

    sc = attempt(lambda: Script.parse(raw=raw))
    if isinstance(sc, Rejected):
        return False
    r = attempt(lambda: sc.evaluate(tx, idx))
    v1 = (not isinstance(r, Rejected)) and bool(r)
    r2 = attempt(lambda: sc.evaluate(tx, idx))
    v2 = (not isinstance(r2, Rejected)) and bool(r2)
    if v1 != v2:
        raise EvalNotRepeatable(f"parsed script: first evaluation {v1}, second evaluation of the same Script object {v2}")
    return v1


def run_flow(case):
    res = Res()
    tx = lib_tx()
    head = [FLOW_TOKENS[i] for i in case["head"]]
    only = case.get("only")
    for tail in itertools.product(FLOW_TOKENS, repeat=case["len"] - len(head)):
        prog = head + list(tail)
        key = [c if isinstance(c, int) else c.hex() for c in prog]
        if only and only != key:
            continue
        if not properly_nested(prog):
            res.skip("IF/NOTIF/ELSE/ENDIF not properly nested (outside the statement)")
            continue
        try:
            verdict, state = ref_eval(prog)
        except interp.OutOfStatement:
            res.skip("out of statement (operand > 4 bytes)")
            continue
        vc = {"engine": "flow", "case": dict(case, only=key)}
        me = "several-else-per-if/" if else_counts(prog) >= 2 else ""
        got = lib_eval(prog, tx)
        if got != verdict:
            cls = "final-truthiness" if state is not None and state[0] and not verdict and got else ("accepts" if got else "rejects")
            res.violation(f"C07/flow/{me}{cls}", vc, got, verdict, f"program {key}: verdict differs from consensus")
            continue
        gotp = lib_eval_parsed(to_bytes(prog), tx)
        if gotp != verdict:
            res.violation(f"C07/flow/{me}parsed-from-bytes/{'accepts' if gotp else 'rejects'}", vc, gotp, verdict, f"program {key} entering as bytes through Script.parse: verdict differs from consensus")
            continue
        nt = 1 if (99 in prog or 100 in prog) else 0
        if state is None:
            if lib_eval(prog + [0x51], tx):
                res.violation(f"C07/flow/{me}failure-not-fatal", vc, True, False, f"failing program {key} is rescued by a trailing OP_1")
            else:
                res.bulk("fail==consensus", 1, nt)
            continue
        obs = observer(state[0], state[1])
        if not lib_eval(prog + obs, tx):
            res.violation(f"C07/flow/{me}wrong-state", vc, "observer rejects", {"stack": state[0], "alt": state[1]}, f"program {key}: resulting stack / alt-stack differs from consensus")
        else:
            res.bulk("state==consensus", 1, nt)
    return res


# ------------------------------------------------------------------ longbool: truth value of long elements
LONG_VALUES = [b"\x00" * 4, b"\x00" * 3 + b"\x80", b"\x00" * 5, b"\x00" * 4 + b"\x80", b"\x01" + b"\x00" * 4, b"\x80" + b"\x00" * 4, b"\x00" * 4 + b"\x01", b"\x00" * 4 + b"\x81"]
LONG_VALUES += [b"\x00" * 20, b"\x00" * 19 + b"\x80", b"\x00" * 19 + b"\x01", b"\x00" * 33, b"\x00" * 32 + b"\x80", b"\x00" * 16 + b"\x80" + b"\x00" * 16, b"\x00" * 75, b"\x00" * 75 + b"\x80", b"\x00" * 76, b"\x00" * 255 + b"\x80", b"\x00" * 519 + b"\x80", b"\x00" * 520, b"\x00" * 519 + b"\x01"]
LONG_TEMPLATES = {
    "final-top": lambda v: [v],
    "final-top-over-other-items": lambda v: [0x51, 0x52, v],
    "if": lambda v: [v, 99, 0x51, 103, 0x00, 104],
    "notif": lambda v: [v, 100, 0x51, 103, 0x00, 104],
    "if-nested": lambda v: [0x51, 99, v, 99, 0x52, 103, 0x53, 104, 104],
    "verify": lambda v: [v, 105, 0x51],
    "ifdup": lambda v: [v, 115],
    "equalverify-then-top": lambda v: [v, 118, v, 0x88],
}


def gen_longbool(tier, seed):
    return [{"sub": "longbool", "tmpl": t, "v": i} for t in sorted(LONG_TEMPLATES) for i in range(len(LONG_VALUES))]


def run_longbool(case):
    res = Res()
    tx = lib_tx()
    v = LONG_VALUES[case["v"]]
    pre = case.get("only")
    for prefix in ([], [0x52], [0x51], [b"\x07", 107]):
        key = [c if isinstance(c, int) else c.hex() for c in prefix]
        if pre is not None and pre != key:
            continue
        prog = prefix + LONG_TEMPLATES[case["tmpl"]](v)
        verdict, state = ref_eval(prog)
        vc = {"engine": "elements", "case": dict(case, only=key)}
        got = lib_eval(prog, tx)
        if got != verdict:
            res.violation(f"C07/elements/longbool/{case['tmpl']}/{'accepts' if got else 'rejects'}", vc, got, verdict, f"{case['tmpl']} on a {len(v)}-byte element {v.hex()[:24]}..: verdict differs from consensus (truth value: false iff all bytes zero, last byte may be 80)")
            continue
        if state is None:
            if lib_eval(prog + [0x51], tx):
                res.violation(f"C07/elements/longbool/{case['tmpl']}/failure-not-fatal", vc, True, False, "failure is rescued by a trailing OP_1")
            else:
                res.ok("fail==consensus", nontrivial=(case["tmpl"], case["v"], tuple(key)))
            continue
        obs = observer(state[0], state[1])
        if obs is None:
            res.skip("observer would create a witness-program pattern")
            continue
        if not lib_eval(prog + obs, tx):
            res.violation(f"C07/elements/longbool/{case['tmpl']}/wrong-state", vc, "observer rejects", {"stack": state[0], "alt": state[1]}, "resulting stack differs from consensus")
        else:
            res.ok("state==consensus", nontrivial=(case["tmpl"], case["v"], tuple(key)), sample={"program": [c if isinstance(c, int) else c.hex() for c in prog], "verdict": verdict} if case["v"] == 3 and not prefix else None)
    return res


# ------------------------------------------------------------------ wire: programs entering as bytes, every push encoding
def enc_push(data, enc):
    """enc 0 = direct length byte (OP_0 for the empty string), 1/2/4 = PUSHDATA1/2/4; None if the length does not fit."""
    n = len(data)
    if enc == 0:
        return bytes([n]) + data if n <= 75 else None
    if enc == 1:
        return b"\x4c" + bytes([n]) + data if n <= 0xFF else None
    if enc == 2:
        return b"\x4d" + n.to_bytes(2, "little") + data
    return b"\x4e" + n.to_bytes(4, "little") + data


WIRE_LENGTHS = [0, 1, 2, 5, 33, 75, 76, 77, 255, 256, 257, 519, 520]
# X, Y = the data element (Y: second occurrence, own encoding); N = its length as a minimal number push
WIRE_TEMPLATES = {
    "single": ["X"],
    "equal": ["X", "Y", 0x87],
    "size": ["X", 0x82, "N", 0x88, 0x75, 0x51],
    "in-untaken-branch": [0x00, 99, "X", 104, 0x51],
    "in-taken-branch": [0x51, 99, "X", 103, 0x00, 104],
    "sha256": ["X", 0xA8, "H", 0x87],
    "dup-hash160-equalverify": ["X", 0x76, 0xA9, "H160", 0x88],
    "toalt-fromalt": ["X", 107, "Y", 108, 0x87],
}


def gen_wire(tier, seed):
    return [{"sub": "wire", "tmpl": t, "len": L, "seed": seed} for t in sorted(WIRE_TEMPLATES) for L in WIRE_LENGTHS]


def run_wire(case):
    import hashlib

    from mc.core import filler
    from mc.ref import txref

    res = Res()
    tx = lib_tx()
    L = case["len"]
    data = bytearray(filler(case["seed"], "wire", L, L))
    if L:
        data[0] |= 1  # a true value whatever the seed
        data[-1] &= 0x7F
    data = bytes(data)
    tmpl = WIRE_TEMPLATES[case["tmpl"]]
    two = "Y" in tmpl
    only = case.get("only")
    for ex in (0, 1, 2, 4):
        for ey in (0, 1, 2, 4) if two else (0,):
            if only and only != [ex, ey]:
                continue
            px, py = enc_push(data, ex), enc_push(data, ey)
            if px is None or py is None:
                continue
            raw = b""
            for t in tmpl:
                if t == "X":
                    raw += px
                elif t == "Y":
                    raw += py
                elif t == "N":
                    raw += txref.push(interp.num_encode(L)) if L else b"\x00"
                elif t == "H":
                    raw += txref.push(hashlib.sha256(data).digest())
                elif t == "H160":
                    raw += txref.push(txref.h160(data))
                else:
                    raw += bytes([t])
            r = interp.run_program(raw)
            verdict = r[0] == "ok" and bool(r[1]) and interp.cast_to_bool(r[1][-1])
            vc = {"engine": "elements", "case": dict(case, only=[ex, ey])}
            encname = {0: "direct", 1: "pushdata1", 2: "pushdata2", 4: "pushdata4"}
            got = lib_eval_parsed(raw, tx)
            if got != verdict:
                res.violation(f"C07/elements/wire/{encname[ex] if ex else encname[ey]}/{'accepts' if got else 'rejects'}", vc, got, verdict, f"Script.parse(raw).evaluate of template {case['tmpl']} with a {L}-byte element pushed as {encname[ex]}" + (f" / {encname[ey]}" if two else "") + ": verdict differs from consensus")
                continue
            if r[0] == "ok":
                obs = observer(r[1], r[2])
                if obs is None:
                    res.skip("observer would create a witness-program pattern")
                    continue
                if not lib_eval_parsed(raw + to_bytes(obs), tx):
                    res.violation(f"C07/elements/wire/{encname[ex] if ex else encname[ey]}/wrong-state", vc, "observer rejects", {"stack": r[1], "alt": r[2]}, f"parsed program (template {case['tmpl']}, {L}-byte element): resulting stack differs from consensus")
                    continue
            res.ok("parsed==consensus(accept)" if verdict else "parsed==consensus(reject)", nontrivial=(case["tmpl"], L, ex, ey) if (ex or ey) else None, sample={"raw": raw.hex()[:80], "verdict": verdict} if L == 76 and ex == 1 else None)
    return res


# ------------------------------------------------------------------ limits: element size 520, script size 10000
LIMIT_PUSH_LENGTHS = [519, 520, 521, 522, 600, 1000, 4000]
# X = the element; executed templates run the push, unexecuted ones only carry it in a branch that is not taken
LIMIT_TEMPLATES = {
    "executed": {
        "alone": ["X"],
        "drop-1": ["X", 0x75, 0x51],
        "in-taken-if": [0x51, 99, "X", 104],
        "in-taken-else": [0x00, 99, 0x00, 103, "X", 104],
        "in-taken-notif": [0x00, 100, "X", 104],
        "size-then-nip": ["X", 0x82, 0x77],
    },
    "unexecuted": {
        "in-untaken-if": [0x00, 99, "X", 104, 0x51],
        "in-untaken-else": [0x51, 99, 0x51, 103, "X", 104],
        "in-untaken-notif": [0x51, 100, "X", 104, 0x51],
        "nested-in-untaken-if": [0x00, 99, 0x51, 99, "X", 104, 104, 0x51],
        "untaken-if-nested-in-taken-if": [0x51, 99, 0x00, 99, "X", 104, 104, 0x51],
        "in-untaken-else-of-notif": [0x00, 100, 0x51, 103, "X", 104],
    },
}
SCRIPT_SIZES = [9900, 9990, 9999, 10000, 10001, 10002, 10100, 10200]


def sized_program(total, fill):
    """A program of exactly `total` bytes and 31 operations that leaves [01]: 9 x (push 520, push 520, 2DROP),
    push 300, push b, 2DROP, OP_1 (b adjusts the size; every push <= 520 bytes)."""
    cmds = []
    for k in range(9):
        cmds += [fill(520, 2 * k), fill(520, 2 * k + 1), 109]
    used = 9 * (523 * 2 + 1) + (3 + 300) + 1 + 1
    rest = total - used  # bytes of the last push including its push opcode
    b = rest - 3 if rest - 3 > 255 else rest - 2 if rest - 2 > 75 else rest - 1
    cmds += [fill(300, 18), fill(b, 19), 109, 0x51]
    return cmds


def gen_limits(tier, seed):
    cases = []
    for cls in ("executed", "unexecuted"):
        for t in sorted(LIMIT_TEMPLATES[cls]):
            for L in LIMIT_PUSH_LENGTHS:
                cases.append({"sub": "limits", "kind": cls, "tmpl": t, "len": L, "seed": seed})
    for T in SCRIPT_SIZES:
        cases.append({"sub": "limits", "kind": "size", "total": T, "seed": seed})
    return cases


def gen_elements(tier, seed):
    return gen_limits(tier, seed) + gen_wire(tier, seed) + gen_longbool(tier, seed)


def run_elements(case):
    return {"limits": run_limits, "wire": run_wire, "longbool": run_longbool}[case["sub"]](case)


def run_limits(case):
    from mc.core import filler

    res = Res()
    tx = lib_tx()

    def fill(n, i):
        b = bytearray(filler(case["seed"], "limits", i, n))
        if n:
            b[0] |= 1
            b[-1] &= 0x7F
        return bytes(b)

    only = case.get("only")
    if case["kind"] == "size":
        cmds = sized_program(case["total"], fill)
        raw = to_bytes(cmds)
        assert len(raw) == case["total"] and all(len(c) <= 520 for c in cmds if isinstance(c, bytes)) and len(cmds) <= 40, (len(raw), case)
        over = case["total"] > 10000
        entries = [("list", cmds), ("parsed", raw)]
        fp_over, fp_within = "C07/elements/limits/script>10000", "C07/elements/limits/script<=10000"
    else:
        L = case["len"]
        x = fill(L, 0)
        cmds = [x if t == "X" else t for t in LIMIT_TEMPLATES[case["kind"]][case["tmpl"]]]
        over = L > 520
        raws = [("parsed-pushdata2", b"".join(enc_push(c, 2) if c is x else bytes([c]) for c in cmds)), ("parsed-pushdata4", b"".join(enc_push(c, 4) if c is x else bytes([c]) for c in cmds))]
        entries = [("list", cmds)] + raws
        fp_over, fp_within = f"C07/elements/limits/push>520-{case['kind']}", f"C07/elements/limits/push<=520-{case['kind']}"
    for name, prog in entries:
        if only and only != name:
            continue
        raw = prog if isinstance(prog, bytes) else to_bytes(prog)
        r = interp.run_program(raw)
        verdict = r[0] == "ok" and bool(r[1]) and interp.cast_to_bool(r[1][-1])
        assert not (over and verdict)
        got = lib_eval(prog, tx) if name == "list" else lib_eval_parsed(prog, tx)
        vc = {"engine": "elements", "case": dict(case, only=name)}
        what = (f"script of {case['total']} bytes (31 operations, every push <= 520 bytes)" if case["kind"] == "size" else f"{case['len']}-byte push, {case['kind']} ({case['tmpl']})") + f", entering as {name}"
        if got != verdict:
            res.violation(fp_over if over else fp_within + ("/accepts" if got else "/rejects"), vc, got, verdict, what + ": verdict differs from consensus (limits: 520 bytes per pushed element, executed or not; 10000 bytes per script)")
            continue
        if over:
            # beyond the limit nothing may rescue the script
            g2 = lib_eval(prog + [0x51], tx) if name == "list" else lib_eval_parsed(prog + b"\x51", tx)
            if g2:
                res.violation(fp_over, vc, g2, False, what + " followed by OP_1 is accepted")
                continue
        res.ok("limit==consensus(over)" if over else "limit==consensus(within)", nontrivial=(case["kind"], case.get("tmpl"), case.get("len"), case.get("total"), name))
    return res


def repeatable(engine, f):
    def g(case):
        try:
            return f(case)
        except EvalNotRepeatable as e:
            res = Res()
            res.violation(f"C07/{engine}/evaluation-not-repeatable", {"engine": engine, "case": case}, str(e), "same verdict, script unchanged", "evaluating the same Script object twice gives different results or alters its commands")
            return res

    return g


def engines(tier, seed):
    q = tier == "quick"
    return [
        Engine("opconf", gen_opconf, run_opconf, kind="E1", rule="every implemented non-signature, non-flow opcode called through OP_CODE_FUNCTIONS on every stack of depth <= 3 over 14 values and depth 4..6 (thorough ..7) over 4 values plus distinct-element stacks up to depth 9 plus every stack of depth <= 3 over 8 values with long elements (5- and 20-byte zero / negative zero / non-zero) (alt-stack depth 0..2 for the alt-stack ops): resulting stack/alt-stack or failure == reference consensus interpreter; operands > 4 bytes skipped only for the arithmetic / comparison opcodes (139..165); a PICK/ROLL index longer than 4 bytes must fail"),
        Engine("program", gen_program, repeatable("program", run_program_case), kind="E2", rule="explicit-state search through Script.evaluate: states = (stack of depth <= 3 (thorough 4) over 6 values) x (alt-stack empty or one of 6 values), for two value sets ({'',01,02,81,80,00} and {'',01,ff00,0001,ffffff7f,20-byte blob}); transitions = 6 pushes + every implemented non-signature opcode + CLTV/CSV in a second transaction context (version 2, locktime 500, sequence fffffffe); each transition evaluated bare (verdict incl. final truthiness), with a trailing OP_1 when consensus aborts, and with an observer suffix that succeeds iff the resulting machine state equals the reference's; skipped: exactly the stacks the evaluator treats as witness programs (0 <20>, 0 <32>, 1 <32> after a push)"),
        Engine("tours", gen_tours, repeatable("tours", run_tours), kind="E2", rule="transition tours: from every start state, programs of up to 36 chained transitions that stay inside the bounded state space, each evaluated end to end with an observer of the final state"),
        Engine("ifnest", gen_ifnest, repeatable("ifnest", run_ifnest), kind="E1", rule=f"every properly nested IF/NOTIF (ELSE){{0..3}} ENDIF program with <= {6 if q else 7} tokens, nesting <= 3, over atoms {{0,1,2,push 80,DROP,DUP}}, under 6 initial-stack prefixes: verdict and resulting stack == consensus (every ELSE toggles execution); programs where one IF has several ELSE are fingerprinted separately"),
        Engine("numcodec", gen_numcodec, run_numcodec, kind="E1", rule="encode_num minimal & decode inverse for every integer in [-70000,70000] and +-300 around +-2^k (k=7,8,15,16,23,24,31) and the ends of [-2^31+1, 2^31-1], every 65521st integer of the whole range and the byte-boundary values +-((7f|80|81|ff|100) << 8j) +-1; decode_num/encode_num vs reference on every byte string of length 0..2, a structured slice of length 3 (thorough: all 2^24) and 4-byte strings with first and last byte in {00,01,7f,80,81,ff}, second byte exhaustive, third byte in the same 6 values (thorough: exhaustive)"),
        Engine("timelock", gen_timelock, repeatable("timelock", run_timelock), kind="E1", rule="CLTV and CSV: full product of 10 locktimes x 18 sequences (incl. both flags set, 7fffffff, unused bits 23..30 set) x 6 versions x 23 operand values, each operand minimally encoded and zero-padded to 5 and to 6 bytes (+ empty stack), through the op function and through Script.evaluate == BIP65/BIP112 reference (6-byte operands must fail); multi-input transactions with the evaluated input first, in the middle and last"),
        Engine("flow", gen_flow, repeatable("flow", run_flow), kind="E1", rule=f"every sequence of <= {5 if q else 6} tokens over the 15 tokens {{OP_0, OP_1, push 02, IF, NOTIF, ELSE, ENDIF, VERIFY, RETURN, TOALTSTACK, FROMALTSTACK, DEPTH, DUP, DROP, NOT}}; sequences whose conditionals are not properly nested are skipped (outside the statement); verdict through Script(list).evaluate and through Script.parse(raw).evaluate, trailing OP_1 when consensus aborts, observer of stack and alt-stack otherwise == reference; non-trivial = contains a conditional"),
        Engine("elements", gen_elements, repeatable("elements", run_elements), kind="E1", rule="three sub-enumerations on element sizes and encodings. LONGBOOL: truth value of 21 long elements (4..520 bytes: all zero, negative zero, 80 in the middle, non-zero first / last byte) as final top element, as IF / NOTIF / nested IF condition, under VERIFY, IFDUP and after DUP .. EQUALVERIFY, under 4 initial stack / alt-stack prefixes: verdict and resulting state == reference (false iff all bytes zero, last byte may be 80). WIRE: programs entering as bytes through Script.parse(raw=...).evaluate: 8 templates (single push, EQUAL of two pushes, SIZE, push in a taken / untaken branch, SHA256, DUP HASH160 EQUALVERIFY, alt-stack round trip) x element lengths {0,1,2,5,33,75,76,77,255,256,257,519,520} x every push encoding that can carry the length (direct, PUSHDATA1, PUSHDATA2, PUSHDATA4; both pushes independently): verdict and observed state == reference; element bytes from the seed; truncated pushes are outside the statement and not generated. LIMITS: a push of {519,520,521,522,600,1000,4000} bytes in 6 executed and 6 unexecuted positions (branches not taken, nested), entering as Script(list) and as parsed bytes (PUSHDATA2, PUSHDATA4): > 520 must fail and nothing may rescue it, <= 520 must behave as the reference says; scripts of exactly {9900,9990,9999,10000,10001,10002,10100,10200} bytes with 31 operations and every push <= 520 bytes: > 10000 must fail"),
    ]
