"""C07 — script interpreter agrees with consensus semantics on its supported opcode set.

E1 opconf:   every implemented non-signature opcode, called as the real function through the dispatch table, on every
             stack of depth <= 3 over a 14-element alphabet and depth <= 5 (thorough 7) over a 4-element alphabet.
E2 program:  explicit-state search through Script.evaluate: every state (stack depth <= 4 / alt-stack <= 1 over 6 values;
             quick: depth <= 3) x every opcode/push transition, verdict and resulting state (observer suffix) compared
             with the reference; plus transition tours (programs of 40 operations chaining explored transitions).
E1 ifnest:   every properly nested IF/NOTIF/ELSE/ENDIF program up to a token bound over a small atom alphabet.
E1 numcodec: encode_num / decode_num on integer ranges and on every byte string of length 0..2 (thorough 0..3).
E1 timelock: CLTV / CSV over the full product of locktime x sequence x version x operand boundary sets.
"""
import itertools

from mc.core import Engine, Res, attempt, Rejected
from mc.ref import interp

PROP = "C07"

SIG_OPS = {172, 173, 174, 175, 186}
FLOW_OPS = {99, 100, 103, 104}
TIME_OPS = {177, 178}

A14 = [b"", b"\x00", b"\x80", b"\x01", b"\x81", b"\x02", b"\x7f", b"\xff\x00", b"\x00\x01", b"\xff\xff\xff\x7f", b"\xff\xff\xff\xff", b"\x01\x02\x03\x04\x05", b"\xaa" * 20, b"\x02" + b"\xbb" * 32]
A4 = [b"", b"\x01", b"\x81", b"\x03"]
V6 = [b"", b"\x01", b"\x02", b"\x81", b"\x80", b"\x00"]


def lib_tx(version=1, locktime=0, sequence=0xFFFFFFFF, others=()):
    """others: sequences of further inputs placed BEFORE the evaluated one (which is then input len(others))."""
    from buidl.script import Script
    from buidl.tx import Tx, TxIn, TxOut

    tins = []
    for j, sq in enumerate(list(others) + [sequence]):
        tin = TxIn(bytes([j]) * 32, j, Script(), sq)
        tin._value = 0
        tin._script_pubkey = Script()
        tins.append(tin)
    return Tx(version, tins, [TxOut(0, Script())], locktime)


def ref_tx(version=1, locktime=0, sequence=0xFFFFFFFF, others=()):
    return {"version": version, "locktime": locktime, "segwit": False, "ins": [{"prev": bytes([j]) * 32, "index": j, "script": b"", "seq": sq} for j, sq in enumerate(list(others) + [sequence])], "outs": []}


def implemented_ops():
    from buidl import op as bop

    return sorted(bop.OP_CODE_FUNCTIONS)


def lib_call_op(opcode, stack, alt, tx, idx=0):
    """Call the real op function the way Script.evaluate calls it."""
    from buidl import op as bop

    f = bop.OP_CODE_FUNCTIONS[opcode]
    if opcode in (107, 108):
        return f(stack, alt)
    if opcode in (172, 173, 174, 175, 177, 178):
        return f(stack, tx, idx)
    return f(stack)


# ------------------------------------------------------------------ layer 1
def gen_opconf(tier, seed):
    ops = [o for o in implemented_ops() if o not in SIG_OPS and o not in FLOW_OPS and o not in TIME_OPS]
    return [{"op": o, "tier": tier} for o in ops]


def stacks_for(tier):
    out = []
    for d in range(0, 4):
        out += [list(t) for t in itertools.product(A14, repeat=d)]
    dmax = 6 if tier == "quick" else 7
    for d in range(4, dmax + 1):
        out += [list(t) for t in itertools.product(A4, repeat=d)]
    # stacks of pairwise distinct elements up to depth 9 (copy-vs-move slips need distinct values)
    for d in range(4, 10):
        out.append([bytes([0x11 * (i + 1)]) for i in range(d)])
        out.append([bytes([0x11 * (d - i)]) for i in range(d)])
    return out


def run_opconf(case):
    res = Res()
    op = case["op"]
    tx = lib_tx()
    only = case.get("only")
    alts = [[]] if op not in (107, 108) else [[], [b"\x05"], [b"\x05", b"\x06"]]
    for st in stacks_for(case["tier"]) if not only else [[bytes.fromhex(x) for x in only[0]]]:
        for alt in alts if not only else [[bytes.fromhex(x) for x in only[1]]]:
            try:
                ref = interp.run_program(bytes([op]), st, alt)
            except interp.OutOfStatement:
                res.skip("numeric operand longer than 4 bytes")
                continue
            ls, la = list(st), list(alt)
            r = attempt(lib_call_op, op, ls, la, tx)
            if isinstance(r, Rejected) or not r:
                got = ("fail",)
            else:
                got = ("ok", [bytes(x) for x in ls], [bytes(x) for x in la])
            if got != ref:
                if ref == ("fail",):
                    cls = "accepts-where-consensus-fails"
                elif got == ("fail",):
                    cls = "fails-where-consensus-succeeds"
                else:
                    cls = "wrong-result"
                    if op == 113 and got[1] == list(st) + list(st[-6:-4]):
                        cls = "wrong-result/copies-5th-6th-items-instead-of-moving-them"
                res.violation(
                    f"C07/opconf/op{op}/{cls}",
                    {"engine": "opconf", "case": dict(case, only=[[x.hex() for x in st], [x.hex() for x in alt]])},
                    got,
                    ref,
                    f"opcode {op} on stack {[x.hex() for x in st]}",
                )
            else:
                res.bulk("op==consensus(ok)" if ref[0] == "ok" else "op==consensus(fail)", 1, 1)
                if len(st) == 3 and not res.samples and ref[0] == "ok":
                    res.samples.append({"opcode": op, "stack": [x.hex() for x in st], "result": [x.hex() for x in ref[1]]})
    return res


# ------------------------------------------------------------------ layer 2: program-level search
def prog_ops():
    """Transition alphabet: the 6 pushes + every implemented opcode except signature and flow-control ops."""
    ops = [o for o in implemented_ops() if o not in SIG_OPS and o not in FLOW_OPS]
    return [("push", v) for v in V6] + [("op", o) for o in ops]


def state_program(stack, alt):
    cmds = []
    for a in alt:
        cmds += [a, 107]
    cmds += list(stack)
    return cmds


def witnessy(stack):
    return len(stack) == 2 and stack[0] in (b"", b"\x01") and len(stack[1]) in (20, 32)


def observer(stack, alt, cur_depth_stack=None):
    """Commands that succeed iff the machine state equals (stack, alt). Returns None if a push inside the
    observer would make the evaluator see a witness-program pattern (excluded by the statement)."""
    cmds = []
    sim = list(stack)
    for e in reversed(stack):
        sim.append(e)
        if witnessy(sim):
            return None
        cmds += [e, 0x88]
        sim.pop()
        sim.pop()
    for a in reversed(alt):
        cmds += [108]
        sim.append(a)
        sim.append(a)
        if witnessy(sim):
            return None
        cmds += [a, 0x88]
        sim.pop()
        sim.pop()
    cmds += [116, 0, 0x87]
    return cmds


def to_bytes(cmds):
    from mc.ref import txref

    return txref.script_from_items(cmds)


class EvalNotRepeatable(Exception):
    pass


def lib_eval(cmds, tx, idx=0):
    """Evaluate the program; the SAME Script object is evaluated a second time and must give the same verdict and
    still hold the same commands (evaluation must not consume or alter the script it evaluates)."""
    from buidl.script import Script

    sc = Script(list(cmds))
    r = attempt(lambda: sc.evaluate(tx, idx))
    v1 = (not isinstance(r, Rejected)) and bool(r)
    r2 = attempt(lambda: sc.evaluate(tx, idx))
    v2 = (not isinstance(r2, Rejected)) and bool(r2)
    if v1 != v2 or list(sc.commands) != list(cmds):
        raise EvalNotRepeatable(f"first evaluation {v1}, second evaluation of the same Script object {v2}, commands kept: {list(sc.commands) == list(cmds)}")
    return v1


def ref_eval(cmds, rtx=None):
    """-> (verdict, state) ; verdict True iff consensus accepts the bare program"""
    r = interp.run_program(to_bytes(cmds), tx=rtx)
    if r[0] == "fail":
        return False, None
    st, alt = r[1], r[2]
    return bool(st) and interp.cast_to_bool(st[-1]), (st, alt)


def gen_program(tier, seed):
    dmax = 3 if tier == "quick" else 4
    cases = []
    for d in range(0, dmax + 1):
        for st in itertools.product(range(len(V6)), repeat=d):
            cases.append({"stack": list(st), "tier": tier})
    return cases


def run_program_case(case):
    res = Res()
    tx = lib_tx()
    stack = [V6[i] for i in case["stack"]]
    alts = [[]] + [[v] for v in V6]
    only = case.get("only")
    for alt in alts:
        res.states += 1
        base = state_program(stack, alt)
        for kind, x in prog_ops():
            label = x.hex() if kind == "push" else x
            if only and only != [[a.hex() for a in alt], kind, label]:
                continue
            cmd = x
            prog = base + [cmd]
            if kind == "push" and witnessy(stack + [x]):
                res.skip("push creates a witness-program pattern (excluded)")
                continue
            try:
                verdict, state = ref_eval(prog)
            except interp.OutOfStatement:
                res.skip("out of statement (operand > 4 bytes)")
                continue
            res.transitions += 1
            vc = {"engine": "program", "case": dict(case, only=[[a.hex() for a in alt], kind, label])}
            got = lib_eval(prog, tx)
            if got != verdict:
                cls = "final-truthiness" if state is not None and state[0] and not verdict and got else ("accepts" if got else "rejects")
                res.violation(f"C07/program/final-truthiness" if cls == "final-truthiness" else f"C07/program/{label}/{cls}", vc, got, verdict, f"bare program {[c if isinstance(c,int) else c.hex() for c in prog]}: verdict differs from consensus")
                continue
            if state is None:
                # consensus aborts: no continuation may rescue the script
                got2 = lib_eval(prog + [0x51], tx)
                if got2:
                    res.violation(f"C07/program/{label}/failure-not-fatal", vc, got2, False, "opcode failure does not abort the script")
                else:
                    res.bulk("fail==consensus", 1, 1)
                continue
            obs = observer(state[0], state[1])
            if obs is None:
                res.skip("observer would create a witness-program pattern")
                continue
            got3 = lib_eval(prog + obs, tx)
            if not got3:
                res.violation(f"C07/program/{label}/wrong-state", vc, "observer rejects", {"stack": state[0], "alt": state[1]}, "resulting machine state differs from consensus")
            else:
                res.bulk("state==consensus", 1, 1)
    return res


def gen_tours(tier, seed):
    dmax = 2 if tier == "quick" else 3
    cases = []
    for d in range(0, dmax + 1):
        for st in itertools.product(range(len(V6)), repeat=d):
            cases.append({"stack": list(st), "dmax": dmax + 1})
    return cases


def run_tours(case):
    """From one start state, greedily chain not-yet-used transitions into programs of <= 40 operations,
    staying inside the bounded state space; every program is evaluated end to end by the real evaluator."""
    res = Res()
    tx = lib_tx()
    start = [V6[i] for i in case["stack"]]
    ops = prog_ops()
    V = set(V6)
    used = set()

    def inb(st, alt):
        return len(st) <= case["dmax"] and len(alt) <= 1 and all(e in V for e in st) and all(e in V for e in alt)

    for first in range(len(ops)):
        prog = state_program(start, [])
        st, alt = list(start), []
        steps = 0
        j = first
        path = []
        while steps < 36:
            moved = False
            for t in range(len(ops)):
                kind, x = ops[(j + t) % len(ops)]
                key = (tuple(st), tuple(alt), (j + t) % len(ops))
                if key in used:
                    continue
                if kind == "push" and witnessy(st + [x]):
                    continue
                try:
                    r = interp.run_program(to_bytes([x]), st, alt)
                except interp.OutOfStatement:
                    continue
                if r[0] == "fail" or not inb(r[1], r[2]):
                    continue
                used.add(key)
                prog.append(x)
                path.append((j + t) % len(ops))
                st, alt = r[1], r[2]
                j = (j + t + 1) % len(ops)
                steps += 1
                moved = True
                break
            if not moved:
                break
        if steps == 0:
            continue
        obs = observer(st, alt)
        if obs is None:
            continue
        res.transitions += steps
        got = lib_eval(prog + obs, tx)
        if not got:
            # localise: shortest prefix of the tour whose observed state already differs
            culprit = "unknown"
            nbase = len(state_program(start, []))
            for cut in range(nbase + 1, len(prog) + 1):
                r = interp.run_program(to_bytes(prog[:cut]))
                o = observer(r[1], r[2]) if r[0] == "ok" else None
                if o is not None and not lib_eval(prog[:cut] + o, tx):
                    c = prog[cut - 1]
                    culprit = f"op{c}" if isinstance(c, int) else f"push{c.hex()}"
                    break
            res.violation(f"C07/tours/{culprit}/wrong-state", {"engine": "tours", "case": case}, "observer rejects", {"program": [c if isinstance(c, int) else c.hex() for c in prog], "stack": st, "alt": alt}, f"tour of {steps} operations ends in a state different from consensus")
            return res
        res.ok("tour==consensus", nontrivial=(tuple(case["stack"]), first), sample={"program": [c if isinstance(c, int) else c.hex() for c in prog]} if first == 3 else None)
    res.states += 1
    return res


# ------------------------------------------------------------------ IF nesting
ATOMS = [0x00, 0x51, 0x52, b"\x80", 0x75, 0x76]  # OP_0, OP_1, OP_2, push(80) (= false), DROP, DUP


def nested_programs(tokens, depth):
    """All token lists with exactly `tokens` tokens: item* ; item = atom | IF/NOTIF prog [ELSE prog] ENDIF."""
    memo = {}

    def progs(n, d):
        key = (n, d)
        if key in memo:
            return memo[key]
        out = []
        if n == 0:
            out.append([])
        else:
            # first item is an atom
            for a in ATOMS:
                for rest in progs(n - 1, d):
                    out.append([a] + rest)
            # first item is a conditional using k tokens in total (k >= 2)
            if d > 0:
                for k in range(2, n + 1):
                    for body in conds(k, d):
                        for rest in progs(n - k, d):
                            out.append(body + rest)
        memo[key] = out
        return out

    cmemo = {}

    def conds(k, d):
        key = (k, d)
        if key in cmemo:
            return cmemo[key]
        out = []
        inner = k - 2
        for opener in (99, 100):
            for t in progs(inner, d - 1):
                out.append([opener] + t + [104])
            if inner >= 1:
                for i in range(0, inner):  # tokens in the true branch; ELSE takes one
                    for t in progs(i, d - 1):
                        for f in progs(inner - 1 - i, d - 1):
                            out.append([opener] + t + [103] + f + [104])
        cmemo[key] = out
        return out

    return progs(tokens, depth)


def gen_ifnest(tier, seed):
    nmax = 5 if tier == "quick" else 6
    cases = []
    for n in range(1, nmax + 1):
        for first in range(len(ATOMS) + 2):
            cases.append({"tokens": n, "first": first, "depth": 3})
    return cases


def run_ifnest(case):
    res = Res()
    tx = lib_tx()
    n = case["tokens"]
    progs = nested_programs(n, case["depth"])
    firsts = ATOMS + [99, 100]
    want = firsts[case["first"]]
    only = case.get("only")
    for prog in progs:
        if prog[0] != want:
            continue
        if 99 not in prog and 100 not in prog and n > 2:
            continue  # straight-line programs are covered by the program engine
        # every condition value comes from the program itself; prefix with 0/1/2 pushes to vary the initial stack
        for prefix in ([], [0x51], [0x00], [0x51, 0x00], [0x00, 0x51], [b"\x80", 0x51]):
            full = prefix + prog
            key = [c if isinstance(c, int) else c.hex() for c in full]
            if only and only != key:
                continue
            try:
                verdict, state = ref_eval(full)
            except interp.OutOfStatement:
                res.skip("out of statement")
                continue
            got = lib_eval(full, tx)
            vc = {"engine": "ifnest", "case": dict(case, only=key)}
            if got != verdict:
                cls = "final-truthiness" if state is not None and state[0] and not verdict and got else ("accepts" if got else "rejects")
                res.violation(f"C07/ifnest/{cls}", vc, got, verdict, f"conditional program {key}: verdict differs from consensus")
                continue
            if state is None:
                if lib_eval(full + [0x51], tx):
                    res.violation("C07/ifnest/failure-not-fatal", vc, True, False, "failing conditional program is rescued by a trailing OP_1")
                else:
                    res.bulk("fail==consensus", 1, 1)
                continue
            obs = observer(state[0], state[1])
            if not lib_eval(full + obs, tx):
                res.violation("C07/ifnest/wrong-state", vc, "observer rejects", {"stack": state[0]}, f"conditional program {key}: resulting stack differs from consensus")
            else:
                res.bulk("state==consensus", 1, 1)
    return res


# ------------------------------------------------------------------ number codec
def gen_numcodec(tier, seed):
    cases = [{"kind": "int", "lo": lo, "hi": min(lo + 9999, 70000)} for lo in range(-70000, 70001, 10000)]
    for k in (7, 8, 15, 16, 23, 24, 31):
        for sign in (1, -1):
            c = sign * (1 << k)
            cases.append({"kind": "int", "lo": max(c - 300, -(2**31) + 1), "hi": min(c + 300, 2**31 - 1)})
    cases.append({"kind": "int", "lo": 2**31 - 600, "hi": 2**31 - 1})
    cases.append({"kind": "int", "lo": -(2**31) + 1, "hi": -(2**31) + 600})
    cases.append({"kind": "bytes", "len": 0, "first": 0})
    cases.append({"kind": "bytes", "len": 1, "first": -1})
    for f in range(256):
        cases.append({"kind": "bytes", "len": 2, "first": f})
    if tier == "thorough":
        for f in range(256):
            for g in range(0, 256, 16):
                cases.append({"kind": "bytes3", "first": f, "g0": g})
    else:
        for f in (0x00, 0x01, 0x7F, 0x80, 0x81, 0xFF):
            for g in range(0, 256, 16):
                cases.append({"kind": "bytes3", "first": f, "g0": g})
    return cases


def run_numcodec(case):
    from buidl import op as bop

    res = Res()
    vcb = lambda x: {"engine": "numcodec", "case": dict(case, only=x)}
    only = case.get("only")
    if case["kind"] == "int":
        for i in range(case["lo"], case["hi"] + 1):
            if only is not None and only != i:
                continue
            exp = interp.num_encode(i)
            got = attempt(bop.encode_num, i)
            if got != exp:
                res.violation("C07/numcodec/encode", vcb(i), got, exp, f"encode_num({i}) is not the minimal script number")
                continue
            back = attempt(bop.decode_num, exp)
            if back != i:
                res.violation("C07/numcodec/decode-encode", vcb(i), back, i, "decode_num(encode_num(i)) != i")
                continue
            res.bulk("int roundtrip", 1, 1)
        return res

    def check(b):
        exp = interp.num_decode(b, 8)
        got = attempt(bop.decode_num, b)
        if got != exp:
            res.violation("C07/numcodec/decode", vcb(b.hex()), got, exp, f"decode_num({b.hex()}) wrong")
            return
        re = attempt(bop.encode_num, got)
        if re != interp.num_encode(exp):
            res.violation("C07/numcodec/reencode", vcb(b.hex()), re, interp.num_encode(exp), "encode_num(decode_num(b)) is not the minimal encoding of the value")
            return
        res.bulk("bytes decode==ref", 1, 1)

    if case["kind"] == "bytes":
        if case["len"] == 0:
            check(b"")
        elif case["len"] == 1:
            for a in range(256):
                check(bytes([a]))
        else:
            for a in range(256):
                check(bytes([case["first"], a]))
    else:
        for g in range(case["g0"], case["g0"] + 16):
            for h in range(256):
                check(bytes([case["first"], g, h]))
    return res


# ------------------------------------------------------------------ timelocks
LOCKTIMES = [0, 1, 99, 100, 101, 499999999, 500000000, 500000001, 2**31, 2**32 - 1]
SEQS = [0, 1, 99, 100, 101, 0xFFFF, 0x10000, (1 << 22), (1 << 22) | 100, (1 << 22) | 0xFFFF, (1 << 31), (1 << 31) | 100, 0xFFFFFFFE, 0xFFFFFFFF]
OPERANDS = [-1, 0, 1, 99, 100, 101, 0xFFFF, 0x10000, 0x10064, (1 << 22), (1 << 22) | 100, (1 << 22) | 101, 499999999, 500000000, 500000001, 2**31 - 1, 2**31, (1 << 31) | 100, 2**32 - 1]


def gen_timelock(tier, seed):
    cases = []
    for op in (177, 178):
        for lt in LOCKTIMES:
            for sq in SEQS:
                cases.append({"op": op, "lt": lt, "seq": sq})
    # transactions with several inputs: the evaluated input is not input 0 and the other inputs carry other
    # sequences (final / non-final / relative-time) - only the evaluated input's sequence may matter
    for op in (177, 178):
        for lt in (0, 100, 500000001):
            for sq in (0, 100, (1 << 22) | 100, 0xFFFFFFFE, 0xFFFFFFFF):
                for others in ([0xFFFFFFFF], [0], [0xFFFFFFFF, 5], [(1 << 22) | 100], [1 << 31]):
                    cases.append({"op": op, "lt": lt, "seq": sq, "others": others})
    return cases


def run_timelock(case):
    res = Res()
    op = case["op"]
    only = case.get("only")
    others = case.get("others", [])
    idx = len(others)
    for ver in (0, 1, 2, 3, 2**31, 2**32 - 1) if not others else (1, 2):
        tx = lib_tx(ver, case["lt"], case["seq"], others)
        rtx = ref_tx(ver, case["lt"], case["seq"], others)
        for operand in OPERANDS + ["empty"]:
            if only and only != [ver, operand]:
                continue
            st = [] if operand == "empty" else [interp.num_encode(operand)]
            ref = interp.run_program(bytes([op]), st, [], tx=rtx, idx=idx)
            ls = list(st)
            r = attempt(lib_call_op, op, ls, [], tx, idx)
            got = ("fail",) if isinstance(r, Rejected) or not r else ("ok", [bytes(x) for x in ls], [])
            vc = {"engine": "timelock", "case": dict(case, only=[ver, operand])}
            if got != ref:
                nm = "cltv" if op == 177 else "csv"
                if operand != "empty" and op == 178 and operand >= 0 and operand & (1 << 31):
                    cls = "disable-flag-operand"
                elif got == ("fail",):
                    cls = "fails-where-consensus-succeeds"
                else:
                    cls = "accepts-where-consensus-fails"
                res.violation(f"C07/timelock/{nm}/{cls}" + ("/multi-input" if others else ""), vc, got, ref, f"{nm} with operand {operand}, locktime {case['lt']}, sequence {case['seq']}, version {ver}" + (f", evaluated input {idx} of {idx + 1}, other sequences {others}" if others else ""))
            else:
                res.bulk("timelock==consensus(ok)" if ref[0] == "ok" else "timelock==consensus(fail)", 1, 1)
            # and through Script.evaluate (program level): <operand> CLTV/CSV DROP 1
            if operand != "empty":
                prog = [interp.num_encode(operand), op, 0x75, 0x51]
                v = interp.run_program(to_bytes(prog), tx=rtx, idx=idx)
                verdict = v[0] == "ok"
                g2 = lib_eval(prog, tx, idx)
                if g2 != verdict:
                    nm = "cltv" if op == 177 else "csv"
                    cls = "disable-flag-operand" if (op == 178 and operand >= 0 and operand & (1 << 31)) else ("rejects" if verdict else "accepts")
                    res.violation(f"C07/timelock/{nm}-evaluate/{cls}", vc, g2, verdict, "Script.evaluate verdict differs from consensus")
                else:
                    res.bulk("evaluate==consensus", 1, 1)
    return res


def repeatable(engine, f):
    def g(case):
        try:
            return f(case)
        except EvalNotRepeatable as e:
            res = Res()
            res.violation(f"C07/{engine}/evaluation-not-repeatable", {"engine": engine, "case": case}, str(e), "same verdict, script unchanged", "evaluating the same Script object twice gives different results or alters its commands")
            return res

    return g


def engines(tier, seed):
    return [
        Engine("opconf", gen_opconf, run_opconf, kind="E1", rule="every implemented non-signature, non-flow opcode called through OP_CODE_FUNCTIONS on every stack of depth <= 3 over 14 values and depth 4..6 (thorough ..7) over 4 values plus distinct-element stacks up to depth 9 (alt-stack depth 0..2 for the alt-stack ops): resulting stack/alt-stack or failure == reference consensus interpreter; operands > 4 bytes for numeric opcodes skipped"),
        Engine("program", gen_program, repeatable("program", run_program_case), kind="E2", rule="explicit-state search through Script.evaluate: states = (stack of depth <= 3 (thorough 4) over 6 values) x (alt-stack empty or one of 6 values); transitions = 6 pushes + every implemented non-signature opcode; each transition evaluated bare (verdict incl. final truthiness), with a trailing OP_1 when consensus aborts, and with an observer suffix that succeeds iff the resulting machine state equals the reference's"),
        Engine("tours", gen_tours, repeatable("tours", run_tours), kind="E2", rule="transition tours: from every start state, programs of up to 36 chained transitions that stay inside the bounded state space, each evaluated end to end with an observer of the final state"),
        Engine("ifnest", gen_ifnest, repeatable("ifnest", run_ifnest), kind="E1", rule="every properly nested IF/NOTIF/ELSE/ENDIF program with <= 5 tokens (thorough 6), nesting <= 3, over atoms {0,1,2,push 80,DROP,DUP}, under 6 initial-stack prefixes: verdict and resulting stack == consensus"),
        Engine("numcodec", gen_numcodec, run_numcodec, kind="E1", rule="encode_num minimal & decode inverse for every integer in [-70000,70000] and +-300 around +-2^k (k=7,8,15,16,23,24,31) and the ends of [-2^31+1, 2^31-1]; decode_num/encode_num vs reference on every byte string of length 0..2 and a structured slice of length 3 (thorough: all 2^24)"),
        Engine("timelock", gen_timelock, repeatable("timelock", run_timelock), kind="E1", rule="CLTV and CSV: full product of 10 locktimes x 14 sequences x 6 versions x 19 operands (+ empty stack) through the op function and through Script.evaluate == BIP65/BIP112 reference"),
    ]
