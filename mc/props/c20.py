"""C20 - BCUR / bc32 / CBOR air-gap transport reassembles exactly or fails loudly.

E1 `cbor`    every length 0..600, 65530..65540, 70000 x 3 contents: cbor_decode(cbor_encode(x)) == x, head equals the
             RFC 8949 head (asserted up to 65535 bytes; above that the head the library writes is only recorded).
E1 `bc32`    same lengths x 3 contents: bc32encode == independent BCR-2020-004 encoder, bc32decode inverts it; for short
             strings the outcome of every single-character substitution (all positions x 31) is recorded.
E1 `chunk`   every payload length x EVERY chunk size 1..2000: BCURMulti.encode against the reference fragments, then
             BCURMulti.parse and the independent reassembler on every distinct chunking; BCURSingle both forms.
E1 `faults`  library-produced messages of 1..4 (5) parts: every sequence of parts of length 0..n+1 (all permutations,
             omissions, duplications), parts/bodies/digests taken from other payloads on every subset of positions
             (including payloads crafted so that the bc32 checksum still passes and only the SHA-256 digest can tell),
             truncations crafted so that the remaining prefix is a valid bc32 string, every single-character
             substitution of every character of every part: parse raises or returns the original payload.
             Added after the audit: the no-digest single part read through BCURMulti.parse (`single-plain-multi`), single
             parts cut where the remaining text is still valid bc32 (`cut1`), consistently relabelled totals / prefixes
             (`relabel`), one character deleted / inserted / swapped with its neighbour (`indel`), and the same fault
             classes on a 53-part message of a 65536-byte payload (`big`).
E1 `strict`  component level: cbor_decode on truncated / extended / non-preferred / wrong-type encodings, bc32decode on
             truncated / extended / non-zero-padding / over-padded / mixed-case strings and on every string shorter than
             the checksum: whenever the library returns bytes a strict RFC 8949 / BCR-2020-004 reader returns the same bytes.
E1 `fn`      bcur_encode / bcur_decode called directly (with and without checksum): reference text, inverse, every
             single-character substitution of text and checksum, foreign checksum / text, texts cut at a valid bc32 prefix.
"""
import itertools
from base64 import b64encode
from binascii import a2b_base64

from mc.core import Engine, Res, attempt, Rejected, filler, filler_int
from mc.ref import bcurref as ref

PROP = "C20"
BECH = ref.CHARSET


# ---------------------------------------------------------------- shared helpers
def payload_of(seed, kind, L):
    if kind == "00":
        return bytes(L)
    if kind == "ff":
        return b"\xff" * L
    return filler(seed, "c20-" + kind, L, L)


def bucket(L):
    return "le23" if L <= 23 else "le255" if L <= 255 else "le65535" if L <= 65535 else "gt65535"


def b64(b):
    return b64encode(b).decode()


def recovered(obj):
    """payload bytes carried by a BCURSingle/BCURMulti object"""
    return a2b_base64(obj.text_b64)


WINDOW = list(range(65530, 65541)) + [70000]
EXTRA_SIZES = (1, 299, 300, 301, 2000)


def extra_lengths(seed):
    """thorough tier: lengths between the dense range and the 65535/65536 window: every power of two 2^11..2^15 and its
    two neighbours, plus 64 lengths 1301..65529 chosen by the seed (representatives of an otherwise uniform range)."""
    pw = [v for k in range(11, 16) for v in (2**k - 1, 2**k, 2**k + 1)]
    seeded = [filler_int(seed, "c20-extra-length", i, 1301, 65529) for i in range(64)]
    return sorted(set(pw + seeded))


def lengths(tier, what, seed=0):
    small = 600
    if what == "chunk":
        small = 600 if tier == "quick" else 1300
    out = list(range(0, small + 1))
    if tier == "thorough":
        out += [L for L in extra_lengths(seed) if L > small]
    return out + WINDOW


STD_HEADS = {0x58: 1, 0x59: 2, 0x5A: 4, 0x5B: 8}


def library_head(payload):
    """-> (head bytes the library's cbor_encode writes, dialect for the reference reader, status)
    status: preferred | valid-nonpreferred (standard CBOR, longer head than necessary) | dialect (non-standard
    initial byte followed by the big-endian length) | invalid"""
    from buidl.bech32 import cbor_encode

    L = len(payload)
    enc = attempt(cbor_encode, payload)
    if not isinstance(enc, (bytes, bytearray)) or len(enc) < L or bytes(enc[len(enc) - L :]) != payload:
        return None, None, "invalid"
    head = bytes(enc[: len(enc) - L])
    if head == ref.cbor_head(L):
        return head, None, "preferred"
    if head and STD_HEADS.get(head[0]) == len(head) - 1 and int.from_bytes(head[1:], "big") == L:
        return head, None, "valid-nonpreferred"
    if len(head) >= 2 and int.from_bytes(head[1:], "big") == L and not 0x40 <= head[0] <= 0x5B:
        return head, {head[0]: len(head) - 1}, "dialect"
    return head, None, "invalid"


# ---------------------------------------------------------------- cbor
def gen_cbor(tier, seed):
    return [{"L": L, "seed": seed} for L in lengths(tier, "cbor", seed)]


def run_cbor(case):
    from buidl.bech32 import cbor_encode, cbor_decode

    res = Res()
    L = case["L"]
    vc = {"engine": "cbor", "case": case}
    for kind in ("f0", "00", "ff"):
        data = payload_of(case["seed"], kind, L)
        enc = attempt(cbor_encode, data)
        if isinstance(enc, Rejected) or not isinstance(enc, (bytes, bytearray)):
            res.violation(f"C20/cbor/encode-refused/{bucket(L)}", vc, repr(enc), "bytes", f"cbor_encode refuses a {L}-byte string")
            continue
        enc = bytes(enc)
        dec = attempt(cbor_decode, enc)
        if dec != data:
            res.violation(
                f"C20/cbor/inverse/{bucket(L)}", vc, {"head": enc[:9], "decoded_len": None if not isinstance(dec, (bytes, bytearray)) else len(dec)}, {"len": L},
                "cbor_decode(cbor_encode(x)) != x",
            )
        else:
            res.ok("decode(encode(x))==x", nontrivial=("cbor", L, kind), sample={"L": L, "head": enc[: len(enc) - L]} if kind == "f0" and L in (23, 24, 255, 256, 65535, 65536) else None)
        want = ref.cbor_wrap(data)
        if L <= 65535:
            # interoperability floor: a strict RFC 8949 reader must recover the string (preferred head or not)
            std = attempt(ref.cbor_unwrap, enc)
            if std != data:
                res.violation(f"C20/cbor/head/{bucket(L)}", vc, enc[:9], want[:9], "cbor_encode output is not an RFC 8949 byte string of the data")
            elif enc == want:
                res.ok("encode==rfc8949-preferred")
            else:
                res.ok("encode is valid CBOR with a non-preferred head (recorded, not asserted)")
            d2 = attempt(cbor_decode, want)
            res.ok("decode(rfc8949-preferred)==x" if d2 == data else "decoder does not read the preferred head (recorded; asserted only through the inverse)")
        else:
            # the statement only demands that the wrapper is inverted; which head is written is recorded
            if enc == want:
                res.ok("gt65535:head-standard-0x5a(recorded)")
            elif enc[:1] == b"\x60" and enc[1:5] == L.to_bytes(4, "big") and enc[5:] == data:
                res.ok("gt65535:head-0x60-nonstandard-but-self-inverse(recorded, not asserted)")
            else:
                res.ok("gt65535:head-other(recorded, not asserted)")
    return res


# ---------------------------------------------------------------- bc32
def gen_bc32(tier, seed):
    sub = 64 if tier == "quick" else 200
    return [{"L": L, "seed": seed, "subst": L <= sub} for L in lengths(tier, "bc32", seed)]


def run_bc32(case):
    from buidl.bech32 import bc32encode, bc32decode

    res = Res()
    L = case["L"]
    vc = {"engine": "bc32", "case": case}
    cls = "len0" if L == 0 else f"mod5={L % 5}"
    for kind in ("f0", "00", "ff"):
        data = payload_of(case["seed"], kind, L)
        want = ref.bc32_encode(data)
        enc = attempt(bc32encode, data)
        ck_only = isinstance(enc, str) and enc != want and len(enc) == len(want) and enc[:-6] == want[:-6]
        if ck_only:
            cls = "checksum-chars"
        if enc != want:
            res.violation(f"C20/bc32/encode/{cls}", vc, repr(enc)[:120], want[:120], "bc32encode differs from the BCR-2020-004 reference encoder")
        else:
            res.ok("encode==ref", nontrivial=("bc32", L, kind), sample={"L": L, "bc32": want} if kind == "f0" and L in (0, 1, 5) else None)
        if isinstance(enc, str):
            dec = attempt(bc32decode, enc)
            if dec != data:
                res.violation(f"C20/bc32/inverse/{cls}", vc, repr(dec)[:120], {"len": L}, "bc32decode(bc32encode(x)) != x")
            else:
                res.ok("decode(encode(x))==x")
        dec = attempt(bc32decode, want)
        res.ok("decode(ref)==x" if dec == data else "decoder does not read the reference encoding (recorded; asserted through encode==ref and the inverse)")
    if case["subst"]:
        data = payload_of(case["seed"], "f0", L)
        text = ref.bc32_encode(data)
        # component-level observation only: the statement's rejection claim is about BCUR parts (engine `faults`),
        # where the digest and the re-encoding comparison in the constructors are further lines of defence
        n_ok = n_diff = 0
        for pos, c in itertools.product(range(len(text)), BECH):
            if text[pos] == c:
                continue
            bad = text[:pos] + c + text[pos + 1 :]
            dec = attempt(bc32decode, bad)
            if isinstance(dec, Rejected) or dec is None or dec == data:
                n_ok += 1
            else:
                n_diff += 1
        res.bulk("subst:rejected", n_ok, n_ok)
        if n_diff:
            res.bulk("subst:bc32decode returned different bytes for a corrupted string (recorded; part-level rejection is asserted by `faults`)", n_diff, n_diff)
    return res


# ---------------------------------------------------------------- chunk
BIG_FULL = (65535, 65536, 70000)
BIG_SIZES = (1, 2, 3, 7, 299, 300, 301, 1000, 1999, 2000)


def gen_chunk(tier, seed):
    cases = []
    extra = set(extra_lengths(seed)) if tier == "thorough" else set()
    for L in lengths(tier, "chunk", seed):
        if L > 2000 and L in extra:
            for s in EXTRA_SIZES:
                cases.append({"L": L, "seed": seed, "kind": "f0", "sizes": [s, s]})
        elif L <= 2000:
            cases.append({"L": L, "seed": seed, "kind": "f0", "sizes": [1, 2000]})
            if tier == "thorough" and L <= 600:
                cases.append({"L": L, "seed": seed, "kind": "f1", "sizes": [1, 2000]})
        elif tier == "thorough" and L in BIG_FULL:
            # every chunk size, cut into ranges of roughly equal cost (small sizes mean many parts)
            edges = [1, 2, 4, 8, 16, 32] + list(range(64, 2001, 32)) + [2001]
            for lo, hi in zip(edges, edges[1:]):
                cases.append({"L": L, "seed": seed, "kind": "f0", "sizes": [lo, hi - 1]})
        elif tier == "thorough":
            for s in BIG_SIZES:
                cases.append({"L": L, "seed": seed, "kind": "f0", "sizes": [s, s]})
        elif L in (65535, 65536):
            for s in (300, 2000):
                cases.append({"L": L, "seed": seed, "kind": "f0", "sizes": [s, s]})
        elif L == 70000:
            cases.append({"L": L, "seed": seed, "kind": "f0", "sizes": [1000, 1000]})
    # most expensive first so that the pool stays busy
    cases.sort(key=lambda c: -(c["L"] * (1 + c["sizes"][1] - c["sizes"][0])) // max(1, c["sizes"][0]))
    return cases


def weak_parts_check(parts, body, dg, mx):
    """None if `parts` is a usable fragment list for (body, dg) under limit mx, else the reason."""
    if not isinstance(parts, (list, tuple)) or not parts or not all(isinstance(p, str) for p in parts):
        return "not-a-list-of-strings"
    n = len(parts)
    frs = []
    for i, p in enumerate(parts):
        f = p.split("/")
        if len(f) != 4 or f[0] != "ur:bytes" or f[1] != f"{i + 1}of{n}":
            return "header"
        if f[2] != dg:
            return "digest"
        if len(f[3]) > mx:
            return "part-exceeds-max"
        frs.append(f[3])
    if "".join(frs) != body:
        return "join-mismatch"
    return None


def alt_case(text):
    """every second character upper case (mixed case inside one string)"""
    return "".join(c.upper() if i % 2 else c for i, c in enumerate(text))


def honest_variants(res, reader, wrap, texts, payload, vc, where):
    """Presentations of an honest message that change no character value.
    upper / per-string upper-lower: a UR string is case-insensitive as a whole (BCR-2020-005: upper case is what QR
    alphanumeric mode carries) -> must be accepted and give the payload.
    surrounding white space, tuple instead of list, mixed case inside one string: not demanded -> raises or payload."""
    n = len(texts)
    must = [("upper", [t.upper() for t in texts])]
    if n > 1:
        must.append(("upper-lower-per-part", [t.upper() if i % 2 == 0 else t for i, t in enumerate(texts)]))
    for nm, v in must:
        back = attempt(reader, wrap(v))
        if isinstance(back, Rejected) or back is None:
            res.violation(f"C20/chunk/variant/{nm}-rejected/{where}", vc, repr(back), "payload", "an honest message written in upper case is not read back")
        elif attempt(recovered, back) != payload:
            res.violation(f"C20/chunk/variant/{nm}-different/{where}", vc, "different payload", {"len": len(payload)}, "an honest message written in upper case yields a different payload")
        else:
            res.ok(f"variant[{nm}]==x", nontrivial=("variant", nm, where, len(payload), n))
    may = [("whitespace", wrap(["  " + t + " \n" for t in texts])), ("mixed-case-inside", wrap([alt_case(texts[0])] + list(texts[1:])))]
    if wrap(texts) is not texts and isinstance(wrap(texts), list):
        may.append(("tuple", tuple(wrap(texts))))
    for nm, arg in may:
        back = attempt(reader, arg)
        if isinstance(back, Rejected) or back is None:
            res.ok(f"variant[{nm}]:refused")
        elif attempt(recovered, back) != payload:
            res.violation(f"C20/chunk/variant/{nm}-different/{where}", vc, "different payload", {"len": len(payload)}, "a re-presented honest message yields a different payload")
        else:
            res.ok(f"variant[{nm}]==x")


def run_chunk(case):
    from buidl.bcur import BCURMulti, BCURSingle

    res = Res()
    L, seed = case["L"], case["seed"]
    lo, hi = case["sizes"]
    payload = payload_of(seed, case["kind"], L)
    vc = {"engine": "chunk", "case": case}
    bk = bucket(L)
    head, dialect, hstat = library_head(payload)
    # follow a valid non-preferred head, and the recorded non-standard head above 65535 bytes; nothing else
    use_head = head if hstat == "valid-nonpreferred" or (hstat == "dialect" and L > 65535) else None
    if hstat == "dialect" and L <= 65535:
        dialect = None
    body, dg = ref.ur_body(payload, use_head)
    E = len(body)
    obj = attempt(BCURMulti, text_b64=b64(payload))
    if isinstance(obj, Rejected):
        res.violation(f"C20/chunk/construct/{bk}", vc, repr(obj), "object", "BCURMulti cannot be built for this payload")
        return res
    if (obj.encoded, obj.enc_hash) != (body, dg):
        from buidl.bech32 import bc32encode

        std = ref.cbor_wrap(payload, use_head)
        if hstat == "invalid" or (hstat == "dialect" and L <= 65535):
            layer = f"cbor-head/{bk}"
        elif attempt(bc32encode, std) != ref.bc32_encode(std):
            layer = "bc32"
        else:
            layer = f"digest-or-other/{bk}"
        res.violation(
            f"C20/chunk/body/{layer}", vc, {"encoded": str(obj.encoded)[:60], "hash": obj.enc_hash}, {"encoded": body[:60], "hash": dg},
            "bc32 body / SHA-256 digest text differ from the reference",
        )
        # one root cause, one report: the remaining comparisons are made relative to the library's own text
        body, dg, E, body_ok = str(obj.encoded), str(obj.enc_hash), len(str(obj.encoded)), False
    else:
        res.ok("body==ref")
        body_ok = True
    prev = None
    n_same = n_valid_diff = 0
    nt = 0
    for mx in range(lo, hi + 1):
        parts = attempt(obj.encode, max_size_per_chunk=mx)
        want = ref.ur_fragments(body, dg, mx)
        n, size = ref.chunk_plan(E, mx)
        shape = "n1" if n == 1 else "even" if n * size == E else "short-last"
        if parts == want:
            n_same += 1
            nt += 1 if n > 1 else 0
        else:
            why = "raised" if isinstance(parts, Rejected) else weak_parts_check(parts, body, dg, mx)
            if why is None:
                n_valid_diff += 1  # reassemblable, but not the equalised plan: not demanded by the statement
            else:
                res.violation(
                    f"C20/chunk/encode/{why}/{shape}", {"engine": "chunk", "case": dict(case, sizes=[mx, mx])},
                    {"parts": len(parts) if isinstance(parts, list) else repr(parts), "lens": [len(p.split("/")[-1]) for p in parts][:8] if isinstance(parts, list) else None},
                    {"n": n, "size": size, "text_len": E, "max": mx}, "encode() does not produce usable fragments for this chunk size",
                )
                continue
        if parts == prev:
            continue
        prev = parts
        # a chunking not seen before for this payload: reassemble with the library and independently
        back = attempt(BCURMulti.parse, parts)
        if isinstance(back, Rejected):
            res.violation(f"C20/chunk/roundtrip-rejected/{bk}/{shape}", {"engine": "chunk", "case": dict(case, sizes=[mx, mx])}, repr(back), "payload", "BCURMulti.parse rejects the library's own parts")
        else:
            got = attempt(recovered, back)
            if got != payload:
                res.violation(
                    f"C20/chunk/roundtrip-different/{bk}/{shape}", {"engine": "chunk", "case": dict(case, sizes=[mx, mx])},
                    {"len": len(got) if isinstance(got, bytes) else repr(got)}, {"len": L}, "parse(encode(x)) yields a different payload",
                )
            else:
                res.ok(f"parse(encode)==x[{shape}]", sample={"L": L, "max": mx, "n": n, "size": size} if n in (3, 7) and L in (100, 300) else None)
                res.notes["distinct_chunkings_reassembled"] = res.notes.get("distinct_chunkings_reassembled", 0) + 1
                if len(parts) <= 5:
                    honest_variants(res, BCURMulti.parse, list, parts, payload, {"engine": "chunk", "case": dict(case, sizes=[mx, mx])}, "multi")
        st, val = ref.classify(parts, dialect) if body_ok else ("ok", payload)
        if (st, val) != ("ok", payload):
            res.violation(
                f"C20/chunk/independent-reassembly/{bk}/{shape}", {"engine": "chunk", "case": dict(case, sizes=[mx, mx])}, [st, val if st == "bad" else len(val)], {"len": L},
                "the independent UR reader does not recover the payload from the library's parts",
            )
        else:
            res.ok("ref-reassemble(encode)==x")
        if n == 1:
            # a 1-of-1 part handed to the single-part reader: may be refused, must not yield other data
            one = attempt(BCURSingle.parse, parts[0])
            if not isinstance(one, Rejected) and attempt(recovered, one) != payload:
                res.violation(f"C20/chunk/single-reads-1of1/{bk}", vc, "different payload", {"len": L}, "BCURSingle.parse of a 1of1 part yields different data")
            else:
                res.ok("single.parse(1of1):" + ("refused" if isinstance(one, Rejected) else "same"))
    res.bulk("encode==reference-fragments", n_same, nt)
    if n_valid_diff:
        res.bulk("encode valid but not the equalised plan (recorded, not asserted)", n_valid_diff, 0)
    if lo == 1:
        # animate=False and the two single-part forms
        one = attempt(obj.encode, animate=False)
        w1 = ref.ur_fragments(body, dg, E)
        if one != w1:
            res.violation(f"C20/chunk/animate-false/{bk}", vc, repr(one)[:120], w1[0][:120], "encode(animate=False) is not the 1of1 part")
        else:
            res.ok("animate=False==1of1")
        s = attempt(BCURSingle, text_b64=b64(payload))
        if isinstance(s, Rejected):
            res.violation(f"C20/chunk/single-construct/{bk}", vc, repr(s), "object", "BCURSingle cannot be built")
            return res
        for with_dg in (True, False):
            form = "with-digest" if with_dg else "no-digest"
            text = attempt(s.encode, use_checksum=with_dg)
            want = f"ur:bytes/{dg}/{body}" if with_dg else f"ur:bytes/{body}"
            if text != want:
                res.violation(f"C20/chunk/single-encode/{form}/{bk}", vc, repr(text)[:120], want[:120], "BCURSingle.encode differs from the reference")
                if not isinstance(text, str):
                    continue
            else:
                res.ok(f"single.encode[{form}]==ref")
            for reader, nm in ((BCURSingle.parse, "single"), (lambda t: BCURMulti.parse([t]), "multi")):
                back = attempt(reader, text)
                if isinstance(back, Rejected):
                    if nm == "single":
                        res.violation(f"C20/chunk/single-roundtrip-rejected/{form}/{bk}", vc, repr(back), "payload", "BCURSingle.parse rejects BCURSingle.encode output")
                    else:
                        res.ok("multi.parse(single-form):refused")
                    continue
                got = attempt(recovered, back)
                if got != payload:
                    res.violation(f"C20/chunk/{nm}-roundtrip-different/{form}/{bk}", vc, {"len": len(got) if isinstance(got, bytes) else repr(got)}, {"len": L}, "single-part round trip yields a different payload")
                else:
                    res.ok(f"{nm}.parse(single[{form}])==x", nontrivial=("single", L, form, nm))
                    if nm == "single":
                        honest_variants(res, BCURSingle.parse, lambda v: v[0], [text], payload, vc, f"single-{form}")
            st, val = ref.classify([text], dialect) if body_ok else ("ok", payload)
            if (st, val) != ("ok", payload):
                res.violation(f"C20/chunk/single-independent/{form}/{bk}", vc, [st, val if st == "bad" else len(val)], {"len": L}, "independent reader does not recover the payload from the single-part form")
            else:
                res.ok("ref-reassemble(single)==x")
    return res


# ---------------------------------------------------------------- faults
FAULT_LENS = {"quick": (0, 1, 9, 23, 24, 32, 100, 255, 256), "thorough": (0, 1, 2, 5, 9, 23, 24, 25, 32, 64, 100, 255, 256, 300, 600)}
EXTRA_CHARS = {
    # the four characters excluded from the bech32 set, separators, digits, upper case, white space, KELVIN SIGN (lower() == "k")
    "quick": "1bio/: 02QL\n\u212a",
    # every other printable ASCII character plus code points with surprising lower()/strip()/int() behaviour:
    # KELVIN SIGN, I WITH DOT ABOVE (lower() is two characters), ARABIC-INDIC DIGIT ONE, NO-BREAK SPACE, LONG S
    "thorough": "".join(chr(c) for c in range(32, 127) if chr(c) not in BECH) + "\n\t\u212a\u0130\u0661\u00a0\u017f",
}


def max_for_parts(E, n):
    for mx in range(1, E + 1):
        k = ref.chunk_plan(E, mx)[0]
        if k == n:
            return mx
        if k < n:
            return None
    return None


INDEL_LENS = {"quick": (0, 1, 9, 23, 24, 100), "thorough": FAULT_LENS["thorough"]}
BIG_LENS = {"quick": (65536,), "thorough": (65535, 65536)}
BIG_EDGE = {"quick": (8, 7), "thorough": (40, 12)}  # body characters taken from the start / from the end of a part


def gen_faults(tier, seed):
    nmax = 4 if tier == "quick" else 5
    cases = []
    # a payload around the 65535/65536 head boundary at the largest chunk size of the statement (53 parts)
    for L in BIG_LENS[tier]:
        base = {"L": L, "n": 0, "max": 2000, "seed": seed, "tier": tier, "kind": "big"}
        cases.append(dict(base, sub="seq"))
        cases.append(dict(base, sub="foreign"))
        first, last = BIG_EDGE[tier]
        for pi in ("first", "last"):
            # quick: only the start of the first part (CBOR head symbols) and the end of the last part (bc32 checksum)
            if tier == "thorough" or pi == "first":
                for off in range(first):
                    cases.append(dict(base, sub="subst", part=pi, side="start", off=off))
            if tier == "thorough" or pi == "last":
                for off in range(last):
                    cases.append(dict(base, sub="subst", part=pi, side="end", off=off))
    for L in FAULT_LENS[tier]:
        E = len(ref.ur_body(payload_of(seed, "A", L))[0])
        for n in range(1, nmax + 1):
            mx = max_for_parts(E, n)
            if mx is None:
                continue
            base = {"L": L, "n": n, "max": mx, "seed": seed, "tier": tier}
            cases.append(dict(base, kind="seq"))
            for b in ["same-len", "len+1"] + [f"bch-{j}" for j in range(n)]:
                cases.append(dict(base, kind="foreign", other=b))
            if n > 1:
                cases.append(dict(base, kind="cut"))
            for i in range(n):
                cases.append(dict(base, kind="subst", form="multi", part=i))
            if n == 1:
                cases.append(dict(base, kind="subst", form="single-digest", part=0))
                cases.append(dict(base, kind="subst", form="single-plain", part=0))
                cases.append(dict(base, kind="subst", form="single-plain-multi", part=0))
                cases.append(dict(base, kind="cut1"))
            cases.append(dict(base, kind="relabel"))
            if L in INDEL_LENS[tier]:
                for i in range(n):
                    cases.append(dict(base, kind="indel", form="multi", part=i))
                if n == 1:
                    for form in ("single-digest", "single-plain", "single-plain-multi"):
                        cases.append(dict(base, kind="indel", form=form, part=0))
    cases.sort(key=lambda c: -(10**6 if c["kind"] == "big" else c["L"] if c["kind"] in ("subst", "indel") else 0))
    return cases


def lib_parts(payload, mx):
    from buidl.bcur import BCURMulti

    return attempt(lambda: BCURMulti(text_b64=b64(payload)).encode(max_size_per_chunk=mx))


def outcome_of(reader, arg, original):
    """-> ("rejected", None) | ("same", None) | ("different", bytes-or-repr)"""
    back = attempt(reader, arg)
    if isinstance(back, Rejected):
        return "rejected", None
    got = attempt(recovered, back)
    if got == original:
        return "same", None
    return "different", got


def seq_class(seq, n):
    ident = list(range(n))
    if seq == ident[: len(seq)] and len(seq) < n:
        return "omission-trailing"
    if len(set(seq)) < len(seq):
        return "duplication"
    if sorted(seq) == ident:
        return "permutation"
    if seq == sorted(seq):
        return "omission"
    return "omission+reorder"


def split_part(p):
    """'ur:bytes/XofY/DIGEST/BODY' -> [prefix-with-seq, digest, body]"""
    a, b, c, d = p.split("/")
    return [a + "/" + b, c, d]


def run_faults(case):
    from buidl.bcur import BCURMulti, BCURSingle

    if case["kind"] == "big":
        return run_big(case)
    res = Res()
    L, n, mx, seed = case["L"], case["n"], case["max"], case["seed"]
    A = payload_of(seed, "A", L)
    vc = {"engine": "faults", "case": case}
    parts = lib_parts(A, mx)
    head, _, hstat = library_head(A)
    if isinstance(parts, Rejected) or weak_parts_check(parts, *ref.ur_body(A, head if hstat == "valid-nonpreferred" else None), mx) is not None:
        # the honest message itself is unusable: reported by `chunk` with a precise class; here only once
        res.violation("C20/faults/base-message", vc, repr(parts)[:200], "usable parts", "the library does not produce usable honest parts for the base message")
        return res
    if len(parts) != n:
        # a different (still usable) chunking than the equalised plan is not a violation: follow the library
        res.ok("base message has a different part count than the equalised plan (recorded)")
        n = len(parts)
        if n > 5 or (case["kind"] in ("subst", "indel") and case["form"] == "multi" and case["part"] >= n):
            res.skip("library part count outside the bound of this engine")
            return res
    sizes = [len(split_part(p)[2]) for p in parts]
    size = sizes[0]
    if any(x != size for x in sizes[:-1]) or sizes[-1] > size or hstat != "preferred":
        size = None  # not equal-sized fragments / other CBOR head: crafted constructions are skipped
    multi = BCURMulti.parse
    # 0 deviations: must be accepted and give A
    st, _ = outcome_of(multi, parts, A)
    if st != "same":
        res.violation(f"C20/faults/honest-{st}", vc, st, "original payload", "the unmodified parts are not reassembled to the original payload")
        return res
    res.ok("honest:accepted-original")

    def judge(reader, arg, fp_class, detail, amb_owner=None, strict=False):
        """soundness: accepted => original payload.  amb_owner: payload that may also be returned (statement-ambiguous).
        strict: the fault is one the statement says is REJECTED (parts out of order, missing, taken from another payload,
        a corrupted bech32 character of body or checksum): being accepted - even with the original payload as the
        result, e.g. out of a memo of an earlier parse - is a violation."""
        st, got = outcome_of(reader, arg, A)
        if strict and st == "same":
            res.violation(
                f"C20/faults/{fp_class}/accepted-although-faulty", {"engine": "faults", "case": dict(case, detail=detail)}, "accepted (returns the original payload)",
                "rejection", "faulty parts the statement says are rejected are accepted",
            )
            return None
        if st == "different" and amb_owner is not None and got == amb_owner:
            return "accepted-body-owner(all bodies swapped = other message with corrupted digest; not asserted)"
        if st == "different":
            res.violation(
                f"C20/faults/{fp_class}", {"engine": "faults", "case": dict(case, detail=detail)}, {"returned_len": len(got) if isinstance(got, bytes) else repr(got), "returned": got[:24] if isinstance(got, bytes) else None},
                {"original": A[:24], "or": "rejection"}, "faulty parts are accepted and yield a payload different from the original",
            )
            return None
        return "rejected" if st == "rejected" else "accepted-original"

    kind = case["kind"]
    if kind == "seq":
        cnt = {}
        for k in range(0, n + 2):
            for seq in itertools.product(range(n), repeat=k):
                seq = list(seq)
                if seq == list(range(n)):
                    continue
                cls = seq_class(seq, n)
                o = judge(multi, [parts[i] for i in seq], f"seq/{cls}", {"seq": seq}, strict=(cls != "duplication" and not cls.startswith("dup")))
                if o:
                    key = f"seq/{cls}:{o}"
                    cnt[key] = cnt.get(key, 0) + 1
        for k, v in cnt.items():
            res.bulk(k, v, v)
    elif kind == "foreign":
        other = case["other"]
        if other == "same-len":
            B = payload_of(seed, "B", L)
        elif other == "len+1":
            B = payload_of(seed, "B", L + 1)
        else:
            j = int(other.split("-")[1])
            B = bch_neighbour_payload(A, n, size, j) if size and j < n else None
            if B is None:
                res.skip("no room for a checksum-preserving foreign fragment in this part (text too short)")
                return res
        bparts = lib_parts(B, mx)
        if isinstance(bparts, Rejected) or len(bparts) != n:
            res.skip("other payload does not split into the same number of parts at this chunk size")
            return res
        pa, pb = [split_part(p) for p in parts], [split_part(p) for p in bparts]
        if other.startswith("bch"):
            # sanity of the construction: the mixed text really passes the bc32 checksum
            jset = [i for i in range(n) if pa[i][2] != pb[i][2]]
            mixed = "".join(pb[i][2] if i in jset else pa[i][2] for i in range(n))
            assert ref.bc32_decode(mixed) == ref.cbor_wrap(B), "bch neighbour construction"
        cnt = {}
        for what in ("part", "body", "digest"):
            for r in range(1, n + 1):
                for S in itertools.combinations(range(n), r):
                    amb = None
                    if len(S) == n:
                        if what == "part":
                            res.skip("every part replaced = the other message itself")
                            continue
                        if what == "body":
                            amb = B
                    msg = []
                    for i in range(n):
                        if i not in S:
                            msg.append(parts[i])
                        elif what == "part":
                            msg.append(bparts[i])
                        elif what == "body":
                            msg.append("/".join([pa[i][0], pa[i][1], pb[i][2]]))
                        else:
                            msg.append("/".join([pa[i][0], pb[i][1], pa[i][2]]))
                    if msg == parts:
                        res.skip("foreign piece identical to the original piece")
                        continue
                    oname = "bch" if other.startswith("bch") else other
                    o = judge(multi, msg, f"foreign-{what}/{oname}", {"S": list(S), "what": what}, amb, strict=True)
                    if o:
                        deep = ref.classify(msg)
                        key = f"foreign-{what}/{oname}:{o}@ref:{deep[1] if deep[0] == 'bad' else 'ok'}"
                        cnt[key] = cnt.get(key, 0) + 1
                    if n == 1 and what != "part":
                        # the same on the single-part form with digest
                        single = "ur:bytes/" + msg[0].split("/", 2)[2]
                        o = judge(BCURSingle.parse, single, f"foreign-{what}/single/{oname}", {"S": list(S), "what": what, "form": "single"}, amb, strict=True)
                        if o:
                            key = f"foreign-{what}/single/{oname}:{o}"
                            cnt[key] = cnt.get(key, 0) + 1
        for k, v in cnt.items():
            res.bulk(k, v, v)
    elif kind == "cut":
        # payloads crafted so that the first k fragments alone are a valid bc32 string: only the digest
        # (or the CBOR length) can reveal that trailing parts are missing
        made = 0
        for k in range(1, n):
            C = cut_valid_payload(A, n, size, k) if size else None
            if C is None:
                res.skip("no self-contained prefix can be crafted at this cut (padding / checksum overlap)")
                continue
            cparts = lib_parts(C, mx)
            if isinstance(cparts, Rejected) or len(cparts) != n or len(split_part(cparts[0])[2]) != size:
                res.skip("crafted payload does not split into n parts")
                continue
            pref = "".join(split_part(p)[2] for p in cparts[:k])
            assert isinstance(ref.bc32_decode(pref), bytes), "cut construction"
            st, got = outcome_of(multi, cparts, C)
            if st != "same":
                res.violation(f"C20/faults/honest-{st}", vc, st, "original", "crafted payload does not round-trip")
                continue
            st, got = outcome_of(multi, cparts[:k], C)
            if st == "different":
                res.violation(
                    "C20/faults/seq/omission-trailing/valid-bc32-prefix", {"engine": "faults", "case": dict(case, detail={"k": k})},
                    {"returned_len": len(got) if isinstance(got, bytes) else repr(got)}, {"len": L, "or": "rejection"},
                    "a message with its trailing parts missing is accepted and yields truncated data",
                )
            else:
                res.ok(f"cut/valid-bc32-prefix:{'rejected' if st == 'rejected' else 'accepted-original'}", nontrivial=("cut", L, n, k))
                made += 1
        if n == 1:
            res.skip("single part: nothing to omit")
    elif kind == "subst":
        form, pi = case["form"], case["part"]
        alphabet = BECH + EXTRA_CHARS[case["tier"]]
        if form == "multi":
            target = parts[pi]
            build = lambda s: parts[:pi] + [s] + parts[pi + 1 :]  # noqa
            reader = multi
        else:
            s = BCURSingle(text_b64=b64(A))
            target = s.encode(use_checksum=(form == "single-digest"))
            build = lambda s: s  # noqa
            reader = BCURSingle.parse
            if form == "single-plain-multi":
                # the no-digest string handed to the multi-part reader (no digest, no re-encoding comparison there)
                reader = lambda t: BCURMulti.parse([t])  # noqa
            st, _ = outcome_of(reader, target, A)
            if st == "rejected" and form == "single-plain-multi":
                res.skip("the multi-part reader refuses the no-digest single-part form")
                return res
            if st != "same":
                res.violation(f"C20/faults/honest-{st}/{form}", vc, st, "original payload", "the unmodified single-part string is not read back")
                return res
        # field boundaries for fingerprints / the outcome histogram
        fields = target.split("/")
        bounds, p = [], 0
        names = {2: ["type", "body"], 3: ["type", "digest", "body"], 4: ["type", "seq", "digest", "body"]}[len(fields)]
        for nm, f in zip(names, fields):
            bounds.append((p, p + len(f), nm))
            p += len(f) + 1

        def field_of(pos):
            for a, b, nm in bounds:
                if a <= pos < b:
                    return nm
            return "slash"

        cnt = {}
        deep = 0
        for pos in range(len(target)):
            fld = field_of(pos)
            for c in alphabet:
                if c == target[pos]:
                    continue
                bad = target[:pos] + c + target[pos + 1 :]
                o = judge(reader, build(bad), f"subst/{form}/{fld}-char", {"pos": pos, "char": c}, strict=(fld in ("body", "digest") and c in BECH))
                if o:
                    inset = "bech32" if c in BECH else "other"
                    key = f"subst/{form}/{fld}[{inset}]:{o}"
                    cnt[key] = cnt.get(key, 0) + 1
                    if fld in ("body", "digest") and c in BECH:
                        deep += 1
        tot = sum(cnt.values())
        for k, v in cnt.items():
            res.bulk(k, v, 0)
        res.nontrivial_bulk += deep
        res.notes["subst_total"] = tot
    elif kind == "indel":
        # one character lost, one character too many, two neighbours swapped - in the digest and in the body
        form, pi = case["form"], case["part"]
        if form == "multi":
            target = parts[pi]
            build = lambda s: parts[:pi] + [s] + parts[pi + 1 :]  # noqa
            reader = multi
        else:
            target = BCURSingle(text_b64=b64(A)).encode(use_checksum=(form == "single-digest"))
            build = lambda s: s  # noqa
            reader = (lambda t: BCURMulti.parse([t])) if form == "single-plain-multi" else BCURSingle.parse  # noqa
            st, _ = outcome_of(reader, target, A)
            if st == "rejected" and form == "single-plain-multi":
                res.skip("the multi-part reader refuses the no-digest single-part form")
                return res
            if st != "same":
                res.violation(f"C20/faults/honest-{st}/{form}", vc, st, "original payload", "the unmodified single-part string is not read back")
                return res
        fields = target.split("/")
        names = {2: ["type", "body"], 3: ["type", "digest", "body"], 4: ["type", "seq", "digest", "body"]}[len(fields)]
        cnt = {}
        p = 0
        for nm, f in zip(names, fields):
            a, b = p, p + len(f)
            p = b + 1
            if nm not in ("digest", "body"):
                continue
            muts = []
            for pos in range(a, b):
                muts.append(("delete", pos, target[:pos] + target[pos + 1 :]))
                if pos + 1 < b and target[pos] != target[pos + 1]:
                    muts.append(("swap", pos, target[:pos] + target[pos + 1] + target[pos] + target[pos + 2 :]))
            for pos in range(a, b + 1):
                for c in BECH:
                    muts.append(("insert", pos, target[:pos] + c + target[pos:]))
            for op, pos, bad in muts:
                if bad == target:
                    continue
                o = judge(reader, build(bad), f"indel/{form}/{nm}-{op}", {"pos": pos, "op": op, "text": bad[-12:]}, strict=True)
                if o:
                    key = f"indel/{form}/{nm}/{op}:{o}"
                    cnt[key] = cnt.get(key, 0) + 1
        for k, v in cnt.items():
            res.bulk(k, v, v)
    elif kind == "relabel":
        # the library never compares the number of strings with the announced total: only the digest stands behind it
        pa = [split_part(p) for p in parts]
        cnt = {}

        def relabelled(pieces, total, dgst=None):
            return [f"ur:bytes/{i + 1}of{total}/{dgst or x[1]}/{x[2]}" for i, x in enumerate(pieces)]

        for Y in sorted({n - 1, n + 1, n + 2, 10 * n}):
            if Y == n:
                continue
            o = judge(multi, relabelled(pa, Y), "relabel/total-changed", {"total": Y})
            if o:
                cnt[f"relabel/total-changed:{o}"] = cnt.get(f"relabel/total-changed:{o}", 0) + 1
        for k in range(1, n):
            o = judge(multi, relabelled(pa[:k], k), "relabel/prefix-as-complete", {"k": k}, strict=True)
            if o:
                cnt[f"relabel/prefix-as-complete:{o}"] = cnt.get(f"relabel/prefix-as-complete:{o}", 0) + 1
            # the same with a payload whose first k fragments are a valid bc32 string on their own
            C = cut_valid_payload(A, n, size, k) if size else None
            cparts = lib_parts(C, mx) if C is not None else None
            if C is None or isinstance(cparts, Rejected) or len(cparts) != n or len(split_part(cparts[0])[2]) != size:
                res.skip("no self-contained prefix can be crafted at this cut (padding / checksum overlap)")
                continue
            pc = [split_part(p) for p in cparts]
            st, got = outcome_of(multi, relabelled(pc[:k], k), C)
            if st != "rejected":
                res.violation(
                    "C20/faults/relabel/prefix-as-complete/valid-bc32-prefix", {"engine": "faults", "case": dict(case, detail={"k": k})},
                    {"accepted": st, "returned_len": len(got) if isinstance(got, bytes) else None}, "rejection",
                    "the first k parts, relabelled 1..k of k, are accepted although the rest of the message is missing",
                )
            else:
                res.ok("relabel/prefix-as-complete/valid-bc32-prefix:rejected", nontrivial=("relabel-cut", L, n, k))
        for k, v in cnt.items():
            res.bulk(k, v, v)
    elif kind == "cut1":
        # a single part whose text is cut short at a point where what remains is still a valid bc32 string: without a
        # digest only the CBOR length (and the re-encoding comparison of the constructor) can tell
        if not size:
            res.skip("base message is not in the reference layout")
            return res
        E = sizes[0]
        made = 0
        for k in [k for k in range(1, E) if k < 200 or k >= E - 40]:
            C = cut_valid_payload(A, 1, k, 1)
            if C is None:
                continue
            body, dg = ref.ur_body(C)
            single = attempt(lambda: BCURSingle(text_b64=b64(C)).encode(use_checksum=False))
            if single != "ur:bytes/" + body:
                res.skip("crafted payload is not encoded as the reference text")
                continue
            pref = body[:k]
            assert isinstance(ref.bc32_decode(pref), bytes), "cut1 construction"
            made += 1
            for nm, reader, arg in (
                ("single-reads-plain", BCURSingle.parse, "ur:bytes/" + pref),
                ("multi-reads-plain", multi, ["ur:bytes/" + pref]),
                ("single-reads-digest", BCURSingle.parse, f"ur:bytes/{dg}/{pref}"),
                ("multi-reads-1of1", multi, [f"ur:bytes/1of1/{dg}/{pref}"]),
            ):
                st, got = outcome_of(reader, arg, C)
                if st != "rejected":
                    res.violation(
                        f"C20/faults/cut1/{nm}", {"engine": "faults", "case": dict(case, detail={"k": k})},
                        {"accepted": st, "returned_len": len(got) if isinstance(got, bytes) else None}, {"len": L, "or": "rejection"},
                        "a single part whose text is cut short (the rest is a valid bc32 string) is accepted and yields truncated data",
                    )
                else:
                    res.ok(f"cut1/{nm}:rejected", nontrivial=("cut1", L, k, nm))
        if not made:
            res.skip("no cut point leaves a valid bc32 prefix (text too short)")
    return res


def run_big(case):
    """53-part message (65535 / 65536 bytes at max_size_per_chunk=2000): single omissions, neighbour swaps, duplications,
    foreign part / body / digest at one position, single-character substitutions at the two ends of the first and last part."""
    from buidl.bcur import BCURMulti

    res = Res()
    L, mx, seed = case["L"], case["max"], case["seed"]
    A = payload_of(seed, "A", L)
    vc = {"engine": "faults", "case": case}
    parts = lib_parts(A, mx)
    multi = BCURMulti.parse
    if isinstance(parts, Rejected) or not isinstance(parts, list) or len(parts) < 2:
        res.violation("C20/faults/big/base-message", vc, repr(parts)[:200], "usable parts", "no usable honest parts for the large message")
        return res
    n = len(parts)
    st, _ = outcome_of(multi, parts, A)
    if st != "same":
        res.violation(f"C20/faults/big/honest-{st}", vc, st, "original payload", "the unmodified parts of the large message are not reassembled")
        return res
    res.ok("big/honest:accepted-original")

    def judge(arg, cls, detail, strict):
        st, got = outcome_of(multi, arg, A)
        if st == "different" or (strict and st == "same"):
            res.violation(
                f"C20/faults/big/{cls}" + ("" if st == "different" else "/accepted-although-faulty"), {"engine": "faults", "case": dict(case, detail=detail)},
                {"accepted": st, "returned_len": len(got) if isinstance(got, bytes) else None}, {"len": L, "or": "rejection"},
                "faulty parts of the large message are accepted",
            )
            return
        res.ok(f"big/{cls}:{'rejected' if st == 'rejected' else 'accepted-original'}", nontrivial=("big", L, cls, repr(detail)))

    sub = case["sub"]
    if sub == "seq":
        for i in range(n):
            judge(parts[:i] + parts[i + 1 :], "seq/omission", {"omit": i}, True)
            judge(parts[: i + 1] + parts[i:], "seq/duplication", {"dup": i}, False)
            if i + 1 < n:
                judge(parts[:i] + [parts[i + 1], parts[i]] + parts[i + 2 :], "seq/swap", {"swap": i}, True)
        for k in (2, 3, n - 1):
            judge(parts[: n - k], "seq/omission", {"omit_last": k}, True)
    elif sub == "foreign":
        B = payload_of(seed, "B", L)
        bparts = lib_parts(B, mx)
        if isinstance(bparts, Rejected) or len(bparts) != n:
            res.skip("other payload does not split into the same number of parts at this chunk size")
            return res
        pa, pb = [split_part(p) for p in parts], [split_part(p) for p in bparts]
        for i in range(n):
            judge(parts[:i] + [bparts[i]] + parts[i + 1 :], "foreign-part", {"i": i}, True)
            judge(parts[:i] + ["/".join([pa[i][0], pa[i][1], pb[i][2]])] + parts[i + 1 :], "foreign-body", {"i": i}, True)
            judge(parts[:i] + ["/".join([pa[i][0], pb[i][1], pa[i][2]])] + parts[i + 1 :], "foreign-digest", {"i": i}, True)
    elif sub == "subst":
        pi = 0 if case["part"] == "first" else n - 1
        target = parts[pi]
        start = target.rindex("/") + 1
        pos = start + case["off"] if case["side"] == "start" else len(target) - 1 - case["off"]
        if not start <= pos < len(target):
            res.skip("part shorter than the offset")
            return res
        for c in BECH:
            if c == target[pos]:
                continue
            judge(parts[:pi] + [target[:pos] + c + target[pos + 1 :]] + parts[pi + 1 :], "subst/body-char", {"part": pi, "pos": pos, "char": c}, True)
    return res


def _plan(payload):
    cbor = ref.cbor_wrap(payload)
    syms = ref.to_base32(cbor)
    head_syms = ref.ceil_div(8 * len(ref.cbor_head(len(payload))), 5)
    return syms, head_syms


def _payload_from_syms(syms, payload):
    """data symbols (same count, final padding untouched) -> payload bytes of the same length"""
    cbor = ref.from_base32(syms)
    hl = len(ref.cbor_head(len(payload)))
    assert cbor[:hl] == ref.cbor_head(len(payload)) and len(cbor) == hl + len(payload)
    return cbor[hl:]


GENPOLY = (1,) + ref._G  # coefficients of g(x), highest degree first


def bch_neighbour_payload(payload, n, size, j):
    """Another payload of the same length whose bc32 text differs from payload's by one shifted copy of the
    generator polynomial placed inside fragment j (so the bc32 checksum characters are identical), or None."""
    syms, head_syms = _plan(payload)
    lo = max(j * size, head_syms)
    hi = min((j + 1) * size, len(syms) - 1)  # keep clear of the last data symbol (padding bits)
    if hi - lo < 7:
        return None
    s = list(syms)
    for t, g in enumerate(GENPOLY):
        s[lo + t] ^= g
    return _payload_from_syms(s, payload)


def cut_valid_payload(payload, n, size, k):
    """A payload of the same length whose first k fragments form, on their own, a valid bc32 string, or None."""
    syms, head_syms = _plan(payload)
    cut = k * size
    if cut > len(syms) - 1 or cut - 7 < head_syms:
        return None
    extra = (5 * (cut - 6)) % 8
    if extra > 4:
        return None
    s = list(syms)
    s[cut - 7] &= ~((1 << extra) - 1) & 31
    s[cut - 6 : cut] = ref.bc32_checksum(s[: cut - 6])
    return _payload_from_syms(s, payload)


# ---------------------------------------------------------------- strict (component-level decoders)
def lib_bytes(x):
    """what a decoder handed back: None when it refused (None / False / exception), else the value"""
    if isinstance(x, Rejected) or x is None or x is False:
        return None
    return bytes(x) if isinstance(x, (bytes, bytearray)) else x


def component_lengths(tier, seed):
    """lengths of the `cbor` engine; the quick tier keeps 65535, 65536, 70000 of the 65530..65540 window"""
    return [L for L in lengths(tier, "cbor", seed) if tier == "thorough" or L <= 600 or L in (65535, 65536, 70000)]


def gen_strict(tier, seed):
    return [{"L": L, "seed": seed, "short": (2 if tier == "quick" else 3) if L == 0 else None} for L in component_lengths(tier, seed)]


def run_strict(case):
    from buidl.bech32 import cbor_decode, bc32decode

    res = Res()
    L = case["L"]
    data = payload_of(case["seed"], "f0", L)
    bk = bucket(L)

    def sound(layer, cls, lib_fn, ref_fn, arg, shown):
        """soundness only: the library may refuse anything here, but bytes it returns must be what the strict reader returns"""
        got = lib_bytes(attempt(lib_fn, arg))
        if got is None:
            res.ok(f"{layer}/{cls}:refused")
            return
        try:
            want = ref_fn(arg)
        except ValueError:
            want = None
        if got == want:
            res.ok(f"{layer}/{cls}:same-as-strict-reader", nontrivial=(layer, cls, L, shown))
        else:
            res.violation(
                f"C20/strict/{layer}/{cls}", {"engine": "strict", "case": case},
                {"input": shown, "returned_len": len(got) if isinstance(got, bytes) else repr(got), "carried_len": L, "bucket": bk},
                "refusal" if want is None else {"len": len(want)},
                f"{layer} decoder returns bytes for an input the strict reader refuses (or returns other bytes)",
            )

    # ---- CBOR: heads of a definite-length byte string carrying `data`
    heads = [("preferred", ref.cbor_head(L))]
    for ib, k in ((0x58, 1), (0x59, 2), (0x5A, 4), (0x5B, 8)):
        if L < 1 << (8 * k):
            h = bytes([ib]) + L.to_bytes(k, "big")
            if h != heads[0][1]:
                heads.append((f"nonpreferred-{ib:02x}", h))
    lhead, dialect, hstat = library_head(data)
    if hstat == "dialect" and L > 65535:
        heads.append(("library", lhead))  # the recorded non-standard head above 65535 bytes, read with the same dialect
    else:
        dialect = None
    unwrap = lambda b: ref.cbor_unwrap(b, dialect)  # noqa
    for hn, h in heads:
        full = h + data
        sound("cbor", "exact", cbor_decode, unwrap, full, hn)
        for k in sorted({1, 2, 3, 4, 5, 6, 7, 8, L // 2, L} & set(range(1, L + 1))):
            sound("cbor", "truncated", cbor_decode, unwrap, full[: len(full) - k], f"{hn}-minus{k}")
        for j in range(1, len(h)):
            sound("cbor", "truncated", cbor_decode, unwrap, h[:j], f"{hn}-head{j}")
        for tail in (b"\x00", b"\xff", b"\x00\x00", data[-1:] or b"\x40"):
            sound("cbor", "trailing", cbor_decode, unwrap, full + tail, f"{hn}-plus{tail.hex()}")
        tb = h[0] + 0x20
        if hn != "library" and tb != 0x60 and not (dialect and tb in dialect):
            # the same bytes announced as a text string (major type 3); initial byte 0x60 is left out: it is the
            # non-standard head the library itself writes above 65535 bytes (recorded by `cbor`, not asserted)
            sound("cbor", "wrong-type", cbor_decode, unwrap, bytes([tb]) + full[1:], f"{hn}-text")
        sound("cbor", "wrong-type", cbor_decode, unwrap, b"\x5f" + full + b"\xff", f"{hn}-indefinite")
    sound("cbor", "truncated", cbor_decode, unwrap, b"", "empty")

    # ---- bc32
    text = ref.bc32_encode(data)
    syms = ref.to_base32(data)
    enc = lambda sy: "".join(BECH[x] for x in sy + ref.bc32_checksum(sy))  # noqa
    sound("bc32", "case", bc32decode, ref.bc32_decode, text.upper(), "upper")
    mixed = alt_case(text)
    if mixed != text and mixed != text.upper():
        sound("bc32", "case", bc32decode, ref.bc32_decode, mixed, "mixed")
    for k in range(1, min(len(text), 8) + 1):
        sound("bc32", "truncated", bc32decode, ref.bc32_decode, text[: len(text) - k], f"minus{k}")
    for c in "qpl":
        sound("bc32", "extended", bc32decode, ref.bc32_decode, text + c, f"plus-{c}")
        sound("bc32", "extended", bc32decode, ref.bc32_decode, c + text, f"{c}-plus")
    pad = 5 * len(syms) - 8 * L
    for v in range(1, 1 << pad):
        sound("bc32", "padding", bc32decode, ref.bc32_decode, enc(syms[:-1] + [syms[-1] | v]), f"nonzero-{v}")
    sound("bc32", "padding", bc32decode, ref.bc32_decode, enc(syms + [0]), "one-more-symbol")
    sound("bc32", "padding", bc32decode, ref.bc32_decode, enc(syms + [1]), "one-more-symbol-1")
    if case["short"] is not None:
        # every string shorter than the six checksum characters
        n_ref = 0
        for k in range(0, case["short"] + 1):
            for tup in itertools.product(BECH, repeat=k):
                t = "".join(tup)
                got = lib_bytes(attempt(bc32decode, t))
                if got is not None:
                    res.violation("C20/strict/bc32/shorter-than-checksum", {"engine": "strict", "case": case}, {"input": t, "returned": got}, "refusal", "a string shorter than the bc32 checksum is decoded")
                else:
                    n_ref += 1
        res.bulk("bc32/shorter-than-checksum:refused", n_ref, n_ref)
    return res


# ---------------------------------------------------------------- fn (bcur_encode / bcur_decode called directly)
def gen_fn(tier, seed):
    sub = 40 if tier == "quick" else 200
    return [{"L": L, "seed": seed, "faults": L <= sub} for L in component_lengths(tier, seed)]


def run_fn(case):
    from buidl.bcur import bcur_encode, bcur_decode

    res = Res()
    L, seed = case["L"], case["seed"]
    vc = {"engine": "fn", "case": case}
    bk = bucket(L)
    for kind in ("f0", "00", "ff"):
        data = payload_of(seed, kind, L)
        head, _, hstat = library_head(data)
        use_head = head if hstat == "valid-nonpreferred" or (hstat == "dialect" and L > 65535) else None
        want = ref.ur_body(data, use_head)
        out = attempt(bcur_encode, data)
        if not (isinstance(out, tuple) and len(out) == 2 and all(isinstance(x, str) for x in out)):
            res.violation(f"C20/fn/encode-refused/{bk}", vc, repr(out)[:120], "(text, checksum)", "bcur_encode does not return two strings")
            continue
        if tuple(out) != want:
            which = "text" if out[0] != want[0] else "checksum"
            res.violation(f"C20/fn/encode/{which}/{bk}", vc, {"text": out[0][:60], "checksum": out[1]}, {"text": want[0][:60], "checksum": want[1]}, "bcur_encode differs from the reference text / digest")
        else:
            res.ok("bcur_encode==ref", nontrivial=("fn", L, kind))
        enc, chk = out
        for nm, call in (("with-checksum", lambda: bcur_decode(enc, chk)), ("checksum-keyword", lambda: bcur_decode(data=enc, checksum=chk)),
                         ("no-checksum", lambda: bcur_decode(enc)), ("checksum-none", lambda: bcur_decode(enc, checksum=None))):
            back = attempt(call)
            if back != data:
                res.violation(f"C20/fn/inverse/{nm}/{bk}", vc, repr(back)[:80], {"len": L}, "bcur_decode(bcur_encode(x)) != x")
            else:
                res.ok(f"bcur_decode[{nm}]==x")
    if not case["faults"]:
        return res
    A = payload_of(seed, "f0", L)
    body, dg = ref.ur_body(A)
    if attempt(bcur_decode, body, dg) != A:
        res.skip("reference text is not read back (reported above)")
        return res

    def judge(cls, detail, strict, *args):
        back = lib_bytes(attempt(bcur_decode, *args))
        if back is None:
            return "rejected"
        if back == A and not strict:
            return "returned-original"
        res.violation(
            f"C20/fn/{cls}" + ("/accepted-although-faulty" if back == A else ""), {"engine": "fn", "case": dict(case, detail=detail)},
            {"returned_len": len(back) if isinstance(back, bytes) else repr(back)}, {"original_len": L, "or": "rejection"},
            "bcur_decode accepts a faulty text / checksum",
        )
        return None

    cnt = {}

    def tally(key, o):
        if o:
            cnt[f"{key}:{o}"] = cnt.get(f"{key}:{o}", 0) + 1

    for pos, c in itertools.product(range(len(body)), BECH):
        if body[pos] == c:
            continue
        bad = body[:pos] + c + body[pos + 1 :]
        tally("subst/text/with-checksum", judge("subst/text/with-checksum", {"pos": pos, "char": c}, True, bad, dg))
        tally("subst/text/no-checksum", judge("subst/text/no-checksum", {"pos": pos, "char": c}, True, bad))
    for pos, c in itertools.product(range(len(dg)), BECH):
        if dg[pos] == c:
            continue
        tally("subst/checksum", judge("subst/checksum", {"pos": pos, "char": c}, True, body, dg[:pos] + c + dg[pos + 1 :]))
    for other, B in (("same-len", payload_of(seed, "B", L)), ("len+1", payload_of(seed, "B", L + 1))):
        bbody, bdg = ref.ur_body(B)
        if B == A:
            continue
        tally(f"foreign-checksum/{other}", judge("foreign-checksum", {"other": other}, True, body, bdg))
        tally(f"foreign-text/{other}", judge("foreign-text", {"other": other}, True, bbody, dg))
    # an empty checksum is not one of the statement's faults: recorded only (it must not yield different data)
    tally("empty-checksum(recorded)", judge("empty-checksum", {}, False, body, ""))
    # texts cut short where the remaining prefix is a valid bc32 string
    E = len(body)
    for k in [k for k in range(1, E) if k < 200 or k >= E - 40]:
        C = cut_valid_payload(A, 1, k, 1)
        if C is None:
            continue
        cbody, cdg = ref.ur_body(C)
        if attempt(bcur_decode, cbody, cdg) != C:
            continue
        pref = cbody[:k]
        assert isinstance(ref.bc32_decode(pref), bytes), "fn cut construction"
        for nm, args in (("no-checksum", (pref,)), ("with-checksum", (pref, cdg))):
            back = lib_bytes(attempt(bcur_decode, *args))
            if back is None:
                tally(f"cut/{nm}", "rejected")
            else:
                res.violation(
                    f"C20/fn/cut/{nm}", {"engine": "fn", "case": dict(case, detail={"k": k})}, {"returned_len": len(back) if isinstance(back, bytes) else repr(back)},
                    {"len": L, "or": "rejection"}, "bcur_decode of a text cut short (valid bc32 prefix) returns data",
                )
    for k, v in cnt.items():
        res.bulk(k, v, v)
    return res


# ---------------------------------------------------------------- engines
def engines(tier, seed):
    return [
        Engine(
            "cbor", gen_cbor, run_cbor, kind="E1",
            rule="every byte-string length 0..600, 65530..65540 and 70000 (crossing 23/24, 255/256, 65535/65536) x 3 contents (seeded filler, all-00, all-ff): "
            "cbor_decode(cbor_encode(x)) == x; head == RFC 8949 head and decoder reads it (asserted <= 65535; above, the head written is recorded only). "
            "Thorough adds 2^k-1, 2^k, 2^k+1 for k = 11..15 and 64 seed-chosen lengths in 1301..65529 (also for bc32, chunk, strict, fn). "
            "Non-trivial = every (length, content)",
        ),
        Engine(
            "bc32", gen_bc32, run_bc32, kind="E1",
            rule="same lengths x 3 contents: bc32encode == independent BCR-2020-004 encoder, bc32decode inverts both; for lengths 0..64 (quick) / 0..200 (thorough) "
            "the outcome of every single-character substitution (every position x 31 other characters) is recorded (rejection is asserted at part level by `faults`). Non-trivial = every (length, content) and every substitution",
        ),
        Engine(
            "chunk", gen_chunk, run_chunk, kind="E1",
            rule="every payload length 0..600 (quick) / 0..1300 (thorough, two contents up to 600) x every max_size_per_chunk 1..2000: encode() == reference fragments "
            "(or at least fragments <= max that join to the body); every distinct chunking is reassembled by BCURMulti.parse and by the independent reader; BCURSingle both forms, "
            "animate=False. Window 65530..65540 + 70000: quick 5 (length, size) points; thorough every size 1..2000 for 65535, 65536, 70000 and 10 boundary sizes for the rest; "
            "thorough also 2^k-1, 2^k, 2^k+1 (k = 11..15) and 64 seed-chosen lengths in 1301..65529 at sizes 1, 299, 300, 301, 2000. "
            "Every distinct chunking of at most 5 parts and both single-part forms are also presented in upper case and (multi) alternately upper / lower case per part: must be "
            "accepted with the original payload (BCR-2020-005 case-insensitivity); with surrounding white space, as a tuple, with mixed case inside one string: raises or original payload. "
            "Non-trivial = chunkings with more than one part, upper-case presentations",
        ),
        Engine(
            "faults", gen_faults, run_faults, kind="E1",
            rule="library-built messages for 9 (15) payload lengths x every part count 1..4 (5): all part sequences of length 0..n+1 over the n parts except the honest one; "
            "whole parts / bodies / digests from 2 unrelated payloads and from n crafted bc32-checksum-preserving payloads on every non-empty subset of positions; crafted payloads whose "
            "first k fragments are a valid bc32 string, with trailing parts omitted; every single-character substitution at every position of every part and of both BCURSingle forms "
            "over the 32 bech32 characters plus 13 (quick) / 70 (thorough) other characters. Oracle: parse raises or returns the original payload; honest parts must be accepted. "
            "Also: the no-digest single-part string substituted the same way but read by BCURMulti.parse([s]); single parts (4 presentations: no-digest and with digest, each through "
            "BCURSingle.parse and BCURMulti.parse) cut after k characters for every k among the first 200 and last 40 characters for which a payload exists whose k-character prefix "
            "is a valid bc32 string: must be rejected; all parts relabelled i-of-Y for Y in {n-1, n+1, n+2, 10n} (raises or original) and the first k < n parts relabelled i-of-k, "
            "honest and with a crafted valid-bc32 prefix (must be rejected); for 6 (15) payload lengths every deletion of one character, every insertion of one of the 32 characters at "
            "every position and every swap of two neighbours inside the digest and the body of every part and single-part form (must be rejected); a 65536-byte (thorough: also 65535-byte) "
            "payload at max_size_per_chunk=2000 (53 parts): every single omission, neighbour swap, duplication, omission of the last 2, 3, n-1 parts, a foreign part / body / digest at every "
            "single position, every substitution of the first 8 body characters of the first part and the last 7 of the last part (thorough: first 40 and last 12 of both). "
            "Non-trivial = faulty sequence / foreign mix / substitution, deletion, insertion, swap in body or digest by a bech32 character / cut point / relabelling",
        ),
        Engine(
            "strict", gen_strict, run_strict, kind="E1",
            rule="component decoders, every byte-string length of the `cbor` engine (quick: 0..600, 65535, 65536, 70000), one seeded content. cbor_decode on: every standard head that can carry the length (preferred, "
            "0x58/0x59/0x5a/0x5b non-preferred) and the library's own head above 65535 bytes, each exact, with the last 1..8, L/2 and L bytes missing, cut inside the head, followed by "
            "00 / ff / 0000 / a repeated byte, announced as a text string, wrapped as an indefinite-length string; the empty buffer. bc32decode on: upper case, alternating case, last 1..8 "
            "characters missing, one of q p l appended / prepended, every non-zero value of the padding bits and one more data symbol (0, 1) under a recomputed checksum; length 0 also every "
            "string of 0..2 (thorough 0..3) characters. Oracle (soundness only): whenever the library returns bytes, the strict RFC 8949 / BCR-2020-004 reader of mc.ref.bcurref returns the "
            "same bytes; refusing is always allowed. Non-trivial = inputs on which the library returned bytes, and every string shorter than the checksum",
        ),
        Engine(
            "fn", gen_fn, run_fn, kind="E1",
            rule="bcur_encode / bcur_decode called directly, every length of the `cbor` engine (quick: 0..600, 65535, 65536, 70000) x 3 contents: bcur_encode == (reference bc32 text, reference bc32 SHA-256 text); "
            "bcur_decode(text, checksum), bcur_decode(text) and the keyword / checksum=None forms return the payload. For lengths 0..40 (thorough 0..200): every single-character substitution "
            "of the text (with the honest checksum and without a checksum) and of the checksum, text / checksum of a second payload of the same and of the next length: must be refused "
            "(None / exception); empty checksum: recorded, must not give other data; the text cut after k characters (k as in faults/cut1, crafted valid bc32 prefix) with and without "
            "checksum: must be refused. Non-trivial = every (length, content), every faulty call",
        ),
    ]
