"""C04 — transaction wire codec is lossless, txid is the witness-stripped hash, fetcher integrity.

E1 `codec`: base transactions x every deviation of a field alphabet (0/1 deviations quick, 2 thorough),
  byte-exact against the independent wire encoder in mc.ref.txref, both directions.
E2 `fetch`: explicit-state search over fetch histories with urlopen replaced by an enumerated server.
"""
import itertools
from io import BytesIO

from mc.core import Engine, Res, attempt, Rejected, filler, filler_int
from mc.ref import txref

PROP = "C04"


# ---------------------------------------------------------------- abstract tx <-> descriptor
def item_bytes(it):
    if isinstance(it, list):  # [n, b] : n bytes of value b
        return bytes([it[1]]) * it[0]
    return bytes.fromhex(it)


def items_to_cmds(items):
    """ints are opcode bytes, [n, b] / hex strings are pushed data, {"op": o, "n": k} is opcode o repeated k times."""
    out = []
    for it in items:
        if isinstance(it, dict):
            out += [it["op"]] * it["n"]
        elif isinstance(it, int):
            out.append(it)
        else:
            out.append(item_bytes(it))
    return out


def to_abstract(d):
    return {
        "version": d["v"],
        "locktime": d["lt"],
        "segwit": d["sw"],
        "ins": [
            {
                "prev": bytes.fromhex(i[0]),
                "index": i[1],
                "script": txref.script_from_items(items_to_cmds(i[2])),
                "seq": i[3],
                "witness": [item_bytes(w) for w in i[4]],
            }
            for i in d["ins"]
        ],
        "outs": [{"amount": o[0], "script": txref.script_from_items(items_to_cmds(o[1]))} for o in d["outs"]],
    }


H20 = "11" * 20
H32 = "22" * 32
TEMPLATES = {
    "p2pkh": [0x76, 0xA9, H20, 0x88, 0xAC],
    "p2sh": [0xA9, H20, 0x87],
    "p2wpkh": [0, H20],
    "p2wsh": [0, H32],
    "p2tr": [0x51, H32],
    "opreturn": [0x6A, "deadbeef"],
    "empty": [],
}


def base_legacy(seed):
    return {
        "v": 1,
        "lt": 0,
        "sw": False,
        "ins": [[filler(seed, "prev", 0).hex(), 0, ["30" + "ab" * 70 + "01", "02" + "cd" * 32], 0xFFFFFFFF, []]],
        "outs": [[50000, TEMPLATES["p2pkh"]]],
    }


def base_segwit(seed):
    return {
        "v": 2,
        "lt": 500000,
        "sw": True,
        "ins": [
            [filler(seed, "prev", 1).hex(), 1, [], 0xFFFFFFFE, ["30" + "ab" * 70 + "01", "03" + "cd" * 32]],
            [filler(seed, "prev", 2).hex(), 0, ["0014" + H20], 0xFFFFFFFF, []],
        ],
        "outs": [[123456789, TEMPLATES["p2wpkh"]], [1, TEMPLATES["p2tr"]]],
    }


PUSH_PAIR = [0, 1, 74, 75, 76, 255, 256, 520]
NOPS_LENS = [252, 253, 254, 65535, 65536, 70000]
OPCODES = [0] + list(range(79, 256))  # every non-push opcode byte


def script_alphabet(full):
    out = []
    if full:
        out += [(f"push{n}", [[n, 0x5A]]) for n in range(0, 521)]
        out += [(f"push{a}+push{b}", [[a, 0x5A], [b, 0xA5]]) for a in PUSH_PAIR for b in PUSH_PAIR]
        out += [(f"op{o}", [o]) for o in OPCODES]
        out += [("allops", OPCODES)]
        # two-command scripts <opcode> <push>: the shapes script classifiers look at (every opcode x hash-sized
        # pushes, every witness version x every program length 2..40)
        out += [(f"op{o}+push{n}", [o, [n, 0x3C]]) for o in OPCODES for n in (20, 32)]
        out += [(f"op{o}+push{n}", [o, [n, 0x3C]]) for o in [0] + list(range(0x51, 0x61)) for n in range(2, 41) if n not in (20, 32)]
        out += [(f"push{n}+op{o}", [[n, 0x3C], o]) for o in (0x87, 0x88, 0xAC, 0xAE) for n in (20, 32, 33)]
        # opcode-only scripts whose LENGTH crosses the 0xfd and 0xfe varint widths (no push involved)
        out += [(f"nops{n}", [{"op": 0x61, "n": n}]) for n in NOPS_LENS]
    else:
        out += [(f"push{n}", [[n, 0x5A]]) for n in (0, 1, 74, 75, 76, 77, 255, 256, 520)]
        out += [("op0", [0]), ("op255", [255]), ("op81+push75", [81, [75, 1]])]
    out += [(f"tmpl-{k}", v) for k, v in TEMPLATES.items()]
    # one-byte pushes whose value collides with small-number opcodes
    out += [(f"push1-val{v:02x}", [f"{v:02x}"]) for v in (0x00, 0x01, 0x10, 0x11, 0x4C, 0x4F, 0x81)]
    return out


def witness_alphabet(full):
    counts = [0, 1, 2, 252, 253] if full else [0, 1, 253]
    lens = [0, 1, 75, 252, 253, 65535, 65536, 70000] if full else [0, 75, 253, 65536]
    out = []
    for c in counts:
        if c == 0:
            out.append(("wit0", []))
            continue
        for ln in lens:
            if c >= 252 and ln > 253:
                continue
            out.append((f"wit{c}x{ln}", [[ln, 0x77]] * c))
    out.append(("wit-mixed", [[0, 0], [1, 1], [253, 2], [70000, 3]]))
    if full:
        # one stack holding every item length 0..599, the four-byte-length boundary next to empty items, and the
        # count boundary 252/253 with items above the 0xfd length boundary (excluded from the grid above)
        out.append(("wit-alllens0..599", [[n, n & 0xFF] for n in range(600)]))
        out.append(("wit-65535+65536+0+70000", [[65535, 1], [65536, 2], [0, 0], [70000, 3]]))
        out += [(f"wit{c}x{ln}", [[ln, 0x77]] * c) for c in (252, 253) for ln in (254, 1000)]
    return out


def field_alphabets(base, full):
    """list of (field, name, mutator)"""
    devs = []

    def setk(k, v):
        def f(d):
            d[k] = v

        return f

    for v in (0, 1, 2, 2**31, 2**32 - 1):
        devs.append(("v", f"v={v}", setk("v", v)))
    for v in (0, 1, 499999999, 500000000, 2**31, 2**32 - 1):
        devs.append(("lt", f"lt={v}", setk("lt", v)))
    nin, nout = len(base["ins"]), len(base["outs"])
    for i in range(nin):
        for v in (0, 1, 2**32 - 1):
            devs.append((f"in{i}.idx", f"in{i}.idx={v}", lambda d, i=i, v=v: d["ins"][i].__setitem__(1, v)))
        for v in (0, 1, 0xFFFF, 1 << 22, 1 << 31, 2**32 - 2, 2**32 - 1):
            devs.append((f"in{i}.seq", f"in{i}.seq={v}", lambda d, i=i, v=v: d["ins"][i].__setitem__(3, v)))
        for v in ("00" * 32, "ff" * 32, "01" + "00" * 31):
            devs.append((f"in{i}.prev", f"in{i}.prev={v[:4]}..", lambda d, i=i, v=v: d["ins"][i].__setitem__(0, v)))
        for nm, s in script_alphabet(full and i == 0):
            devs.append((f"in{i}.script", f"in{i}.script={nm}", lambda d, i=i, s=s: d["ins"][i].__setitem__(2, s)))
        if base["sw"]:
            for nm, w in witness_alphabet(full):
                devs.append((f"in{i}.wit", f"in{i}.wit={nm}", lambda d, i=i, w=w: d["ins"][i].__setitem__(4, w)))
    for o in range(nout):
        for v in (0, 1, 2**32 - 1, 2**32, 21 * 10**14, 2**63 - 1, 2**63, 2**64 - 1):
            devs.append((f"out{o}.amt", f"out{o}.amt={v}", lambda d, o=o, v=v: d["outs"][o].__setitem__(0, v)))
        for nm, s in script_alphabet(full and o == 0):
            devs.append((f"out{o}.script", f"out{o}.script={nm}", lambda d, o=o, s=s: d["outs"][o].__setitem__(1, s)))

    def set_nin(n):
        def f(d):
            proto = d["ins"][0]
            d["ins"] = [[f"{k:064x}", k % 7, proto[2] if k == 0 else [], 0xFFFFFFFF - k, proto[4] if k == 0 else []] for k in range(n)]

        return f

    def set_nout(n):
        def f(d):
            d["outs"] = [[k * 1000 + 1, TEMPLATES["p2wpkh"] if k % 2 else TEMPLATES["p2pkh"]] for k in range(n)]

        return f

    for n in list(range(0, 6)) + list(range(250, 257)) + [300]:
        devs.append(("nin", f"nin={n}", set_nin(n)))
        devs.append(("nout", f"nout={n}", set_nout(n)))
    if base["sw"] and full:

        def set_nin_varied(n):
            def f(d):
                d["ins"] = [[f"{k:064x}", k % 7, [], 0xFFFFFFFF - k, [[(k * 37) % 300, k & 0xFF]] * (1 + k % 4) + [[k % 3, 1]]] for k in range(n)]

            return f

        for n in (3, 253, 300):
            devs.append(("nin", f"nin={n}-varied-witness", set_nin_varied(n)))
    return devs


def gen_codec(tier, seed):
    import copy

    cases = []
    for bname, base in (("legacy", base_legacy(seed)), ("segwit", base_segwit(seed))):
        cases.append({"base": bname, "devs": [], "d": base})
        devs = field_alphabets(base, True)
        for fld, nm, mut in devs:
            d = copy.deepcopy(base)
            mut(d)
            cases.append({"base": bname, "devs": [nm], "d": d})
        if tier == "thorough":
            small = field_alphabets(base, False)
            for (f1, n1, m1), (f2, n2, m2) in itertools.combinations(small, 2):
                if f1 == f2:
                    continue
                # count changes rebuild the vectors, so apply them first
                order = [(f1, n1, m1), (f2, n2, m2)]
                order.sort(key=lambda t: 0 if t[0] in ("nin", "nout") else 1)
                d = copy.deepcopy(base)
                try:
                    for _, _, m in order:
                        m(d)
                except IndexError:
                    continue  # the second field no longer exists after a count change
                cases.append({"base": bname, "devs": [n1, n2], "d": d})
    return cases


def fields_of(tx):
    """Observe every field of a buidl Tx through its public attributes."""
    return {
        "version": tx.version,
        "locktime": int(tx.locktime),
        "segwit": bool(tx.segwit),
        "ins": [
            {
                "prev": bytes(i.prev_tx),
                "index": i.prev_index,
                "script": i.script_sig.raw_serialize(),
                "seq": int(i.sequence),
                "witness": [bytes(x) for x in i.witness.items],
            }
            for i in tx.tx_ins
        ],
        "outs": [{"amount": o.amount, "script": o.script_pubkey.raw_serialize()} for o in tx.tx_outs],
    }


def build_via_api(d):
    from buidl.script import Script
    from buidl.tx import Tx, TxIn, TxOut
    from buidl.witness import Witness

    ins = []
    for i in d["ins"]:
        ti = TxIn(bytes.fromhex(i[0]), i[1], Script(items_to_cmds(i[2])), i[3])
        if d["sw"]:
            ti.witness = Witness([item_bytes(w) for w in i[4]])
        ins.append(ti)
    outs = [TxOut(o[0], Script(items_to_cmds(o[1]))) for o in d["outs"]]
    return Tx(d["v"], ins, outs, d["lt"], network="mainnet", segwit=d["sw"])


def run_codec(case):
    from buidl.tx import Tx

    res = Res()
    d = case["d"]
    ab = to_abstract(d)
    devs = "+".join(case["devs"]) or "base"
    nt = (case["base"], devs) if case["devs"] else None
    vc = {"engine": "codec", "case": case}
    if ab["segwit"] and not any(i["witness"] for i in ab["ins"]):
        res.skip("segwit flag with all-empty witnesses (not a canonical encoding: superfluous witness record)")
        return res
    if any(o["amount"] >= 2**64 for o in ab["outs"]):
        res.skip("amount out of range")
        return res
    ref = txref.ser_tx(ab)
    rid = txref.txid(ab)
    assert not ab["ins"] or txref.ser_tx(txref.parse_tx(ref)) == ref
    # direction B: build through the API, serialise, compare, parse back
    tx = attempt(build_via_api, d)
    if isinstance(tx, Rejected):
        res.violation(f"C04/codec/build/{devs}", vc, repr(tx), "constructible", "API refuses to build the transaction")
        return res
    ser = attempt(tx.serialize)
    if ser != ref:
        res.violation(
            f"C04/codec/serialize/{devs}", vc, ser if isinstance(ser, Rejected) else ser.hex()[:200], ref.hex()[:200], "serialize() differs from the reference wire encoding"
        )
    else:
        res.ok("serialize==ref", nt, sample={"devs": case["devs"], "base": case["base"], "ref_len": len(ref)} if len(case["devs"]) == 1 else None)
    got_id = attempt(tx.id)
    if got_id != rid:
        res.violation(f"C04/codec/id/{devs}", vc, got_id, rid, "id() is not the reversed double-SHA256 of the stripped serialisation")
    else:
        res.ok("id==ref")
    if not ab["ins"]:
        res.skip("0 inputs: wire format ambiguous with the segwit marker; parse direction not asserted")
        return res
    # direction A: parse canonical bytes, compare every field, re-serialise
    ptx = attempt(Tx.parse, BytesIO(ref))
    if isinstance(ptx, Rejected):
        res.violation(f"C04/codec/parse/{devs}", vc, repr(ptx), "parses", "canonical bytes are rejected by Tx.parse")
        return res
    f = attempt(fields_of, ptx)
    if f != ab:
        res.violation(f"C04/codec/parse-fields/{devs}", vc, str(f)[:300], str(ab)[:300], "parsed fields differ from the encoded ones")
    else:
        res.ok("parse-fields==ref")
    ser2 = attempt(ptx.serialize)
    if ser2 != ref:
        res.violation(f"C04/codec/reserialize/{devs}", vc, ser2 if isinstance(ser2, Rejected) else ser2.hex()[:200], ref.hex()[:200], "parse->serialize does not reproduce the input bytes")
    else:
        res.ok("reserialize==ref")
    pid = attempt(ptx.id)
    if pid != rid:
        res.violation(f"C04/codec/parsed-id/{devs}", vc, pid, rid, "id() of parsed tx wrong")
    else:
        res.ok("parsed-id==ref")
    # stream discipline: the same bytes at a non-zero stream offset, followed by another transaction and a sentinel.
    # Tx.parse must consume exactly this transaction's bytes (short reads decode silently, so an over-read is
    # invisible when the buffer ends with the transaction) and leave the stream at the start of the next one.
    other = txref.ser_tx(to_abstract(base_segwit(0) if case["base"] == "legacy" else base_legacy(0)))
    s = BytesIO(b"\x99" * 7 + ref + other + b"\xee" * 5)
    s.read(7)
    t1 = attempt(Tx.parse, s)
    p1 = attempt(s.tell)
    t2 = attempt(Tx.parse, s)
    p2 = attempt(s.tell)
    if (p1, p2) != (7 + len(ref), 7 + len(ref) + len(other)):
        res.violation(f"C04/codec/stream/position", vc, [p1, p2], [7 + len(ref), 7 + len(ref) + len(other)], "Tx.parse does not consume exactly the bytes of the transaction (stream position after parsing two concatenated transactions at offset 7)")
    elif isinstance(t1, Rejected) or isinstance(t2, Rejected) or attempt(t1.serialize) != ref or attempt(t2.serialize) != other:
        res.violation(f"C04/codec/stream/content", vc, repr(t1)[:80], "both transactions re-serialise to their bytes", "transactions parsed back to back from one stream (offset 7) do not reproduce their bytes")
    else:
        res.ok("stream-position+concatenated")
    # id must ignore witness data and depend on everything else
    if ab["segwit"]:
        stripped = dict(ab, segwit=False)
        sid = attempt(lambda: Tx.parse(BytesIO(txref.ser_tx(stripped))).id())
        if sid != pid:
            res.violation(f"C04/codec/id-witness-dependent/{devs}", vc, sid, pid, "id changes when witness data is removed")
        else:
            res.ok("id-ignores-witness")
    return res


# ---------------------------------------------------------------- fetcher
def fetch_world(seed):
    """Two requested ids and the server's possible answers for each."""
    legacy = to_abstract(base_legacy(seed))
    seg = to_abstract(base_segwit(seed))
    nonmin = to_abstract(base_legacy(seed + 1))
    # honest historical-style tx whose scriptSig uses a non-minimal push (PUSHDATA1 for 5 bytes)
    nonmin["ins"][0]["script"] = b"\x4c\x05hello" + b"\x51"
    # ... and one whose output script is a P2PKH template with a PUSHDATA1-encoded hash
    nonmin_out = to_abstract(base_legacy(seed + 2))
    nonmin_out["outs"][0]["script"] = b"\x76\xa9\x4c\x14" + b"\x11" * 20 + b"\x88\xac"
    seg_altwit = {**seg, "ins": [dict(i) for i in seg["ins"]]}
    seg_altwit["ins"][0]["witness"] = [b"\x01\x02", b"\x03"]
    return {"legacy": legacy, "segwit": seg, "nonmin": nonmin, "nonmin_out": nonmin_out, "seg_altwit": seg_altwit}


def ser_tx_overlong(tx, which, width):
    """Reference wire bytes of `tx` with its `which`-th compact size (wire order) written over-long with the marker
    byte `width` ("fd" | "fe" | "ff"). Returns (bytes or None when that width is not over-long for the value,
    number of compact sizes in the transaction)."""
    import struct

    ctr = [0]
    hit = [False]

    def cs(n):
        i = ctr[0]
        ctr[0] += 1
        if i != which:
            return txref.compact(n)
        fmt, limit = {"fd": ("<H", 0xFD), "fe": ("<I", 0x10000), "ff": ("<Q", 0x100000000)}[width]
        if n >= limit:
            return txref.compact(n)  # this width would be minimal (or too narrow): not an over-long encoding
        hit[0] = True
        return bytes.fromhex(width) + struct.pack(fmt, n)

    def vb(b):
        return cs(len(b)) + b

    out = struct.pack("<I", tx["version"]) + (b"\x00\x01" if tx.get("segwit") else b"")
    out += cs(len(tx["ins"]))
    for i in tx["ins"]:
        out += i["prev"][::-1] + struct.pack("<I", i["index"]) + vb(i["script"]) + struct.pack("<I", i["seq"])
    out += cs(len(tx["outs"]))
    for o in tx["outs"]:
        out += struct.pack("<Q", o["amount"]) + vb(o["script"])
    if tx.get("segwit"):
        for i in tx["ins"]:
            out += cs(len(i["witness"])) + b"".join(vb(x) for x in i["witness"])
    out += struct.pack("<I", tx["locktime"])
    return (out if hit[0] else None), ctr[0]


def response_bytes(world, rid_name, kind):
    w = world
    honest = txref.ser_tx(w[rid_name])
    if kind == "ws":  # hex text with blanks between the bytes (bytes.fromhex tolerates it)
        return " ".join(f"{b:02x}" for b in honest).encode()
    if kind.startswith("trunc:"):  # the last k bytes are missing
        return honest[: len(honest) - int(kind.split(":")[1])].hex().encode()
    if kind.startswith("overlong:"):  # one compact size written with a longer width than necessary
        _, which, width = kind.split(":")
        b, _n = ser_tx_overlong(w[rid_name], int(which), width)
        return (b if b is not None else honest).hex().encode()
    if kind == "trailing-resp":  # same bytes as "trailing"; separate name for the response-digest requests
        return (honest + b"\x00\x01\x02").hex().encode()
    if kind == "honest":
        return honest.hex().encode()
    if kind == "honest-nl":
        return honest.hex().encode() + b"\n"
    if kind == "honest-upper":
        return honest.hex().upper().encode()
    if kind == "other":
        other = "segwit" if rid_name != "segwit" else "legacy"
        return txref.ser_tx(w[other]).hex().encode()
    if kind == "altwit":
        if rid_name == "segwit":
            return txref.ser_tx(w["seg_altwit"]).hex().encode()
        return honest.hex().encode()
    if kind == "stripped":
        return txref.ser_stripped(w[rid_name]).hex().encode()
    if kind == "trailing":
        return (honest + b"\x00\x01\x02").hex().encode()
    if kind == "nonhex":
        return b"<html>error</html>"
    if kind == "empty":
        return b""
    if kind.startswith("mut:"):
        _, pos, x = kind.split(":")
        b = bytearray(honest)
        b[int(pos)] ^= int(x)
        return bytes(b).hex().encode()
    raise ValueError(kind)


def requested_id(world, rid_name, how, resp=None):
    """The id asked for: the transaction's txid, or (how != "") another digest of the bytes the honest server
    returns for it — a caller may ask for anything, the fetcher must never hand back a Tx with a different id().
    how = "resp-dsha-rev" / "resp-dsha": the double-SHA256 (display order / raw order) of the bytes the server
    actually answers with (`resp`, the hex text), whatever they are."""
    import hashlib

    t = world[rid_name]
    full, stripped = txref.ser_tx(t), txref.ser_stripped(t)
    d = lambda b: hashlib.sha256(hashlib.sha256(b).digest()).digest()
    if how == "":
        return txref.txid(t)
    if how.startswith("resp-"):
        try:
            raw = bytes.fromhex(resp.decode().strip())
        except ValueError:
            return txref.txid(t)
        return d(raw)[::-1].hex() if how == "resp-dsha-rev" else d(raw).hex()
    return {
        "wtxid": d(full)[::-1].hex(),
        "wtxid-unreversed": d(full).hex(),
        "txid-unreversed": d(stripped).hex(),
        "sha256-once": hashlib.sha256(stripped).digest()[::-1].hex(),
        "sha256-once-full": hashlib.sha256(full).digest()[::-1].hex(),
        "hash-of-hex-text": d(full.hex().encode())[::-1].hex(),
        "upper": txref.txid(t).upper(),
    }[how]


RID_VARIANTS = ["wtxid", "wtxid-unreversed", "txid-unreversed", "sha256-once", "sha256-once-full", "hash-of-hex-text", "upper"]


class _Resp:
    def __init__(self, b):
        self.b = b

    def read(self):
        return self.b


def do_fetch_history(world, hist):
    """Replay a history of fetches on a fresh cache; returns list of observations."""
    import buidl.tx as btx

    btx.TxFetcher.cache = {}
    obs = []
    cur = {}

    def fake_urlopen(req, *a, **k):
        return _Resp(cur["resp"])

    old = btx.urlopen
    btx.urlopen = fake_urlopen
    try:
        for rid_name, kind, fresh in hist:
            rid_name, _, how = rid_name.partition("@")
            cur["resp"] = response_bytes(world, rid_name, kind)
            rid = requested_id(world, rid_name, how, cur["resp"])
            r = attempt(btx.TxFetcher.fetch, rid, "mainnet", fresh)
            if isinstance(r, Rejected):
                obs.append(("raised", r.how))
            else:
                got = attempt(r.id)
                obs.append(("returned", got, rid.lower()))
    finally:
        btx.urlopen = old
        btx.TxFetcher.cache = {}
    return obs


def gen_fetch(tier, seed):
    world = fetch_world(seed)
    cases = []
    xs = (1, 0x80, 0xFF) if tier == "quick" else tuple(range(1, 256))
    for rid_name in ("legacy", "segwit", "nonmin", "nonmin_out"):
        n = len(txref.ser_tx(world[rid_name]))
        kinds = ["honest", "honest-nl", "honest-upper", "other", "altwit", "stripped", "trailing", "nonhex", "empty"]
        kinds += [f"mut:{p}:{x}" for p in range(n) for x in xs]
        for k in kinds:
            cases.append({"hist": [[rid_name, k, False]]})
        # the caller asks for some other digest of the very bytes the server answers with
        for how in RID_VARIANTS:
            for k in ("honest", "honest-nl", "stripped", "altwit"):
                cases.append({"hist": [[f"{rid_name}@{how}", k, False]]})
                cases.append({"hist": [[rid_name, "honest", False], [f"{rid_name}@{how}", k, False]]})
        # answers that are NOT the canonical encoding of what they parse to (trailing bytes, every truncation of the
        # tail, every compact size written over-long with every longer width, blanks in the hex text), requested by
        # the true txid and by the double-SHA256 of exactly those answer bytes (both byte orders)
        ncs = ser_tx_overlong(world[rid_name], -1, "fd")[1]
        odd = ["trailing-resp", "ws", "honest", "stripped"] + [f"trunc:{k}" for k in range(1, n)]
        odd += [f"overlong:{i}:{wd}" for i in range(ncs) for wd in ("fd", "fe", "ff") if ser_tx_overlong(world[rid_name], i, wd)[0] is not None]
        for k in odd:
            for how in ("", "resp-dsha-rev", "resp-dsha"):
                who = f"{rid_name}@{how}" if how else rid_name
                if how or k not in ("honest", "stripped"):
                    cases.append({"hist": [[who, k, False]]})
        for k in ("trailing-resp", "trunc:1", "trunc:4", "overlong:0:fd", "overlong:1:ff"):
            for fresh in (False, True):
                cases.append({"hist": [[rid_name, "honest", False], [f"{rid_name}@resp-dsha-rev", k, fresh]]})
                cases.append({"hist": [[f"{rid_name}@resp-dsha-rev", k, fresh], [rid_name, "honest", False]]})
    # histories of depth 2..3 over a small alphabet, on one shared cache
    small = [(r, k, f) for r in ("legacy", "segwit", "nonmin") for k in ("honest", "other", "mut:5:1", "altwit") for f in (False, True)]
    depth = 3
    for dl in range(2, depth + 1):
        for h in itertools.product(small, repeat=dl):
            if tier == "quick" and dl == 3 and len({x[0] for x in h}) > 2:
                continue
            cases.append({"hist": [list(x) for x in h]})
    return cases


def run_fetch(case):
    res = Res()
    seed = case.get("seed", 0)
    world = fetch_world(seed)
    hist = case["hist"]
    obs = do_fetch_history(world, hist)
    res.states += len(hist)
    res.transitions += len(hist)
    lying = any(k not in ("honest", "honest-nl", "honest-upper") or "@" in r for r, k, _ in hist)
    bad = None
    for step, o in enumerate(obs):
        if o[0] == "returned" and o[1] != o[2]:
            bad = (step, o)
            break
    if bad:
        step, o = bad
        rid_name, kind, fresh = hist[step]
        rid_name, _, how = rid_name.partition("@")
        honest = response_bytes(world, rid_name, kind).strip().lower() == response_bytes(world, rid_name, "honest")
        cls = f"resp-digest/{kind.split(':')[0]}" if how.startswith("resp-") else f"{rid_name}/asked-for-{how}" if how and how != "upper" else f"{rid_name}-honest" if honest else f"{rid_name}/{kind.split(':')[0]}"
        res.violation(
            f"C04/fetch/{cls}",
            {"engine": "fetch", "case": case},
            {"returned_id": o[1], "history": hist[: step + 1]},
            {"requested_id": o[2]},
            "TxFetcher.fetch returned a Tx whose id() differs from the requested id",
        )
    else:
        accepted = sum(1 for o in obs if o[0] == "returned")
        res.ok(f"fetch-ok(accepted={accepted>0})", nontrivial=repr(hist) if lying else None, sample={"hist": hist, "obs": obs} if len(hist) == 2 else None)
        # completeness: an honest canonical answer on a fresh cache must be accepted
        if len(hist) == 1 and hist[0][1] in ("honest", "honest-nl") and not hist[0][0].startswith("nonmin") and "@" not in hist[0][0] and obs[0][0] != "returned":
            res.violation(f"C04/fetch/honest-rejected/{hist[0][0]}", {"engine": "fetch", "case": case}, obs, "returned", "honest answer rejected")
    return res


# ---------------------------------------------------------------- id / serialisation over edit histories (E2)
H_QUERIES = ["id", "hash", "serialize", "repr"]
H_EDITS = ["locktime", "in0.seq", "in0.index", "in0.scriptsig", "out0.amount", "append-out", "pop-out", "version", "in0.witness", "in1.witness"]


def h_apply_abstract(ab, e):
    if e == "locktime":
        ab["locktime"] ^= 0x20
    elif e == "in0.seq":
        ab["ins"][0]["seq"] ^= 1
    elif e == "in0.index":
        ab["ins"][0]["index"] ^= 2
    elif e == "in0.scriptsig":
        ab["ins"][0]["script"] = txref.script_from_items([b"\x30\x06sig", b"\x02key"]) if not ab["ins"][0]["script"] else b""
    elif e == "out0.amount":
        ab["outs"][0]["amount"] ^= 0x400
    elif e == "append-out":
        ab["outs"].append({"amount": 4321, "script": b"\x51"})
    elif e == "pop-out":
        if len(ab["outs"]) > 1:
            ab["outs"].pop()
    elif e == "version":
        ab["version"] ^= 3
    elif e == "in0.witness":
        ab["ins"][0]["witness"] = [b"\x01\x02"] if ab["ins"][0]["witness"] != [b"\x01\x02"] else [b"\x03"]
    elif e == "in1.witness":
        ab["ins"][1]["witness"] = [b"\x09"] if not ab["ins"][1]["witness"] else []


def h_apply_lib(tx, e):
    from buidl.script import Script
    from buidl.timelock import Locktime, Sequence
    from buidl.tx import TxOut
    from buidl.witness import Witness

    if e == "locktime":
        tx.locktime = Locktime(int(tx.locktime) ^ 0x20)
    elif e == "in0.seq":
        tx.tx_ins[0].sequence = Sequence(int(tx.tx_ins[0].sequence) ^ 1)
    elif e == "in0.index":
        tx.tx_ins[0].prev_index ^= 2
    elif e == "in0.scriptsig":
        if not tx.tx_ins[0].script_sig.commands:
            tx.tx_ins[0].finalize_p2pkh(b"\x30\x06sig", b"\x02key")
        else:
            tx.tx_ins[0].script_sig = Script()
    elif e == "out0.amount":
        tx.tx_outs[0].amount ^= 0x400
    elif e == "append-out":
        tx.tx_outs.append(TxOut(4321, Script([0x51])))
    elif e == "pop-out":
        if len(tx.tx_outs) > 1:
            tx.tx_outs.pop()
    elif e == "version":
        tx.version ^= 3
    elif e == "in0.witness":
        tx.tx_ins[0].witness = Witness([b"\x01\x02"]) if tx.tx_ins[0].witness.items != [b"\x01\x02"] else Witness([b"\x03"])
    elif e == "in1.witness":
        tx.tx_ins[1].witness = Witness([b"\x09"]) if not tx.tx_ins[1].witness.items else Witness([])


def gen_idhist(tier, seed):
    depth = 3 if tier == "quick" else 4
    events = [["q", q] for q in H_QUERIES] + [["e", e] for e in H_EDITS]
    cases = []
    for sw in (False, True):
        for first in events:
            for second in events:
                cases.append({"segwit": sw, "prefix": [first, second], "depth": depth})
    return cases


def run_idhist(case):
    import copy

    res = Res()
    events = [["q", q] for q in H_QUERIES] + [["e", e] for e in H_EDITS]
    base = base_segwit(0)
    if not case["segwit"]:
        base = dict(base, sw=False)
        base["ins"] = [i[:4] + [[]] for i in base["ins"]]
    depth = case["depth"]
    tails = [[]]
    for _ in range(depth - len(case["prefix"])):
        tails = [t + [ev] for t in tails for ev in events] + [[]] if False else [t + [ev] for t in tails for ev in events]
    hists = [case["prefix"] + t for t in tails] if depth > len(case["prefix"]) else [case["prefix"]]
    if case.get("replay"):
        hists = [case["replay"]]
    for hist in hists:
        if not case["segwit"] and any(ev[1] in ("in0.witness", "in1.witness") for ev in hist):
            res.skip("witness edits on a legacy-flagged transaction")
            continue
        ab = to_abstract(copy.deepcopy(base))
        tx = build_via_api(copy.deepcopy(base))
        ok = True
        for step, (kind, what) in enumerate(hist):
            res.transitions += 1
            if kind == "e":
                h_apply_abstract(ab, what)
                h_apply_lib(tx, what)
                continue
            if ab["segwit"] and not any(i["witness"] for i in ab["ins"]):
                ref_ser = None  # not a canonical encoding (all witnesses empty): serialisation not asserted
            else:
                ref_ser = txref.ser_tx(ab)
            exp = {"id": txref.txid(ab), "hash": bytes.fromhex(txref.txid(ab)), "serialize": ref_ser, "repr": None}[what]
            got = attempt(getattr(tx, what if what != "repr" else "__repr__"))
            if what == "repr" or exp is None:
                continue
            if got != exp:
                stale = any(k == "e" for k, _ in hist[:step]) and any(k == "q" for k, _ in hist[:step])
                res.violation(
                    f"C04/idhist/{what}/{'stale-after-edit' if stale else 'wrong'}",
                    {"engine": "idhist", "case": dict({k: v for k, v in case.items() if k != "replay"}, replay=hist[: step + 1])},
                    got if not isinstance(got, bytes) else got.hex()[:120],
                    exp if not isinstance(exp, bytes) else exp.hex()[:120],
                    f"{what}() after history {hist[:step]} is not the value for the current transaction content",
                )
                ok = False
                break
        if ok:
            res.states += 1
            res.ok("history consistent", nontrivial=repr(hist) if any(k == "e" for k, _ in hist) and hist[-1][0] == "q" else None, sample={"history": hist} if len(hist) == 3 and hist[0][0] == "q" and hist[1][0] == "e" and hist[2][0] == "q" else None)
    return res


# ---------------------------------------------------------------- script command sequences (E1)
SEQ_OPS = [0, 0x4F, 0x51, 0x60, 0x61, 0x6A, 0x76, 0x87, 0x88, 0xA9, 0xAC, 0xAE, 0xB1, 0xBA, 0xFF]
SEQ_PUSH = [[n, 0x5A] for n in (1, 2, 20, 32, 33, 75, 76, 255, 256, 520)] + ["00", "01", "10", "81", "4c", "4d", "4e"]
SEQ_ALPHA = SEQ_OPS + SEQ_PUSH  # 32 commands: opcodes (incl. OP_0, OP_1NEGATE, OP_1, OP_16, 0xff) and minimal pushes
KIND_RANK = ["op", "push1-75", "push76-255", "push256-520"]
SEQ_PLACES = ["in0+out1", "in1+out0"]


def item_kind(it):
    if isinstance(it, int):
        return "op"
    n = len(item_bytes(it))
    return "push1-75" if n <= 75 else "push76-255" if n <= 255 else "push256-520"


def seq_class(items):
    """coarse class of a command sequence: its widest push encoding"""
    return max((item_kind(i) for i in items), key=KIND_RANK.index)


def gen_scriptseq(tier, seed):
    return [{"first": i, "place": p, "maxlen": 3} for i in range(len(SEQ_ALPHA)) for p in SEQ_PLACES]


def seq_descriptor(place, items):
    import copy

    d = copy.deepcopy(base_segwit(0))
    if place == "in0+out1":
        d["ins"][0][2] = items
        d["outs"][1][1] = items
    else:
        d["ins"][1][2] = items
        d["outs"][0][1] = items
    return d


def codec_compare(d, ab):
    """None when build/serialize/id/parse/fields/reserialize/parsed-id/position all equal the reference, else
    (check name, observed, expected)."""
    from buidl.tx import Tx

    ref, rid = txref.ser_tx(ab), txref.txid(ab)
    if d is not None:
        tx = attempt(build_via_api, d)
        if isinstance(tx, Rejected):
            return ("build", repr(tx), "constructible")
        if attempt(tx.serialize) != ref:
            return ("serialize", repr(attempt(tx.serialize))[:160], ref.hex()[:160])
        if attempt(tx.id) != rid:
            return ("id", attempt(tx.id), rid)
    s = BytesIO(ref + b"\xee" * 9)
    ptx = attempt(Tx.parse, s)
    if isinstance(ptx, Rejected):
        return ("parse", repr(ptx), "parses")
    if attempt(fields_of, ptx) != ab:
        return ("parse-fields", str(attempt(fields_of, ptx))[:200], str(ab)[:200])
    if attempt(ptx.serialize) != ref:
        return ("reserialize", repr(attempt(ptx.serialize))[:160], ref.hex()[:160])
    if attempt(ptx.id) != rid:
        return ("parsed-id", attempt(ptx.id), rid)
    if s.tell() != len(ref):
        return ("position", s.tell(), len(ref))
    return None


def run_scriptseq(case):
    res = Res()
    first = SEQ_ALPHA[case["first"]]
    tails = [()]
    for L in range(1, case["maxlen"]):
        tails += list(itertools.product(SEQ_ALPHA, repeat=L))
    if case.get("replay") is not None:
        tails = [tuple(case["replay"])]
    # control: the same transaction with EMPTY scripts in those places; a failure here has nothing to do with the
    # sequence alphabet and gets one fingerprint instead of one per script class
    d0 = seq_descriptor(case["place"], [])
    bad = codec_compare(d0, to_abstract(d0))
    if bad:
        res.violation(f"C04/scriptseq/{bad[0]}/independent-of-script", {"engine": "scriptseq", "case": dict(case, replay=None)}, bad[1], bad[2], f"control transaction (empty scripts at {case['place']}): {bad[0]} differs from the reference wire codec")
        return res
    n_ok = 0
    for tail in tails:
        items = [first] + list(tail)
        d = seq_descriptor(case["place"], items)
        bad = codec_compare(d, to_abstract(d))
        if bad:
            vc = {"engine": "scriptseq", "case": dict({k: v for k, v in case.items() if k != "replay"}, replay=list(tail))}
            res.violation(f"C04/scriptseq/{bad[0]}/{seq_class(items)}", vc, bad[1], bad[2], f"script {items} at {case['place']}: {bad[0]} differs from the reference wire codec")
        else:
            n_ok += 1
    res.bulk("sequence: build/serialize/id/parse/fields/reserialize/position==ref", n_ok, n_ok)
    return res


# ---------------------------------------------------------------- arbitrary script bytes inside a canonical transaction (E1)
RAW_WHERE = ["coinbase-in", "out", "segwit-in"]
RAW_PUSH_FIRST = [1, 2, 3, 4, 5, 0x4B, 0x4C, 0x4D, 0x4E]


def raw_shape(raw):
    """Class of a script byte string by an independent tokenizer: truncated (a push runs past the end) > oversize (push
    of more than 520 bytes) > nonminimal (PUSHDATA with a length a shorter form could carry) > canonical."""
    i, n = 0, len(raw)
    nonmin = oversize = False
    while i < n:
        b = raw[i]
        i += 1
        if 1 <= b <= 75:
            ln = b
        elif b in (76, 77, 78):
            w = {76: 1, 77: 2, 78: 4}[b]
            if i + w > n:
                return "truncated"
            ln = int.from_bytes(raw[i : i + w], "little")
            i += w
            if (b == 76 and ln < 76) or (b == 77 and ln < 256) or (b == 78 and ln < 65536):
                nonmin = True
        else:
            continue
        if i + ln > n:
            return "truncated"
        if ln > 520:
            oversize = True
        i += ln
    return "oversize" if oversize else "nonminimal" if nonmin else "canonical"


def raw_scripts(case, tier):
    a = case["first"]
    if a == "templates":
        h20, h32 = b"\x11" * 20, b"\x22" * 32
        for pfx, body, sfx in ((b"\x76\xa9", h20, b"\x88\xac"), (b"\xa9", h20, b"\x87"), (b"\x00", h20, b""), (b"\x00", h32, b""), (b"\x51", h32, b"")):
            L = len(body)
            for enc in (bytes([L]), b"\x4c" + bytes([L]), b"\x4d" + L.to_bytes(2, "little"), b"\x4e" + L.to_bytes(4, "little")):
                yield pfx + enc + body + sfx
                yield pfx + enc + body[:-1] + sfx  # one byte short: the following opcode is swallowed / push truncated
        for n in (521, 522, 65535, 65536):  # pushes above the 520-byte element limit (legal on the wire)
            yield txref.push(b"\x5a" * n)
            yield b"\x51" + txref.push(b"\x5a" * n) + b"\x51"
        return
    yield bytes([a])
    for b in range(256):
        yield bytes([a, b])
    if a in RAW_PUSH_FIRST:
        for t in itertools.product((0, 1, 2, 3, 0x4C, 0xFF), repeat=3):
            yield bytes([a]) + bytes(t)
        for t in itertools.product((0, 1, 2, 0xFF), repeat=5):
            yield bytes([a]) + bytes(t)
    if tier == "thorough" and 1 <= a <= 78:
        for b in range(256):
            for c in range(256):
                yield bytes([a, b, c])


def gen_rawscript(tier, seed):
    cases = [{"first": a, "where": w, "tier": tier} for a in range(256) for w in RAW_WHERE]
    cases += [{"first": "templates", "where": w, "tier": tier} for w in RAW_WHERE]
    return cases


def raw_tx(where, raw):
    if where == "coinbase-in":
        return {"version": 1, "locktime": 0, "segwit": False, "ins": [{"prev": b"\x00" * 32, "index": 0xFFFFFFFF, "script": raw, "seq": 0xFFFFFFFF, "witness": []}], "outs": [{"amount": 5000000000, "script": b"\x51"}]}
    if where == "out":
        return {"version": 2, "locktime": 3, "segwit": False, "ins": [{"prev": b"\x37" * 32, "index": 1, "script": b"\x51", "seq": 0xFFFFFFFE, "witness": []}], "outs": [{"amount": 546, "script": raw}, {"amount": 1, "script": b"\x6a"}]}
    return {
        "version": 2, "locktime": 0, "segwit": True,
        "ins": [{"prev": b"\x38" * 32, "index": 0, "script": b"", "seq": 0xFFFFFFFF, "witness": [b"\x01"]}, {"prev": b"\x39" * 32, "index": 2, "script": raw, "seq": 0, "witness": [b"", b"\x02\x03"]}],
        "outs": [{"amount": 7, "script": b"\x00\x14" + b"\x11" * 20}],
    }  # fmt: skip


def run_rawscript(case):
    res = Res()
    scripts = [bytes.fromhex(case["replay"])] if case.get("replay") is not None else raw_scripts(case, case.get("tier", "quick"))
    # control: the same transaction with the one-opcode script 0x51 in that place (see run_scriptseq)
    ab0 = raw_tx(case["where"], b"\x51")
    bad = codec_compare(None, ab0)
    if bad:
        res.violation(f"C04/rawscript/{bad[0]}/independent-of-script", {"engine": "rawscript", "case": dict({k: v for k, v in case.items() if k != "replay"}, replay="51")}, bad[1], bad[2], f"control transaction ({case['where']} script 0x51): {bad[0]} differs")
        return res
    n_ok = n_nt = 0
    for raw in scripts:
        ab = raw_tx(case["where"], raw)
        shape = raw_shape(raw)
        bad = codec_compare(None, ab)
        if bad:
            vc = {"engine": "rawscript", "case": dict({k: v for k, v in case.items() if k != "replay"}, replay=raw.hex())}
            res.violation(f"C04/rawscript/{bad[0]}/{shape}", vc, bad[1], bad[2], f"canonically encoded transaction whose {case['where']} script is the {shape} byte string {raw.hex()[:60]}: {bad[0]} differs")
        else:
            n_ok += 1
            n_nt += shape != "canonical"
    res.bulk("raw script: parse/fields/reserialize/id/position==ref", n_ok, n_ok)
    res.notes["raw_scripts_not_canonical"] = n_nt
    return res


# ---------------------------------------------------------------- compact-size helpers directly (E1)
VARINT_EDGES = [0xFC, 0xFD, 0xFFFF, 0x10000, 2**24, 2**31, 2**32 - 1, 2**32, 2**33, 2**48, 2**56, 2**63, 2**64 - 1]


def width_of(v):
    return "1" if v < 0xFD else "fd" if v <= 0xFFFF else "fe" if v <= 0xFFFFFFFF else "ff" if v < 2**64 else "overflow"


def gen_varint(tier, seed):
    cases = [{"range": [lo, min(lo + 2048, 0x10200)]} for lo in range(0, 0x10200, 2048)]
    vals = sorted({e + dlt for e in VARINT_EDGES for dlt in (-2, -1, 0, 1, 2) if 0 <= e + dlt < 2**64})
    cases.append({"values": [str(v) for v in vals]})
    cases.append({"values": [str(filler_int(seed, "varint", i, 1 << (8 * k), (1 << (8 * k + 8)) - 1)) for k in range(1, 8) for i in range(4)]})
    cases.append({"overflow": [str(2**64), str(2**64 + 1), str(2**72)]})
    cases.append({"varstr": list(range(0, 601)) + [0xFFFF, 0x10000, 70000]})
    return cases


def run_varint(case):
    from buidl.helper import encode_varint, encode_varstr, read_varint, read_varstr

    res = Res()
    vc = {"engine": "varint", "case": case}
    if "overflow" in case:
        for v in map(int, case["overflow"]):
            e = attempt(encode_varint, v)
            if not isinstance(e, Rejected):
                res.violation("C04/varint/encode/overflow", vc, repr(e), "rejected", f"encode_varint({v}) returns bytes although no compact size can carry the value")
            else:
                res.ok("overflow rejected", ("ovf", v))
        return res
    if "varstr" in case:
        for n in case["varstr"]:
            b = bytes([n & 0xFF]) * n
            e = attempt(encode_varstr, b)
            s = BytesIO(b"\x99" * 3 + txref.varbytes(b) + b"\xee\xee")
            s.read(3)
            back = attempt(read_varstr, s)
            if e != txref.varbytes(b):
                res.violation(f"C04/varint/varstr-encode/{width_of(n)}", vc, repr(e)[:80], txref.varbytes(b)[:12].hex(), f"encode_varstr of {n} bytes")
            elif back != b or s.tell() != 3 + len(txref.varbytes(b)):
                res.violation(f"C04/varint/varstr-decode/{width_of(n)}", vc, [repr(back)[:60], s.tell()], [n, 3 + len(txref.varbytes(b))], f"read_varstr of {n} bytes (value / stream position)")
            else:
                res.ok("varstr==ref", ("vs", n))
        return res
    vals = range(*case["range"]) if "range" in case else [int(v) for v in case["values"]]
    n_ok = 0
    for v in vals:
        ref = txref.compact(v)
        e = attempt(encode_varint, v)
        if e != ref:
            res.violation(f"C04/varint/encode/{width_of(v)}", vc, repr(e), ref.hex(), f"encode_varint({v})")
            continue
        s = BytesIO(b"\x99" * 2 + ref + b"\x01\x02\x03\x04\x05\x06\x07\x08\x09")
        s.read(2)
        back = attempt(read_varint, s)
        if back != v:
            res.violation(f"C04/varint/decode/{width_of(v)}", vc, repr(back), v, f"read_varint of the canonical encoding of {v}")
        elif s.tell() != 2 + len(ref):
            res.violation(f"C04/varint/position/{width_of(v)}", vc, s.tell(), 2 + len(ref), f"read_varint({ref.hex()}) leaves the stream at the wrong position")
        else:
            n_ok += 1
    res.bulk("varint encode/decode/position==ref", n_ok, n_ok)
    return res


# ---------------------------------------------------------------- alternative entry points (E1)
def gen_entry(tier, seed):
    import copy

    cases = []
    for bname, base in (("legacy", base_legacy(seed)), ("segwit", base_segwit(seed))):
        cases.append({"base": bname, "devs": [], "d": base})
        for fld, nm, mut in field_alphabets(base, False):
            d = copy.deepcopy(base)
            mut(d)
            cases.append({"base": bname, "devs": [nm], "d": d})
    # everything at its documented constructor default
    cases.append({"base": "defaults", "devs": ["all-defaults"], "d": {"v": 1, "lt": 0, "sw": False, "ins": [["ab" * 32, 0, [], 0xFFFFFFFF, []], ["cd" * 32, 7, [], 0xFFFFFFFF, []]], "outs": [[1, TEMPLATES["p2tr"]]]}})
    return cases


def build_with_defaults(d):
    """Like build_via_api but every argument whose value is the documented default is omitted, scripts that are
    standard templates are given as the library's template classes, and the transaction is assembled from parts."""
    from buidl.script import P2PKHScriptPubKey, P2SHScriptPubKey, P2TRScriptPubKey, P2WPKHScriptPubKey, P2WSHScriptPubKey, Script
    from buidl.tx import Tx, TxIn, TxOut
    from buidl.witness import Witness

    klass = {"p2pkh": (P2PKHScriptPubKey, 2), "p2sh": (P2SHScriptPubKey, 1), "p2wpkh": (P2WPKHScriptPubKey, 1), "p2wsh": (P2WSHScriptPubKey, 1), "p2tr": (P2TRScriptPubKey, 1)}
    ins = []
    for i in d["ins"]:
        args = [bytes.fromhex(i[0]), i[1]]
        if i[2] or i[3] != 0xFFFFFFFF:
            args.append(Script(items_to_cmds(i[2])) if i[2] else None)
        if i[3] != 0xFFFFFFFF:
            args.append(i[3])
        ti = TxIn(*args)
        if d["sw"] and i[4]:
            ti.witness = Witness([item_bytes(w) for w in i[4]])
        ins.append(ti)
    outs = []
    for o in d["outs"]:
        spk = None
        for k, (cls, pos) in klass.items():
            if o[1] == TEMPLATES[k]:
                spk = cls(bytes.fromhex(TEMPLATES[k][pos]))
        outs.append(TxOut(o[0], spk if spk is not None else Script(items_to_cmds(o[1]))))
    kw = {}
    if d["lt"] != 0:
        kw["locktime"] = d["lt"]
    if d["sw"]:
        kw["segwit"] = True
    return Tx(d["v"], ins, outs, **kw)


def run_entry(case):
    from buidl.script import Script
    from buidl.tx import Tx, TxIn, TxOut
    from buidl.witness import Witness
    from mc.ref import addrref

    res = Res()
    d = case["d"]
    ab = to_abstract(d)
    vc = {"engine": "entry", "case": case}
    nt = (case["base"], "+".join(case["devs"]))
    if (ab["segwit"] and not any(i["witness"] for i in ab["ins"])) or any(o["amount"] >= 2**64 for o in ab["outs"]):
        res.skip("not a canonical encoding / amount out of range (as in codec)")
        return res
    ref, rid, stripped = txref.ser_tx(ab), txref.txid(ab), txref.ser_stripped(ab)

    def check(name, got, exp, what):
        if got != exp:
            res.violation(f"C04/entry/{name}", vc, repr(got)[:200] if not isinstance(got, bytes) else got.hex()[:200], repr(exp)[:200] if not isinstance(exp, bytes) else exp.hex()[:200], what)
        else:
            res.ok(name, nt + (name,))

    tx = attempt(build_via_api, d)
    if isinstance(tx, Rejected):
        res.violation("C04/entry/build", vc, repr(tx), "constructible", "API refuses to build the transaction")
        return res
    # serialize_legacy / serialize_segwit / serialize_witness called directly, whatever the flag says
    check("serialize_legacy", attempt(tx.serialize_legacy), stripped, "serialize_legacy() is not the witness-stripped wire form")
    wit_ref = b"".join(txref.ser_witness(i["witness"]) for i in ab["ins"])
    if ab["segwit"]:
        check("serialize_segwit", attempt(tx.serialize_segwit), ref, "serialize_segwit() is not the BIP144 wire form")
        check("serialize_witness", attempt(tx.serialize_witness), wit_ref, "serialize_witness() is not the concatenation of the witness stacks")
    # constructor defaults, template classes
    t2 = attempt(build_with_defaults, d)
    check("ctor-defaults+template-classes", attempt(lambda: t2.serialize()), ref, "transaction built with omitted default arguments / template script classes serialises differently")
    check("ctor-defaults+template-classes-id", attempt(lambda: t2.id()), rid, "id() of that transaction")
    # TxOut.to_address for the standard templates (address text from the independent address reference)
    for k in ("p2pkh", "p2sh", "p2wpkh", "p2wsh", "p2tr"):
        pos = 2 if k == "p2pkh" else 1
        for oi, o in enumerate(d["outs"][:3]):
            if o[1] == TEMPLATES[k]:
                addr = addrref.address(k, bytes.fromhex(TEMPLATES[k][pos]), "mainnet")
                check("to_address", attempt(lambda: TxOut.to_address(addr, o[0]).serialize()), txref.ser_out(ab["outs"][oi]), f"TxOut.to_address({addr}) does not serialise to the {k} output")
    if not ab["ins"]:
        res.skip("0 inputs: wire format ambiguous with the segwit marker; parse direction not asserted")
        return res
    # parse_hex (lower and upper case), clone
    p = attempt(Tx.parse_hex, ref.hex())
    check("parse_hex", (attempt(fields_of, p), attempt(lambda: p.serialize()), attempt(lambda: p.id())), (ab, ref, rid), "Tx.parse_hex: fields / re-serialisation / id")
    c = attempt(tx.clone)
    check("clone", (attempt(fields_of, c), attempt(lambda: c.serialize()), attempt(lambda: c.id())), (ab, ref, rid), "Tx.clone(): fields / serialisation / id of the copy")
    # the parts on their own: TxIn / TxOut / Witness / Script parse + serialize, with stream positions
    def part(name, parse, wire, ser_of, n):
        s = BytesIO(b"\x99" * 5 + wire + b"\xee" * 4)
        s.read(5)
        obj = attempt(parse, s)
        check(name, (attempt(lambda: ser_of(obj)), attempt(s.tell)), (wire, 5 + len(wire)), f"{name} #{n}: re-serialisation / stream position after parsing")

    for n, i in enumerate(ab["ins"][:3]):
        part("TxIn.parse+serialize", TxIn.parse, txref.ser_in(i), lambda o: o.serialize(), n)
        check("TxIn.serialize", attempt(tx.tx_ins[n].serialize), txref.ser_in(i), f"TxIn.serialize of input {n}")
        if ab["segwit"]:
            part("Witness.parse+serialize", Witness.parse, txref.ser_witness(i["witness"]), lambda o: o.serialize(), n)
        sc = i["script"]
        part("Script.parse(stream)+serialize", Script.parse, txref.varbytes(sc), lambda o: o.serialize(), n)
        check("Script.parse(raw=)", attempt(lambda: Script.parse(raw=sc).raw_serialize()), sc, "Script.parse(raw=...) then raw_serialize")
        check("Script.parse_hex", attempt(lambda: Script.parse_hex(sc.hex()).raw_serialize()), sc, "Script.parse_hex then raw_serialize")
    for n, o in enumerate(ab["outs"][:3]):
        part("TxOut.parse+serialize", TxOut.parse, txref.ser_out(o), lambda x: x.serialize(), n)
        check("TxOut.serialize", attempt(tx.tx_outs[n].serialize), txref.ser_out(o), f"TxOut.serialize of output {n}")
    return res


# ---------------------------------------------------------------- id / serialisation under in-place edits (E2)
E_QUERIES = ["id", "hash", "serialize", "roundtrip"]
E_EDITS = {  # name -> class (part of the fingerprint)
    "in0.script.append": "script-inplace", "in0.script.pop": "script-inplace", "in1.script.setitem": "script-inplace",
    "out0.script.append": "script-inplace", "out1.script.pop": "script-inplace",
    "in0.wit.append": "witness-inplace", "in0.wit.insert0": "witness-inplace", "in1.wit.pop": "witness-inplace",
    "ins.append": "vector", "ins.pop": "vector", "outs.insert0": "vector",
    "in0.prev": "field", "in1.prev": "field", "in1.seq": "field", "in1.index": "field", "in1.script.replace": "field",
    "out0.script.replace": "field", "out1.amount": "field", "segwit.toggle": "field",
}  # fmt: skip
E_STARTS = ["api", "parsed"]


def e_model(d):
    return {
        "version": d["v"], "locktime": d["lt"], "segwit": d["sw"],
        "ins": [{"prev": bytes.fromhex(i[0]), "index": i[1], "items": items_to_cmds(i[2]), "seq": i[3], "witness": [item_bytes(w) for w in i[4]]} for i in d["ins"]],
        "outs": [{"amount": o[0], "items": items_to_cmds(o[1])} for o in d["outs"]],
    }  # fmt: skip


def e_abstract(m):
    return {
        "version": m["version"], "locktime": m["locktime"], "segwit": m["segwit"],
        "ins": [{"prev": i["prev"], "index": i["index"], "script": txref.script_from_items(i["items"]), "seq": i["seq"], "witness": list(i["witness"])} for i in m["ins"]],
        "outs": [{"amount": o["amount"], "script": txref.script_from_items(o["items"])} for o in m["outs"]],
    }  # fmt: skip


def e_apply(m, tx, e):
    """Apply edit e to the abstract model m and, through attribute access / in-place list operations, to the library
    object tx. Edits whose target does not exist (second input/output removed) are no-ops on both sides."""
    from buidl.script import P2WPKHScriptPubKey, Script
    from buidl.timelock import Sequence
    from buidl.tx import TxIn, TxOut

    two_in, two_out = len(m["ins"]) > 1, len(m["outs"]) > 1
    if e == "in0.script.append":
        m["ins"][0]["items"].append(0x51)
        tx.tx_ins[0].script_sig.commands.append(0x51)
    elif e == "in0.script.pop":
        if m["ins"][0]["items"]:
            m["ins"][0]["items"].pop()
            tx.tx_ins[0].script_sig.commands.pop()
    elif e == "in1.script.setitem":
        if two_in:
            it = m["ins"][1]["items"]
            if it:
                it[0] = b"\x07" * 80 if it[0] != b"\x07" * 80 else 0x00
                tx.tx_ins[1].script_sig.commands[0] = it[0]
            else:
                it.append(b"\x08\x09")
                tx.tx_ins[1].script_sig.commands.append(b"\x08\x09")
    elif e == "out0.script.append":
        m["outs"][0]["items"].append(0x75)
        tx.tx_outs[0].script_pubkey.commands.append(0x75)
    elif e == "out1.script.pop":
        if two_out and m["outs"][1]["items"]:
            m["outs"][1]["items"].pop()
            tx.tx_outs[1].script_pubkey.commands.pop()
    elif e == "in0.wit.append":
        m["ins"][0]["witness"].append(b"\x07")
        tx.tx_ins[0].witness.items.append(b"\x07")
    elif e == "in0.wit.insert0":
        m["ins"][0]["witness"].insert(0, b"")
        tx.tx_ins[0].witness.items.insert(0, b"")
    elif e == "in1.wit.pop":
        if two_in and m["ins"][1]["witness"]:
            m["ins"][1]["witness"].pop()
            tx.tx_ins[1].witness.items.pop()
    elif e == "ins.append":
        m["ins"].append({"prev": b"\x44" * 32, "index": 3, "items": [b"\x01\x02"], "seq": 5, "witness": []})
        tx.tx_ins.append(TxIn(b"\x44" * 32, 3, Script([b"\x01\x02"]), 5))
    elif e == "ins.pop":
        if two_in:
            m["ins"].pop()
            tx.tx_ins.pop()
    elif e == "outs.insert0":
        m["outs"].insert(0, {"amount": 77, "items": [0x6A, b"hi"]})
        tx.tx_outs.insert(0, TxOut(77, Script([0x6A, b"hi"])))
    elif e == "in0.prev":
        p = m["ins"][0]["prev"]
        m["ins"][0]["prev"] = bytes([p[0] ^ 1]) + p[1:]
        tx.tx_ins[0].prev_tx = m["ins"][0]["prev"]
    elif e == "in1.prev":
        if two_in:
            p = m["ins"][1]["prev"]
            m["ins"][1]["prev"] = p[:-1] + bytes([p[-1] ^ 0x80])
            tx.tx_ins[1].prev_tx = m["ins"][1]["prev"]
    elif e == "in1.seq":
        if two_in:
            m["ins"][1]["seq"] ^= 0x10000
            tx.tx_ins[1].sequence = Sequence(m["ins"][1]["seq"])
    elif e == "in1.index":
        if two_in:
            m["ins"][1]["index"] ^= 1
            tx.tx_ins[1].prev_index = m["ins"][1]["index"]
    elif e == "in1.script.replace":
        if two_in:
            m["ins"][1]["items"] = [b"\xaa" * 5] if m["ins"][1]["items"] != [b"\xaa" * 5] else []
            tx.tx_ins[1].script_sig = Script(list(m["ins"][1]["items"]))
    elif e == "out0.script.replace":
        if m["outs"][0]["items"] != [0x00, b"\x33" * 20]:
            m["outs"][0]["items"] = [0x00, b"\x33" * 20]
            tx.tx_outs[0].script_pubkey = P2WPKHScriptPubKey(b"\x33" * 20)
        else:
            m["outs"][0]["items"] = [0x51]
            tx.tx_outs[0].script_pubkey = Script([0x51])
    elif e == "out1.amount":
        if two_out:
            m["outs"][1]["amount"] ^= 0x8000000000
            tx.tx_outs[1].amount = m["outs"][1]["amount"]
    elif e == "segwit.toggle":
        m["segwit"] = not m["segwit"]
        tx.segwit = m["segwit"]
    else:
        raise ValueError(e)


def gen_idedit(tier, seed):
    depth = 3 if tier == "quick" else 4
    events = [["q", q] for q in E_QUERIES] + [["e", e] for e in E_EDITS]
    return [{"start": st, "segwit": sw, "prefix": [a, b], "depth": depth} for st in E_STARTS for sw in (False, True) for a in events for b in events]


def run_idedit(case):
    import copy

    from buidl.tx import Tx

    res = Res()
    events = [["q", q] for q in E_QUERIES] + [["e", e] for e in E_EDITS]
    base = base_segwit(0)
    if not case["segwit"]:
        base = dict(base, sw=False)
        base["ins"] = [i[:4] + [[]] for i in base["ins"]]
    tails = [[]]
    for _ in range(case["depth"] - len(case["prefix"])):
        tails = [t + [ev] for t in tails for ev in events]
    hists = [case["prefix"] + t for t in tails]
    if case.get("replay"):
        hists = [case["replay"]]
    for hist in hists:
        m = e_model(copy.deepcopy(base))
        if case["start"] == "api":
            tx = build_via_api(copy.deepcopy(base))
        else:
            tx = Tx.parse(BytesIO(txref.ser_tx(e_abstract(m))))
        ok = True
        last_cls = "no-edit"
        for step, (kind, what) in enumerate(hist):
            res.transitions += 1
            if kind == "e":
                r = attempt(e_apply, m, tx, what)
                if isinstance(r, Rejected):
                    res.violation(f"C04/idedit/edit-refused/{E_EDITS[what]}", {"engine": "idedit", "case": dict({k: v for k, v in case.items() if k != "replay"}, replay=hist[: step + 1])}, repr(r), "editable", f"the edit {what} raised")
                    ok = False
                    break
                last_cls = E_EDITS[what]
                continue
            ab = e_abstract(m)
            has_wit = any(i["witness"] for i in ab["ins"])
            canonical = ab["segwit"] == has_wit  # flagged and no witness: superfluous record; witness and not flagged: skip
            if what in ("id", "hash"):
                exp = txref.txid(ab) if what == "id" else bytes.fromhex(txref.txid(ab))
                got = attempt(getattr(tx, what))
            elif not canonical:
                res.skip("serialisation of a segwit-flagged tx without witness / legacy-flagged tx with witness not asserted")
                continue
            elif what == "serialize":
                exp = txref.ser_tx(ab)
                got = attempt(tx.serialize)
            else:  # roundtrip: serialise, parse, every field
                exp = ab
                got = attempt(lambda: fields_of(Tx.parse(BytesIO(tx.serialize()))))
            if got != exp:
                q = "id" if what in ("id", "hash") else what
                res.violation(
                    f"C04/idedit/{q}/{last_cls}",
                    {"engine": "idedit", "case": dict({k: v for k, v in case.items() if k != "replay"}, replay=hist[: step + 1])},
                    got.hex()[:160] if isinstance(got, bytes) else str(got)[:200],
                    exp.hex()[:160] if isinstance(exp, bytes) else str(exp)[:200],
                    f"{what} after history {hist[:step]} on a transaction obtained by {case['start']} is not the value for the current content",
                )
                ok = False
                break
        if ok:
            res.states += 1
            res.ok("history consistent", nontrivial=repr((case["start"], case["segwit"], hist)) if any(k == "e" for k, _ in hist) and hist[-1][0] == "q" else None)
    return res


def engines(tier, seed):
    def fetch_cases(t, s):
        cs = gen_fetch(t, s)
        for c in cs:
            c["seed"] = s
        return cs

    return [
        Engine(
            "codec",
            gen_codec,
            run_codec,
            kind="E1",
            rule="2 base transactions (legacy, segwit) x every single deviation of the field alphabets (every push length 0..520, "
            "push pairs over {0,1,74,75,76,255,256,520}^2, every non-push opcode byte, templates, opcode-only scripts of 252/253/254/65535/65536/70000 bytes, "
            "counts 0..5/250..256/300, 3/253/300 inputs with a different stack each, witness shapes on every input (incl. one stack with every item length 0..599), "
            "integer boundaries); thorough adds every pair of deviations over reduced alphabets. Non-trivial = deviates from the base; "
            "oracle = independent wire encoder, both directions, byte-exact; every case is also parsed at stream offset 7 followed by a second transaction "
            "and a sentinel (stream position after each parse, both re-serialise)",
        ),
        Engine(
            "idhist",
            gen_idhist,
            run_idhist,
            kind="E2",
            rule="every history of <= 3 (thorough 4) events on ONE Tx object (legacy-flagged and segwit-flagged): queries {id, hash, serialize, repr} and edits {locktime, sequence, outpoint, scriptSig via finalize_p2pkh, output amount, append/remove output, version, witness of input 0/1}; every query must equal the reference value for the current content (so the id changes with every non-witness edit, ignores witness edits, and no earlier query leaves stale state)",
        ),
        Engine(
            "scriptseq",
            gen_scriptseq,
            run_scriptseq,
            kind="E1",
            rule="every command sequence of length 1..3 over a 32-command alphabet (15 opcodes incl. OP_0/OP_1NEGATE/OP_1/OP_16/0xff; minimal pushes of "
            "1,2,20,32,33,75,76,255,256,520 bytes; one-byte pushes 00 01 10 81 4c 4d 4e) = 33824 scripts, each placed as scriptSig of input 0 + "
            "scriptPubKey of output 1 and as scriptSig of input 1 + scriptPubKey of output 0 of a 2-in/2-out segwit transaction; build through the API, "
            "serialize, id, parse (with a sentinel after the bytes: stream position), every field, re-serialise, byte-exact against mc.ref.txref",
        ),
        Engine(
            "rawscript",
            gen_rawscript,
            run_rawscript,
            kind="E1",
            rule="canonically encoded transactions whose script field is an ARBITRARY byte string (coinbase scriptSig, output script, scriptSig of input 1 of a "
            "segwit tx): every 1- and 2-byte string; for first byte in {1..5,0x4b,0x4c,0x4d,0x4e} every tail in {0,1,2,3,4c,ff}^3 and {0,1,2,ff}^5 "
            "(truncated / non-minimal / PUSHDATA4 pushes); five standard templates x four encodings of the hash push x {exact, one byte short}; pushes of "
            "521,522,65535,65536 bytes; thorough adds every 3-byte string starting with a push opcode 1..78. Oracle: parse accepts, re-serialises byte-exact, "
            "id = double-SHA256 of the stripped bytes, fields, stream position; fingerprint class from an independent tokenizer "
            "(canonical/nonminimal/truncated/oversize)",
        ),
        Engine(
            "varint",
            gen_varint,
            run_varint,
            kind="E1",
            rule="encode_varint/read_varint called directly: every value 0..0x101ff, every width boundary {fc,fd,ffff,10000,2^24,2^31,2^32-1,2^32,2^33,2^48,2^56,2^63,2^64-1} "
            "+-2, four filler values per byte length 2..8; 2^64, 2^64+1, 2^72 must be refused; encode_varstr/read_varstr for every length 0..600, 65535, 65536, "
            "70000; decoding from a stream at offset with trailing bytes, stream position asserted; oracle txref.compact",
        ),
        Engine(
            "entry",
            gen_entry,
            run_entry,
            kind="E1",
            rule="the 2 base transactions x every single deviation of the reduced field alphabets + an all-defaults transaction, through the other entry points: "
            "serialize_legacy/serialize_segwit/serialize_witness called directly, constructor defaults omitted + template script classes, TxOut.to_address "
            "(address text from mc.ref.addrref), Tx.parse_hex, Tx.clone, TxIn/TxOut/Witness/Script parse+serialize standalone at a stream offset with "
            "position check, Script.parse(raw=), Script.parse_hex; oracle = the corresponding piece of the txref wire encoder",
        ),
        Engine(
            "idedit",
            gen_idedit,
            run_idedit,
            kind="E2",
            rule="every history of <= 3 (thorough 4) events on ONE Tx object obtained through the API or by Tx.parse, legacy- and segwit-flagged: queries {id, hash, "
            "serialize, serialize->parse->fields} and 19 edits: IN-PLACE list operations on script_sig.commands / script_pubkey.commands / witness.items / "
            "tx_ins / tx_outs (append, pop, insert, item assignment), and attribute edits of prev_tx, second-input index/sequence/script, output script "
            "(Script and P2WPKHScriptPubKey objects), second-output amount, the segwit flag; every query must equal the value the abstract model "
            "(command lists re-encoded by txref) gives for the current content. Scripts are canonical (opcodes + minimal pushes) throughout",
        ),
        Engine(
            "fetch",
            fetch_cases,
            run_fetch,
            kind="E2",
            rule="fetch histories (depth 1 with every single-byte mutation of the honest answer x {1,0x80,0xff} quick / all 255 thorough; depth 2..3 over "
            "3 ids x 4 answers x fresh flag; answers that are not the canonical encoding of what they parse to: trailing bytes, every truncation of the tail, "
            "every compact size over-long with every longer width, blanks in the hex text, each requested by the true txid and by the double-SHA256 of exactly "
            "the answer bytes in both byte orders, alone and before/after an honest fetch) on one shared TxFetcher.cache with urlopen replaced by an enumerated server; invariant: every "
            "call raises or returns a Tx whose id() is the requested id. Non-trivial = history containing a dishonest answer",
        ),
    ]
