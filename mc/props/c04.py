"""C04 — transaction wire codec is lossless, txid is the witness-stripped hash, fetcher integrity.

E1 `codec`: base transactions x every deviation of a field alphabet (0/1 deviations quick, 2 thorough),
  byte-exact against the independent wire encoder in mc.ref.txref, both directions.
E2 `fetch`: explicit-state search over fetch histories with urlopen replaced by an enumerated server.
"""
import itertools
from io import BytesIO

from mc.core import Engine, Res, attempt, Rejected, filler
from mc.ref import txref

PROP = "C04"


# ---------------------------------------------------------------- abstract tx <-> descriptor
def item_bytes(it):
    if isinstance(it, list):  # [n, b] : n bytes of value b
        return bytes([it[1]]) * it[0]
    return bytes.fromhex(it)


def items_to_cmds(items):
    return [it if isinstance(it, int) else item_bytes(it) for it in items]


def to_abstract(d):
    return {
        "version": d["v"],
        "locktime": d["lt"],
        "segwit": d["sw"],
        "ins": [
            {
                "prev": bytes.fromhex(i[0]),
                "index": i[1],
                "script": txref.script_from_items(items_to_cmds(i[2])),
                "seq": i[3],
                "witness": [item_bytes(w) for w in i[4]],
            }
            for i in d["ins"]
        ],
        "outs": [{"amount": o[0], "script": txref.script_from_items(items_to_cmds(o[1]))} for o in d["outs"]],
    }


H20 = "11" * 20
H32 = "22" * 32
TEMPLATES = {
    "p2pkh": [0x76, 0xA9, H20, 0x88, 0xAC],
    "p2sh": [0xA9, H20, 0x87],
    "p2wpkh": [0, H20],
    "p2wsh": [0, H32],
    "p2tr": [0x51, H32],
    "opreturn": [0x6A, "deadbeef"],
    "empty": [],
}


def base_legacy(seed):
    return {
        "v": 1,
        "lt": 0,
        "sw": False,
        "ins": [[filler(seed, "prev", 0).hex(), 0, ["30" + "ab" * 70 + "01", "02" + "cd" * 32], 0xFFFFFFFF, []]],
        "outs": [[50000, TEMPLATES["p2pkh"]]],
    }


def base_segwit(seed):
    return {
        "v": 2,
        "lt": 500000,
        "sw": True,
        "ins": [
            [filler(seed, "prev", 1).hex(), 1, [], 0xFFFFFFFE, ["30" + "ab" * 70 + "01", "03" + "cd" * 32]],
            [filler(seed, "prev", 2).hex(), 0, ["0014" + H20], 0xFFFFFFFF, []],
        ],
        "outs": [[123456789, TEMPLATES["p2wpkh"]], [1, TEMPLATES["p2tr"]]],
    }


PUSH_PAIR = [0, 1, 74, 75, 76, 255, 256, 520]
OPCODES = [0] + list(range(79, 256))  # every non-push opcode byte


def script_alphabet(full):
    out = []
    if full:
        out += [(f"push{n}", [[n, 0x5A]]) for n in range(0, 521)]
        out += [(f"push{a}+push{b}", [[a, 0x5A], [b, 0xA5]]) for a in PUSH_PAIR for b in PUSH_PAIR]
        out += [(f"op{o}", [o]) for o in OPCODES]
        out += [("allops", OPCODES)]
        # two-command scripts <opcode> <push>: the shapes script classifiers look at (every opcode x hash-sized
        # pushes, every witness version x every program length 2..40)
        out += [(f"op{o}+push{n}", [o, [n, 0x3C]]) for o in OPCODES for n in (20, 32)]
        out += [(f"op{o}+push{n}", [o, [n, 0x3C]]) for o in [0] + list(range(0x51, 0x61)) for n in range(2, 41) if n not in (20, 32)]
        out += [(f"push{n}+op{o}", [[n, 0x3C], o]) for o in (0x87, 0x88, 0xAC, 0xAE) for n in (20, 32, 33)]
    else:
        out += [(f"push{n}", [[n, 0x5A]]) for n in (0, 1, 74, 75, 76, 77, 255, 256, 520)]
        out += [("op0", [0]), ("op255", [255]), ("op81+push75", [81, [75, 1]])]
    out += [(f"tmpl-{k}", v) for k, v in TEMPLATES.items()]
    # one-byte pushes whose value collides with small-number opcodes
    out += [(f"push1-val{v:02x}", [f"{v:02x}"]) for v in (0x00, 0x01, 0x10, 0x11, 0x4C, 0x4F, 0x81)]
    return out


def witness_alphabet(full):
    counts = [0, 1, 2, 252, 253] if full else [0, 1, 253]
    lens = [0, 1, 75, 252, 253, 65535, 65536, 70000] if full else [0, 75, 253, 65536]
    out = []
    for c in counts:
        if c == 0:
            out.append(("wit0", []))
            continue
        for ln in lens:
            if c >= 252 and ln > 253:
                continue
            out.append((f"wit{c}x{ln}", [[ln, 0x77]] * c))
    out.append(("wit-mixed", [[0, 0], [1, 1], [253, 2], [70000, 3]]))
    return out


def field_alphabets(base, full):
    """list of (field, name, mutator)"""
    devs = []

    def setk(k, v):
        def f(d):
            d[k] = v

        return f

    for v in (0, 1, 2, 2**31, 2**32 - 1):
        devs.append(("v", f"v={v}", setk("v", v)))
    for v in (0, 1, 499999999, 500000000, 2**31, 2**32 - 1):
        devs.append(("lt", f"lt={v}", setk("lt", v)))
    nin, nout = len(base["ins"]), len(base["outs"])
    for i in range(nin):
        for v in (0, 1, 2**32 - 1):
            devs.append((f"in{i}.idx", f"in{i}.idx={v}", lambda d, i=i, v=v: d["ins"][i].__setitem__(1, v)))
        for v in (0, 1, 0xFFFF, 1 << 22, 1 << 31, 2**32 - 2, 2**32 - 1):
            devs.append((f"in{i}.seq", f"in{i}.seq={v}", lambda d, i=i, v=v: d["ins"][i].__setitem__(3, v)))
        for v in ("00" * 32, "ff" * 32, "01" + "00" * 31):
            devs.append((f"in{i}.prev", f"in{i}.prev={v[:4]}..", lambda d, i=i, v=v: d["ins"][i].__setitem__(0, v)))
        for nm, s in script_alphabet(full and i == 0):
            devs.append((f"in{i}.script", f"in{i}.script={nm}", lambda d, i=i, s=s: d["ins"][i].__setitem__(2, s)))
        if base["sw"]:
            for nm, w in witness_alphabet(full and i == 0):
                devs.append((f"in{i}.wit", f"in{i}.wit={nm}", lambda d, i=i, w=w: d["ins"][i].__setitem__(4, w)))
    for o in range(nout):
        for v in (0, 1, 2**32 - 1, 2**32, 21 * 10**14, 2**63 - 1, 2**63, 2**64 - 1):
            devs.append((f"out{o}.amt", f"out{o}.amt={v}", lambda d, o=o, v=v: d["outs"][o].__setitem__(0, v)))
        for nm, s in script_alphabet(full and o == 0):
            devs.append((f"out{o}.script", f"out{o}.script={nm}", lambda d, o=o, s=s: d["outs"][o].__setitem__(1, s)))

    def set_nin(n):
        def f(d):
            proto = d["ins"][0]
            d["ins"] = [[f"{k:064x}", k % 7, proto[2] if k == 0 else [], 0xFFFFFFFF - k, proto[4] if k == 0 else []] for k in range(n)]

        return f

    def set_nout(n):
        def f(d):
            d["outs"] = [[k * 1000 + 1, TEMPLATES["p2wpkh"] if k % 2 else TEMPLATES["p2pkh"]] for k in range(n)]

        return f

    for n in list(range(0, 6)) + list(range(250, 257)) + [300]:
        devs.append(("nin", f"nin={n}", set_nin(n)))
        devs.append(("nout", f"nout={n}", set_nout(n)))
    return devs


def gen_codec(tier, seed):
    import copy

    cases = []
    for bname, base in (("legacy", base_legacy(seed)), ("segwit", base_segwit(seed))):
        cases.append({"base": bname, "devs": [], "d": base})
        devs = field_alphabets(base, True)
        for fld, nm, mut in devs:
            d = copy.deepcopy(base)
            mut(d)
            cases.append({"base": bname, "devs": [nm], "d": d})
        if tier == "thorough":
            small = field_alphabets(base, False)
            for (f1, n1, m1), (f2, n2, m2) in itertools.combinations(small, 2):
                if f1 == f2:
                    continue
                # count changes rebuild the vectors, so apply them first
                order = [(f1, n1, m1), (f2, n2, m2)]
                order.sort(key=lambda t: 0 if t[0] in ("nin", "nout") else 1)
                d = copy.deepcopy(base)
                try:
                    for _, _, m in order:
                        m(d)
                except IndexError:
                    continue  # the second field no longer exists after a count change
                cases.append({"base": bname, "devs": [n1, n2], "d": d})
    return cases


def fields_of(tx):
    """Observe every field of a buidl Tx through its public attributes."""
    return {
        "version": tx.version,
        "locktime": int(tx.locktime),
        "segwit": bool(tx.segwit),
        "ins": [
            {
                "prev": bytes(i.prev_tx),
                "index": i.prev_index,
                "script": i.script_sig.raw_serialize(),
                "seq": int(i.sequence),
                "witness": [bytes(x) for x in i.witness.items],
            }
            for i in tx.tx_ins
        ],
        "outs": [{"amount": o.amount, "script": o.script_pubkey.raw_serialize()} for o in tx.tx_outs],
    }


def build_via_api(d):
    from buidl.script import Script
    from buidl.tx import Tx, TxIn, TxOut
    from buidl.witness import Witness

    ins = []
    for i in d["ins"]:
        ti = TxIn(bytes.fromhex(i[0]), i[1], Script(items_to_cmds(i[2])), i[3])
        if d["sw"]:
            ti.witness = Witness([item_bytes(w) for w in i[4]])
        ins.append(ti)
    outs = [TxOut(o[0], Script(items_to_cmds(o[1]))) for o in d["outs"]]
    return Tx(d["v"], ins, outs, d["lt"], network="mainnet", segwit=d["sw"])


def run_codec(case):
    from buidl.tx import Tx

    res = Res()
    d = case["d"]
    ab = to_abstract(d)
    devs = "+".join(case["devs"]) or "base"
    nt = (case["base"], devs) if case["devs"] else None
    vc = {"engine": "codec", "case": case}
    if ab["segwit"] and not any(i["witness"] for i in ab["ins"]):
        res.skip("segwit flag with all-empty witnesses (not a canonical encoding: superfluous witness record)")
        return res
    if any(o["amount"] >= 2**64 for o in ab["outs"]):
        res.skip("amount out of range")
        return res
    ref = txref.ser_tx(ab)
    rid = txref.txid(ab)
    assert not ab["ins"] or txref.ser_tx(txref.parse_tx(ref)) == ref
    # direction B: build through the API, serialise, compare, parse back
    tx = attempt(build_via_api, d)
    if isinstance(tx, Rejected):
        res.violation(f"C04/codec/build/{devs}", vc, repr(tx), "constructible", "API refuses to build the transaction")
        return res
    ser = attempt(tx.serialize)
    if ser != ref:
        res.violation(
            f"C04/codec/serialize/{devs}", vc, ser if isinstance(ser, Rejected) else ser.hex()[:200], ref.hex()[:200], "serialize() differs from the reference wire encoding"
        )
    else:
        res.ok("serialize==ref", nt, sample={"devs": case["devs"], "base": case["base"], "ref_len": len(ref)} if len(case["devs"]) == 1 else None)
    got_id = attempt(tx.id)
    if got_id != rid:
        res.violation(f"C04/codec/id/{devs}", vc, got_id, rid, "id() is not the reversed double-SHA256 of the stripped serialisation")
    else:
        res.ok("id==ref")
    if not ab["ins"]:
        res.skip("0 inputs: wire format ambiguous with the segwit marker; parse direction not asserted")
        return res
    # direction A: parse canonical bytes, compare every field, re-serialise
    ptx = attempt(Tx.parse, BytesIO(ref))
    if isinstance(ptx, Rejected):
        res.violation(f"C04/codec/parse/{devs}", vc, repr(ptx), "parses", "canonical bytes are rejected by Tx.parse")
        return res
    f = attempt(fields_of, ptx)
    if f != ab:
        res.violation(f"C04/codec/parse-fields/{devs}", vc, str(f)[:300], str(ab)[:300], "parsed fields differ from the encoded ones")
    else:
        res.ok("parse-fields==ref")
    ser2 = attempt(ptx.serialize)
    if ser2 != ref:
        res.violation(f"C04/codec/reserialize/{devs}", vc, ser2 if isinstance(ser2, Rejected) else ser2.hex()[:200], ref.hex()[:200], "parse->serialize does not reproduce the input bytes")
    else:
        res.ok("reserialize==ref")
    pid = attempt(ptx.id)
    if pid != rid:
        res.violation(f"C04/codec/parsed-id/{devs}", vc, pid, rid, "id() of parsed tx wrong")
    else:
        res.ok("parsed-id==ref")
    # id must ignore witness data and depend on everything else
    if ab["segwit"]:
        stripped = dict(ab, segwit=False)
        sid = attempt(lambda: Tx.parse(BytesIO(txref.ser_tx(stripped))).id())
        if sid != pid:
            res.violation(f"C04/codec/id-witness-dependent/{devs}", vc, sid, pid, "id changes when witness data is removed")
        else:
            res.ok("id-ignores-witness")
    return res


# ---------------------------------------------------------------- fetcher
def fetch_world(seed):
    """Two requested ids and the server's possible answers for each."""
    legacy = to_abstract(base_legacy(seed))
    seg = to_abstract(base_segwit(seed))
    nonmin = to_abstract(base_legacy(seed + 1))
    # honest historical-style tx whose scriptSig uses a non-minimal push (PUSHDATA1 for 5 bytes)
    nonmin["ins"][0]["script"] = b"\x4c\x05hello" + b"\x51"
    # ... and one whose output script is a P2PKH template with a PUSHDATA1-encoded hash
    nonmin_out = to_abstract(base_legacy(seed + 2))
    nonmin_out["outs"][0]["script"] = b"\x76\xa9\x4c\x14" + b"\x11" * 20 + b"\x88\xac"
    seg_altwit = {**seg, "ins": [dict(i) for i in seg["ins"]]}
    seg_altwit["ins"][0]["witness"] = [b"\x01\x02", b"\x03"]
    return {"legacy": legacy, "segwit": seg, "nonmin": nonmin, "nonmin_out": nonmin_out, "seg_altwit": seg_altwit}


def response_bytes(world, rid_name, kind):
    w = world
    honest = txref.ser_tx(w[rid_name])
    if kind == "honest":
        return honest.hex().encode()
    if kind == "honest-nl":
        return honest.hex().encode() + b"\n"
    if kind == "honest-upper":
        return honest.hex().upper().encode()
    if kind == "other":
        other = "segwit" if rid_name != "segwit" else "legacy"
        return txref.ser_tx(w[other]).hex().encode()
    if kind == "altwit":
        if rid_name == "segwit":
            return txref.ser_tx(w["seg_altwit"]).hex().encode()
        return honest.hex().encode()
    if kind == "stripped":
        return txref.ser_stripped(w[rid_name]).hex().encode()
    if kind == "trailing":
        return (honest + b"\x00\x01\x02").hex().encode()
    if kind == "nonhex":
        return b"<html>error</html>"
    if kind == "empty":
        return b""
    if kind.startswith("mut:"):
        _, pos, x = kind.split(":")
        b = bytearray(honest)
        b[int(pos)] ^= int(x)
        return bytes(b).hex().encode()
    raise ValueError(kind)


def requested_id(world, rid_name, how):
    """The id asked for: the transaction's txid, or (how != "") another digest of the bytes the honest server
    returns for it — a caller may ask for anything, the fetcher must never hand back a Tx with a different id()."""
    import hashlib

    t = world[rid_name]
    full, stripped = txref.ser_tx(t), txref.ser_stripped(t)
    d = lambda b: hashlib.sha256(hashlib.sha256(b).digest()).digest()
    if how == "":
        return txref.txid(t)
    return {
        "wtxid": d(full)[::-1].hex(),
        "wtxid-unreversed": d(full).hex(),
        "txid-unreversed": d(stripped).hex(),
        "sha256-once": hashlib.sha256(stripped).digest()[::-1].hex(),
        "sha256-once-full": hashlib.sha256(full).digest()[::-1].hex(),
        "hash-of-hex-text": d(full.hex().encode())[::-1].hex(),
        "upper": txref.txid(t).upper(),
    }[how]


RID_VARIANTS = ["wtxid", "wtxid-unreversed", "txid-unreversed", "sha256-once", "sha256-once-full", "hash-of-hex-text", "upper"]


class _Resp:
    def __init__(self, b):
        self.b = b

    def read(self):
        return self.b


def do_fetch_history(world, hist):
    """Replay a history of fetches on a fresh cache; returns list of observations."""
    import buidl.tx as btx

    btx.TxFetcher.cache = {}
    obs = []
    cur = {}

    def fake_urlopen(req, *a, **k):
        return _Resp(cur["resp"])

    old = btx.urlopen
    btx.urlopen = fake_urlopen
    try:
        for rid_name, kind, fresh in hist:
            rid_name, _, how = rid_name.partition("@")
            rid = requested_id(world, rid_name, how)
            cur["resp"] = response_bytes(world, rid_name, kind)
            r = attempt(btx.TxFetcher.fetch, rid, "mainnet", fresh)
            if isinstance(r, Rejected):
                obs.append(("raised", r.how))
            else:
                got = attempt(r.id)
                obs.append(("returned", got, rid.lower()))
    finally:
        btx.urlopen = old
        btx.TxFetcher.cache = {}
    return obs


def gen_fetch(tier, seed):
    world = fetch_world(seed)
    cases = []
    xs = (1, 0x80, 0xFF) if tier == "quick" else tuple(range(1, 256))
    for rid_name in ("legacy", "segwit", "nonmin", "nonmin_out"):
        n = len(txref.ser_tx(world[rid_name]))
        kinds = ["honest", "honest-nl", "honest-upper", "other", "altwit", "stripped", "trailing", "nonhex", "empty"]
        kinds += [f"mut:{p}:{x}" for p in range(n) for x in xs]
        for k in kinds:
            cases.append({"hist": [[rid_name, k, False]]})
        # the caller asks for some other digest of the very bytes the server answers with
        for how in RID_VARIANTS:
            for k in ("honest", "honest-nl", "stripped", "altwit"):
                cases.append({"hist": [[f"{rid_name}@{how}", k, False]]})
                cases.append({"hist": [[rid_name, "honest", False], [f"{rid_name}@{how}", k, False]]})
    # histories of depth 2..3 over a small alphabet, on one shared cache
    small = [(r, k, f) for r in ("legacy", "segwit", "nonmin") for k in ("honest", "other", "mut:5:1", "altwit") for f in (False, True)]
    depth = 3
    for dl in range(2, depth + 1):
        for h in itertools.product(small, repeat=dl):
            if tier == "quick" and dl == 3 and len({x[0] for x in h}) > 2:
                continue
            cases.append({"hist": [list(x) for x in h]})
    return cases


def run_fetch(case):
    res = Res()
    seed = case.get("seed", 0)
    world = fetch_world(seed)
    hist = case["hist"]
    obs = do_fetch_history(world, hist)
    res.states += len(hist)
    res.transitions += len(hist)
    lying = any(k not in ("honest", "honest-nl", "honest-upper") or "@" in r for r, k, _ in hist)
    bad = None
    for step, o in enumerate(obs):
        if o[0] == "returned" and o[1] != o[2]:
            bad = (step, o)
            break
    if bad:
        step, o = bad
        rid_name, kind, fresh = hist[step]
        rid_name, _, how = rid_name.partition("@")
        honest = response_bytes(world, rid_name, kind).strip().lower() == response_bytes(world, rid_name, "honest")
        cls = f"{rid_name}/asked-for-{how}" if how and how != "upper" else f"{rid_name}-honest" if honest else f"{rid_name}/{kind.split(':')[0]}"
        res.violation(
            f"C04/fetch/{cls}",
            {"engine": "fetch", "case": case},
            {"returned_id": o[1], "history": hist[: step + 1]},
            {"requested_id": o[2]},
            "TxFetcher.fetch returned a Tx whose id() differs from the requested id",
        )
    else:
        accepted = sum(1 for o in obs if o[0] == "returned")
        res.ok(f"fetch-ok(accepted={accepted>0})", nontrivial=repr(hist) if lying else None, sample={"hist": hist, "obs": obs} if len(hist) == 2 else None)
        # completeness: an honest canonical answer on a fresh cache must be accepted
        if len(hist) == 1 and hist[0][1] in ("honest", "honest-nl") and not hist[0][0].startswith("nonmin") and "@" not in hist[0][0] and obs[0][0] != "returned":
            res.violation(f"C04/fetch/honest-rejected/{hist[0][0]}", {"engine": "fetch", "case": case}, obs, "returned", "honest answer rejected")
    return res


# ---------------------------------------------------------------- id / serialisation over edit histories (E2)
H_QUERIES = ["id", "hash", "serialize", "repr"]
H_EDITS = ["locktime", "in0.seq", "in0.index", "in0.scriptsig", "out0.amount", "append-out", "pop-out", "version", "in0.witness", "in1.witness"]


def h_apply_abstract(ab, e):
    if e == "locktime":
        ab["locktime"] ^= 0x20
    elif e == "in0.seq":
        ab["ins"][0]["seq"] ^= 1
    elif e == "in0.index":
        ab["ins"][0]["index"] ^= 2
    elif e == "in0.scriptsig":
        ab["ins"][0]["script"] = txref.script_from_items([b"\x30\x06sig", b"\x02key"]) if not ab["ins"][0]["script"] else b""
    elif e == "out0.amount":
        ab["outs"][0]["amount"] ^= 0x400
    elif e == "append-out":
        ab["outs"].append({"amount": 4321, "script": b"\x51"})
    elif e == "pop-out":
        if len(ab["outs"]) > 1:
            ab["outs"].pop()
    elif e == "version":
        ab["version"] ^= 3
    elif e == "in0.witness":
        ab["ins"][0]["witness"] = [b"\x01\x02"] if ab["ins"][0]["witness"] != [b"\x01\x02"] else [b"\x03"]
    elif e == "in1.witness":
        ab["ins"][1]["witness"] = [b"\x09"] if not ab["ins"][1]["witness"] else []


def h_apply_lib(tx, e):
    from buidl.script import Script
    from buidl.timelock import Locktime, Sequence
    from buidl.tx import TxOut
    from buidl.witness import Witness

    if e == "locktime":
        tx.locktime = Locktime(int(tx.locktime) ^ 0x20)
    elif e == "in0.seq":
        tx.tx_ins[0].sequence = Sequence(int(tx.tx_ins[0].sequence) ^ 1)
    elif e == "in0.index":
        tx.tx_ins[0].prev_index ^= 2
    elif e == "in0.scriptsig":
        if not tx.tx_ins[0].script_sig.commands:
            tx.tx_ins[0].finalize_p2pkh(b"\x30\x06sig", b"\x02key")
        else:
            tx.tx_ins[0].script_sig = Script()
    elif e == "out0.amount":
        tx.tx_outs[0].amount ^= 0x400
    elif e == "append-out":
        tx.tx_outs.append(TxOut(4321, Script([0x51])))
    elif e == "pop-out":
        if len(tx.tx_outs) > 1:
            tx.tx_outs.pop()
    elif e == "version":
        tx.version ^= 3
    elif e == "in0.witness":
        tx.tx_ins[0].witness = Witness([b"\x01\x02"]) if tx.tx_ins[0].witness.items != [b"\x01\x02"] else Witness([b"\x03"])
    elif e == "in1.witness":
        tx.tx_ins[1].witness = Witness([b"\x09"]) if not tx.tx_ins[1].witness.items else Witness([])


def gen_idhist(tier, seed):
    depth = 3 if tier == "quick" else 4
    events = [["q", q] for q in H_QUERIES] + [["e", e] for e in H_EDITS]
    cases = []
    for sw in (False, True):
        for first in events:
            for second in events:
                cases.append({"segwit": sw, "prefix": [first, second], "depth": depth})
    return cases


def run_idhist(case):
    import copy

    res = Res()
    events = [["q", q] for q in H_QUERIES] + [["e", e] for e in H_EDITS]
    base = base_segwit(0)
    if not case["segwit"]:
        base = dict(base, sw=False)
        base["ins"] = [i[:4] + [[]] for i in base["ins"]]
    depth = case["depth"]
    tails = [[]]
    for _ in range(depth - len(case["prefix"])):
        tails = [t + [ev] for t in tails for ev in events] + [[]] if False else [t + [ev] for t in tails for ev in events]
    hists = [case["prefix"] + t for t in tails] if depth > len(case["prefix"]) else [case["prefix"]]
    if case.get("replay"):
        hists = [case["replay"]]
    for hist in hists:
        if not case["segwit"] and any(ev[1] in ("in0.witness", "in1.witness") for ev in hist):
            res.skip("witness edits on a legacy-flagged transaction")
            continue
        ab = to_abstract(copy.deepcopy(base))
        tx = build_via_api(copy.deepcopy(base))
        ok = True
        for step, (kind, what) in enumerate(hist):
            res.transitions += 1
            if kind == "e":
                h_apply_abstract(ab, what)
                h_apply_lib(tx, what)
                continue
            if ab["segwit"] and not any(i["witness"] for i in ab["ins"]):
                ref_ser = None  # not a canonical encoding (all witnesses empty): serialisation not asserted
            else:
                ref_ser = txref.ser_tx(ab)
            exp = {"id": txref.txid(ab), "hash": bytes.fromhex(txref.txid(ab)), "serialize": ref_ser, "repr": None}[what]
            got = attempt(getattr(tx, what if what != "repr" else "__repr__"))
            if what == "repr" or exp is None:
                continue
            if got != exp:
                stale = any(k == "e" for k, _ in hist[:step]) and any(k == "q" for k, _ in hist[:step])
                res.violation(
                    f"C04/idhist/{what}/{'stale-after-edit' if stale else 'wrong'}",
                    {"engine": "idhist", "case": dict({k: v for k, v in case.items() if k != "replay"}, replay=hist[: step + 1])},
                    got if not isinstance(got, bytes) else got.hex()[:120],
                    exp if not isinstance(exp, bytes) else exp.hex()[:120],
                    f"{what}() after history {hist[:step]} is not the value for the current transaction content",
                )
                ok = False
                break
        if ok:
            res.states += 1
            res.ok("history consistent", nontrivial=repr(hist) if any(k == "e" for k, _ in hist) and hist[-1][0] == "q" else None, sample={"history": hist} if len(hist) == 3 and hist[0][0] == "q" and hist[1][0] == "e" and hist[2][0] == "q" else None)
    return res


def engines(tier, seed):
    def fetch_cases(t, s):
        cs = gen_fetch(t, s)
        for c in cs:
            c["seed"] = s
        return cs

    return [
        Engine(
            "codec",
            gen_codec,
            run_codec,
            kind="E1",
            rule="2 base transactions (legacy, segwit) x every single deviation of the field alphabets (every push length 0..520, "
            "push pairs over {0,1,74,75,76,255,256,520}^2, every non-push opcode byte, templates, counts 0..5/250..256/300, witness shapes, "
            "integer boundaries); thorough adds every pair of deviations over reduced alphabets. Non-trivial = deviates from the base; "
            "oracle = independent wire encoder, both directions, byte-exact",
        ),
        Engine(
            "idhist",
            gen_idhist,
            run_idhist,
            kind="E2",
            rule="every history of <= 3 (thorough 4) events on ONE Tx object (legacy-flagged and segwit-flagged): queries {id, hash, serialize, repr} and edits {locktime, sequence, outpoint, scriptSig via finalize_p2pkh, output amount, append/remove output, version, witness of input 0/1}; every query must equal the reference value for the current content (so the id changes with every non-witness edit, ignores witness edits, and no earlier query leaves stale state)",
        ),
        Engine(
            "fetch",
            fetch_cases,
            run_fetch,
            kind="E2",
            rule="fetch histories (depth 1 with every single-byte mutation of the honest answer x {1,0x80,0xff} quick / all 255 thorough; depth 2..3 over "
            "3 ids x 4 answers x fresh flag) on one shared TxFetcher.cache with urlopen replaced by an enumerated server; invariant: every "
            "call raises or returns a Tx whose id() is the requested id. Non-trivial = history containing a dishonest answer",
        ),
    ]
