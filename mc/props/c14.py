"""C14 — BIP39 mnemonics encode entropy+checksum exactly, acceptance is "valid length and checksum", seeds follow
PBKDF2-HMAC-SHA512(2048, "mnemonic"+passphrase) followed by BIP32 master derivation.

Engines (all enumerate their stated space completely; `seed` only picks filler entropies):
  wordlist  E1  every word, every prefix of every word (1..len letters), the list itself: token -> index
  encode    E1  5 entropy lengths x (boundary entropies, every single bit set / cleared, every 11-bit value in
                every word window of a base entropy): words == reference, decode(words) == entropy (3 spellings)
  accept    E1  base sentence x every position x every one of the 2048 words x 3 spellings:
                mnemonic_to_bytes accepts  <=>  reference accepts, decoded bytes equal
  pairs     E1  12-word (thorough also 24-word) base x (position p, last position) x 2048 x 2048 double substitutions
  lengths   E1  every sentence length 0..Lmax by truncation/extension x every last word: valid length and
                checksum <=> accepted (mnemonic_to_bytes; HDPrivateKey.from_mnemonic on one sentence per length)
  accept_hd E1  HDPrivateKey.from_mnemonic over every word at chosen positions: accepted <=> reference
                accepts, and the accepted ones give the reference xprv
  seed      E1  sentences x spellings x passphrases x networks: xprv / secret / chain code == reference
  pbkdf2    E2  the vendored PBKDF2 object: every history of read sizes (depth <= 3) x iterations x hash x
                (password, salt) alphabet == hashlib.pbkdf2_hmac stream; helper.hmac_sha512_kdf
  generate  E1  secure_mnemonic with `randbits` and `time` replaced by enumerated values: output is a valid
                sentence of the requested size
"""
import hashlib
import hmac
import itertools

from mc.core import Engine, Res, attempt, Rejected, filler
from mc.ref import bip39ref as R

PROP = "C14"
ENT = R.ENT_BYTES  # (16, 20, 24, 28, 32)
FORMS = ("full", "prefix", "mixed")


def nwords(nbytes):
    return nbytes // 4 * 3


# ---------------------------------------------------------------- entropies and spellings
def base_entropy(seed, nbytes, k):
    """k: 'zero' | 'ones' | 'msb' | 'f<i>' (seed-dependent filler)."""
    if k == "zero":
        return bytes(nbytes)
    if k == "ones":
        return b"\xff" * nbytes
    if k == "msb":
        return b"\x80" + bytes(nbytes - 1)
    if k == "lsb":
        return bytes(nbytes - 1) + b"\x01"
    if k == "7f":
        return b"\x7f" + b"\xff" * (nbytes - 1)
    if k == "fe":
        return b"\xff" * (nbytes - 1) + b"\xfe"
    if k.startswith("f"):
        return filler(seed, "c14-entropy", int(k[1:]) * 64 + nbytes, nbytes)
    raise ValueError(k)


def spell(words, form):
    """words: full words.  prefix: first four letters of every word (words of <= 4 letters are their own
    prefix); mixed: even positions abbreviated, odd positions full."""
    if form == "full":
        return list(words)
    if form == "prefix":
        return [w[:4] for w in words]
    if form == "mixed":
        return [w[:4] if i % 2 == 0 else w for i, w in enumerate(words)]
    raise ValueError(form)


def spell_one(word, form, pos):
    if form == "full" or (form == "mixed" and pos % 2 == 1):
        return word
    return word[:4]


def same(got, exp):
    """impl result vs reference result (None = not accepted)."""
    if exp is None:
        return isinstance(got, Rejected) or got is None or got is False
    return isinstance(got, (bytes, bytearray)) and bytes(got) == exp


def cls_accept(got, exp):
    if exp is None:
        return "accepted-invalid-checksum"
    if isinstance(got, Rejected) or got is None:
        return "rejected-valid"
    return "decoded-bytes-differ"


# ---------------------------------------------------------------- wordlist
def gen_wordlist(tier, seed):
    cases = [{"k": "list"}]
    step = 16
    cases += [{"k": "words", "lo": i, "hi": i + step} for i in range(0, 2048, step)]
    return cases


def run_wordlist(case):
    from buidl.mnemonic import BIP39

    res = Res()
    vc = {"engine": "wordlist", "case": case}
    if case["k"] == "list":
        got = attempt(lambda: list(BIP39))
        if got != R.WORDS:
            res.violation("C14/wordlist/list-differs", vc, str(got)[:200], "the 2048 BIP39 English words in order", "iterating BIP39 does not give the specification word list")
        else:
            res.ok("list==ref", nontrivial="list")
        got = attempt(lambda: [BIP39[i] for i in range(2048)])
        if got != R.WORDS:
            res.violation("C14/wordlist/index-to-word", vc, str(got)[:200], "word i", "BIP39[i] is not the i-th word")
        else:
            res.ok("index->word==ref", nontrivial="i2w")
        for bad in (2048, "", "abandonabandon"):
            g = attempt(BIP39.__getitem__, bad)
            if not isinstance(g, Rejected):
                if bad == 2048:
                    res.violation("C14/wordlist/index-2048", vc, g, "rejected", "index 2048 resolves")
                else:
                    res.skip("token outside the word list resolves (not asserted)")
            else:
                res.ok("out-of-list rejected")
        return res
    for i in range(case["lo"], case["hi"]):
        w = R.WORDS[i]
        seen = set()
        for L in range(1, len(w) + 1):
            tok = w[:L]
            if tok in seen:
                continue
            seen.add(tok)
            exp = R.resolve(tok)
            got = attempt(BIP39.__getitem__, tok)
            kind = "word" if tok in R.INDEX else "prefix4"
            if exp is not None:
                if got != exp:
                    res.violation(
                        f"C14/wordlist/{'full-word' if tok in R.INDEX else 'prefix4'}/len{len(w)}",
                        vc, got, exp, f"token {tok!r} (word {w!r}) does not resolve to its index",
                    )
                else:
                    res.ok(f"{'full-word' if tok in R.INDEX else 'prefix4'} resolves", nontrivial=("tok", tok), sample={"token": tok, "index": exp} if tok == "divo" else None)
                if tok in R.INDEX or L == 4:
                    n = attempt(BIP39.normalize, tok)
                    if n != R.WORDS[exp]:
                        res.violation(f"C14/wordlist/normalize/{kind}", vc, n, R.WORDS[exp], f"normalize({tok!r})")
                    else:
                        res.ok("normalize==full word")
            else:
                # neither a word nor a four-letter prefix: outside the statement's alphabet; only soundness:
                # if the library resolves it, it must be an unambiguous prefix resolved to that very word
                if isinstance(got, Rejected):
                    res.ok("non-denoting prefix rejected", nontrivial=("tok", tok))
                else:
                    c = R.candidates(tok)
                    if c == [got]:
                        res.ok("non-4-letter unambiguous prefix resolved to its word (benign)", nontrivial=("tok", tok))
                    else:
                        res.violation(
                            f"C14/wordlist/ambiguous-prefix-resolves/len{L}", vc, {"token": tok, "resolved": got}, {"candidates": c[:6]},
                            f"token {tok!r} denotes {len(c)} words but resolves to index {got}",
                        )
        g = attempt(lambda: w in BIP39)
        if g is not True:
            res.violation("C14/wordlist/contains", vc, g, True, f"{w!r} in BIP39")
        else:
            res.ok("contains")
    return res


# ---------------------------------------------------------------- encode
def encode_bases(tier):
    return ["f0"] if tier == "quick" else ["zero", "ones", "f0", "f1", "f2", "f3"]


def gen_encode(tier, seed):
    cases = []
    for n in ENT:
        for k in ("zero", "ones", "msb", "lsb", "7f", "fe"):
            cases.append({"k": "one", "n": n, "e": base_entropy(seed, n, k).hex(), "nm": k})
        for i in range(8 if tier == "quick" else 64):
            cases.append({"k": "one", "n": n, "e": base_entropy(seed, n, f"f{i}").hex(), "nm": "filler"})
        for bit in range(n * 8):
            v = 1 << (n * 8 - 1 - bit)
            cases.append({"k": "one", "n": n, "e": v.to_bytes(n, "big").hex(), "nm": "bit-set"})
            cases.append({"k": "one", "n": n, "e": (v ^ ((1 << (n * 8)) - 1)).to_bytes(n, "big").hex(), "nm": "bit-cleared"})
        for b in encode_bases(tier):
            for p in range(nwords(n)):
                cases.append({"k": "window", "n": n, "base": b, "p": p, "seed": seed})
    return cases


def check_entropy(res, vc, e, nm, bulk=None):
    """One entropy through the library in both directions and all spellings.  Returns number of comparisons."""
    from buidl.mnemonic import bytes_to_mnemonic, mnemonic_to_bytes

    n = len(e)
    words = R.encode(e)
    exp = " ".join(words)
    got = attempt(bytes_to_mnemonic, e, n * 8)
    bad = 0
    if got != exp:
        bad += 1
        # which word is wrong first: separates checksum (last word) from packing errors
        gw = got.split(" ") if isinstance(got, str) else []
        if isinstance(got, Rejected):
            cl = "rejected"
        elif len(gw) != len(words):
            cl = "word-count"
        else:
            diff = [i for i in range(len(words)) if gw[i] != words[i]]
            cl = "checksum-word" if diff == [len(words) - 1] else "entropy-words"
        res.violation(f"C14/encode/words/{cl}/n{n}", vc, got, exp, f"bytes_to_mnemonic differs from BIP39 for entropy {e.hex()} ({nm})")
    full_bad = False
    for form in FORMS:
        toks = spell(words, form)
        back = attempt(mnemonic_to_bytes, " ".join(toks))
        if not same(back, e):
            bad += 1
            if form == "full":
                full_bad = True
            elif full_bad:
                continue  # same failure already reported for the full spelling
            res.violation(
                f"C14/encode/decode/{'rejected' if isinstance(back, Rejected) else 'bytes-differ'}/n{n}/{'full' if form == 'full' else 'abbrev'}",
                vc, back, e, f"mnemonic_to_bytes of the reference sentence ({form} spelling) for entropy {e.hex()} ({nm})",
            )
    return 4 - bad


def run_encode(case):
    res = Res()
    vc = {"engine": "encode", "case": case}
    n = case["n"]
    if case["k"] == "one":
        e = bytes.fromhex(case["e"])
        good = check_entropy(res, vc, e, case["nm"])
        if good:
            res.ok("words==ref & decodes", nontrivial=("e", case["e"]), n=good, sample={"entropy": case["e"], "words": R.encode(e)[:3] + ["..."]} if case["nm"] == "msb" else None)
        return res
    base = base_entropy(case["seed"], n, case["base"])
    bits = R.bits_of(base) + R.checksum_bits(base)
    p = case["p"]
    entb = n * 8
    seen = set()
    good = 0
    for v in range(2048):
        nb = (bits[: 11 * p] + format(v, "011b") + bits[11 * p + 11 :])[:entb]
        if nb in seen:  # last window: only its entropy part matters
            continue
        seen.add(nb)
        e = R.bytes_of(nb)
        if e == base and p > 0:
            continue  # the base itself is counted once, in window 0
        good += check_entropy(res, vc, e, f"window{p}={v}")
    # distinct by construction: different (n, base, window, value) give different entropies
    res.bulk("words==ref & decodes", good, good // 4)
    return res


# ---------------------------------------------------------------- accept (single substitutions)
def accept_bases(tier):
    return ["zero", "f0"] if tier == "quick" else ["zero", "ones", "f0", "f1", "f2", "f3", "f4", "f5"]


def gen_accept(tier, seed):
    cases = []
    for n in ENT:
        for b in accept_bases(tier):
            for p in range(nwords(n)):
                for form in FORMS:
                    cases.append({"n": n, "base": b, "p": p, "form": form, "seed": seed})
    return cases


def run_accept(case):
    from buidl.mnemonic import mnemonic_to_bytes

    res = Res()
    vc = {"engine": "accept", "case": case}
    n, p, form = case["n"], case["p"], case["form"]
    words = R.encode(base_entropy(case["seed"], n, case["base"]))
    toks = spell(words, form)
    acc = rej = 0
    for wi, w in enumerate(R.WORDS):
        t = list(toks)
        t[p] = spell_one(w, form, p)
        exp = R.decode(t)
        got = attempt(mnemonic_to_bytes, " ".join(t))
        if same(got, exp):
            if exp is None:
                rej += 1
            else:
                acc += 1
        else:
            sp = "full"
            if form != "full":
                tf = list(words)
                tf[p] = w
                if same(attempt(mnemonic_to_bytes, " ".join(tf)), R.decode(tf)):
                    sp = "abbrev"  # the same sentence spelled with full words is handled correctly
            res.violation(
                f"C14/accept/{cls_accept(got, exp)}/{sp}",
                vc, {"word": w, "got": got}, exp, f"substituting word {wi} ({w!r}) at position {p} of {len(toks)} ({form} spelling)",
            )
    base_hit = 1  # one of the 2048 is the base sentence itself
    res.bulk("accepted==ref (checksum matches)", acc, max(0, acc - base_hit))
    res.bulk("rejected==ref (checksum differs)", rej, rej)
    return res


# ---------------------------------------------------------------- pairs (double substitutions)
def gen_pairs(tier, seed):
    cases = []
    n = 16
    last = nwords(n) - 1
    ps = [0] if tier == "quick" else list(range(last))
    for p in ps:
        for w1 in range(0, 2048, 4):
            # quick: every 4th word at position p (512 words) x all 2048 last words
            cases.append({"n": n, "base": "f0", "p": p, "q": last, "w1lo": w1, "w1hi": w1 + (1 if tier == "quick" else 4), "seed": seed})
    if tier == "thorough":
        for n, ps in ((32, [0, nwords(32) - 2]),):
            last = nwords(n) - 1
            for p in ps:
                for w1 in range(0, 2048, 4):
                    cases.append({"n": n, "base": "f0", "p": p, "q": last, "w1lo": w1, "w1hi": w1 + 4, "seed": seed})
    return cases


def run_pairs(case):
    from buidl.mnemonic import mnemonic_to_bytes

    res = Res()
    vc = {"engine": "pairs", "case": case}
    n, p, q = case["n"], case["p"], case["q"]
    words = R.encode(base_entropy(case["seed"], n, case["base"]))
    acc = rej = 0
    for w1 in range(case["w1lo"], case["w1hi"]):
        t = list(words)
        t[p] = R.WORDS[w1]
        for w2 in R.WORDS:
            t[q] = w2
            exp = R.decode(t)
            got = attempt(mnemonic_to_bytes, " ".join(t))
            if same(got, exp):
                if exp is None:
                    rej += 1
                else:
                    acc += 1
            else:
                res.violation(f"C14/pairs/{cls_accept(got, exp)}/n{n}", vc, {"w1": R.WORDS[w1], "w2": w2, "got": got}, exp, f"double substitution at positions {p},{q}")
    res.bulk("accepted==ref (checksum matches)", acc, acc)
    res.bulk("rejected==ref (checksum differs)", rej, rej)
    return res


# ---------------------------------------------------------------- lengths
def gen_lengths(tier, seed):
    lmax = 27 if tier == "quick" else 50
    cases = []
    for n in ENT:
        for b in (["f0"] if tier == "quick" else ["zero", "f0", "f1"]):
            for L in range(0, lmax + 1):
                cases.append({"n": n, "base": b, "L": L, "seed": seed})
    return cases


def len_class(L):
    return f"{'short' if L < 12 else 'long' if L > 24 else 'mid'},L%3={L % 3}"


def run_lengths(case):
    from buidl.hd import HDPrivateKey
    from buidl.mnemonic import mnemonic_to_bytes

    res = Res()
    vc = {"engine": "lengths", "case": case}
    n, L = case["n"], case["L"]
    words = R.encode(base_entropy(case["seed"], n, case["base"]))
    seq = (words * 6)[:L]
    valid_len = L in R.WORD_COUNTS
    if L == 0:
        for s in ("", " ", "\n"):
            got = attempt(mnemonic_to_bytes, s)
            if not same(got, None):
                res.violation("C14/lengths/accepted-invalid-length/empty", vc, got, None, "empty sentence accepted")
            else:
                res.ok("invalid length rejected", nontrivial=("empty", s))
        return res
    acc = rej = 0
    for w in R.WORDS:
        t = seq[:-1] + [w]
        exp = R.decode(t)
        got = attempt(mnemonic_to_bytes, " ".join(t))
        if same(got, exp):
            if exp is None:
                rej += 1
            else:
                acc += 1
        elif not valid_len:
            res.violation(f"C14/lengths/accepted-invalid-length/{len_class(L)}", vc, {"last": w, "got": got}, None, f"{L}-word sentence accepted")
        else:
            res.violation(f"C14/lengths/{cls_accept(got, exp)}/L{L}", vc, {"last": w, "got": got}, exp, f"{L}-word sentence, last word {w!r}")
    res.bulk("accepted==ref (valid length, checksum matches)", acc, acc if L != len(words) else max(0, acc - 1))
    res.bulk("rejected==ref (valid length, checksum differs)" if valid_len else "rejected==ref (invalid length)", rej, rej)
    # the key-derivation entry point on one sentence per length
    exp = R.decode(seq)
    got = attempt(lambda: HDPrivateKey.from_mnemonic(" ".join(seq)).xprv())
    if exp is None:
        if not isinstance(got, Rejected):
            res.violation(
                f"C14/lengths/from_mnemonic-accepted-invalid-{'checksum' if valid_len else 'length/' + len_class(L)}", vc, got, None,
                f"HDPrivateKey.from_mnemonic accepts an invalid {L}-word sentence",
            )
        else:
            res.ok("from_mnemonic rejects invalid sentence", nontrivial=("hdlen", n, case["base"], L))
    else:
        ex = R.xprv(R.seed(seq, b""))
        if got != ex:
            res.violation(f"C14/lengths/from_mnemonic-valid/{'rejected' if isinstance(got, Rejected) else 'xprv-differs'}", vc, got, ex, f"valid {L}-word sentence: wrong key or rejected")
        else:
            res.ok("from_mnemonic xprv==ref", nontrivial=("hdlen", n, case["base"], L))
    return res


# ---------------------------------------------------------------- accept_hd
def gen_accept_hd(tier, seed):
    cases = []
    plan = []
    for n in ENT:
        last = nwords(n) - 1
        plan.append((n, "f0", last, "full"))
    plan += [(16, "f0", 0, "full"), (16, "f0", 11, "prefix"), (32, "f0", 0, "mixed")]
    if tier == "thorough":
        for n in ENT:
            last = nwords(n) - 1
            plan += [(n, "f1", last, "prefix"), (n, "f1", last // 2, "mixed"), (n, "zero", last, "mixed"), (n, "f2", 0, "full")]
        plan += [(16, "f3", p, "full") for p in range(12)]
    for n, b, p, form in plan:
        step = 32 if n == 16 else 128
        for lo in range(0, 2048, step):
            cases.append({"n": n, "base": b, "p": p, "form": form, "lo": lo, "hi": lo + step, "seed": seed})
    return cases


def run_accept_hd(case):
    from buidl.hd import HDPrivateKey

    res = Res()
    vc = {"engine": "accept_hd", "case": case}
    n, p, form = case["n"], case["p"], case["form"]
    words = R.encode(base_entropy(case["seed"], n, case["base"]))
    toks = spell(words, form)
    for wi in range(case["lo"], case["hi"]):
        w = R.WORDS[wi]
        t = list(toks)
        t[p] = spell_one(w, form, p)
        exp = R.decode(t)
        got = attempt(lambda: HDPrivateKey.from_mnemonic(" ".join(t)).xprv())
        if exp is None:
            if isinstance(got, Rejected):
                res.ok("from_mnemonic rejects (checksum differs)", nontrivial=("hd", n, case["base"], p, form, wi))
            else:
                res.violation("C14/accept_hd/accepted-invalid-checksum", vc, {"word": w, "got": got}, None, f"HDPrivateKey.from_mnemonic accepts a {len(t)}-word sentence whose checksum is wrong ({form} spelling)")
        else:
            ex = R.xprv(R.seed(t, b""))
            if got == ex:
                res.ok("from_mnemonic accepts, xprv==ref", nontrivial=("hd", n, case["base"], p, form, wi), sample={"sentence": t[:2] + ["..."] + t[-1:], "xprv": ex[:16] + "..."} if wi % 512 < 64 else None)
                continue
            sp = "full"
            if form != "full":
                tf = R.full_words(t)
                if attempt(lambda: HDPrivateKey.from_mnemonic(" ".join(tf)).xprv()) == ex:
                    sp = "abbrev"  # the same sentence in full words is handled correctly
            if isinstance(got, Rejected):
                res.violation(f"C14/accept_hd/rejected-valid/{sp}", vc, {"word": w, "got": got}, ex, f"valid {len(t)}-word sentence ({form} spelling) rejected by from_mnemonic")
            else:
                res.violation(f"C14/accept_hd/xprv-differs/{sp}", vc, {"word": w, "got": got}, ex, f"valid substituted {len(t)}-word sentence ({form} spelling) gives a different master key")
    return res


# ---------------------------------------------------------------- seed
def passphrases(tier, seed):
    """name -> bytes"""
    pp = {
        "empty": b"",
        "TREZOR": b"TREZOR",
        "utf8-nfkd": "pässwörd パス".encode("utf-8"),
        "raw-high": b"\xff\xfe\x80\x00\x01",
        "nul": b"\x00",
        "space": b" ",
        "len100": filler(seed, "c14-pp", 100, 100),
        "len200": filler(seed, "c14-pp", 200, 200),
    }
    if tier == "thorough":
        for L in (1, 99, 101, 107, 108, 116, 117, 119, 120, 128, 227, 228, 1000):
            pp[f"len{L}"] = filler(seed, "c14-pp", L, L)
        for b in range(256):
            pp[f"byte{b:02x}"] = bytes([b])
    return pp


def pp_class(name):
    if name.startswith("byte"):
        return "single-byte"
    if name.startswith("len"):
        return "long"
    return name


def gen_seed(tier, seed):
    cases = []
    pps = passphrases(tier, seed)
    ents = ["zero", "ones", "f0"] if tier == "quick" else ["zero", "ones", "msb", "f0", "f1", "f2"]
    for n in ENT:
        for b in ents:
            for form in FORMS:
                for name in pps:
                    if name.startswith("byte") and not (b == "f0" and form == "full" and n in (16, 32)):
                        continue
                    if tier == "quick" and form != "full" and name not in ("empty", "TREZOR", "raw-high"):
                        continue
                    nets = ["mainnet"]
                    if name in ("empty", "TREZOR") and form != "mixed":
                        nets.append("testnet")
                    for net in nets:
                        cases.append({"n": n, "base": b, "form": form, "pp": name, "net": net, "seed": seed})
    return cases


def run_seed(case):
    from buidl.hd import HDPrivateKey

    res = Res()
    vc = {"engine": "seed", "case": case}
    n = case["n"]
    pp = passphrases("thorough", case["seed"])[case["pp"]]
    toks = spell(R.encode(base_entropy(case["seed"], n, case["base"])), case["form"])
    sd = R.seed(toks, pp)
    m = R.master(sd)
    if m is None:
        res.skip("seed gives an invalid BIP32 master key (probability 2^-127)")
        return res
    exp = {"xprv": R.xprv(sd, case["net"]), "secret": m[0], "chain": m[1]}

    def observe(tokens, passphrase, net):
        k = attempt(HDPrivateKey.from_mnemonic, " ".join(tokens), passphrase, "m", net)
        if isinstance(k, Rejected):
            return k
        return attempt(lambda: {"xprv": k.xprv(), "secret": k.private_key.secret, "chain": bytes(k.chain_code)})

    def expect(tokens, passphrase, net):
        s_ = R.seed(tokens, passphrase)
        m_ = R.master(s_)
        return {"xprv": R.xprv(s_, net), "secret": m_[0], "chain": m_[1]}

    got = observe(toks, pp, case["net"])
    if got == exp:
        res.ok("xprv/secret/chain==ref", nontrivial=("seed", n, case["base"], case["form"], case["pp"], case["net"]), sample={"pp": case["pp"], "form": case["form"], "xprv": exp["xprv"][:20] + "..."} if case["pp"] == "utf8-nfkd" else None)
        return res
    # name the narrowest dimension that matters: undo one deviation at a time, towards (full words, empty passphrase, mainnet)
    full = R.full_words(toks)
    if case["form"] != "full" and observe(full, pp, case["net"]) == expect(full, pp, case["net"]):
        cause = "abbreviated-spelling"
    elif pp != b"" and observe(full, b"", case["net"]) == expect(full, b"", case["net"]):
        if pp != b"TREZOR" and observe(full, b"TREZOR", case["net"]) == expect(full, b"TREZOR", case["net"]):
            cause = f"passphrase-{pp_class(case['pp'])}"  # a plain ASCII passphrase works, this one does not
        else:
            cause = "passphrase-nonempty"
    elif case["net"] != "mainnet" and observe(full, b"", "mainnet") == expect(full, b"", "mainnet"):
        cause = f"network-{case['net']}"
    else:
        cause = "any-input"
    if isinstance(got, Rejected):
        res.violation(f"C14/seed/rejected/{cause}", vc, got, exp["xprv"], f"from_mnemonic refuses a valid {len(toks)}-word sentence")
        return res
    which = "+".join(k for k in ("secret", "chain", "xprv") if got.get(k) != exp[k]) if isinstance(got, dict) else "unreadable"
    res.violation(f"C14/seed/{which}/{cause}", vc, got, exp, f"master key of a {len(toks)}-word sentence differs from PBKDF2-HMAC-SHA512(2048, 'mnemonic'+passphrase) + BIP32 master derivation")
    return res


# ---------------------------------------------------------------- pbkdf2
def pw_alphabet(seed):
    return {
        "empty": b"",
        "p": b"p",
        "b64": filler(seed, "c14-pw", 64, 64),
        "b65": filler(seed, "c14-pw", 65, 65),
        "b128": filler(seed, "c14-pw", 128, 128),
        "b129": filler(seed, "c14-pw", 129, 129),
        "str-ascii": "correct horse battery staple",
        "str-utf8": "pässwördパ",
        "sentence24": " ".join(R.encode(filler(seed, "c14-pw", 32, 32))),
    }


def salt_alphabet(seed):
    return {
        "empty": b"",
        "salt": b"salt",
        "mnemonic": b"mnemonic",
        "b200": filler(seed, "c14-salt", 200, 200),
        "str-utf8": "mnemonicé",
    }


def as_bytes(x):
    return x.encode("utf-8") if isinstance(x, str) else x


def gen_pbkdf2(tier, seed):
    sizes = [1, 31, 64, 65] if tier == "quick" else [0, 1, 19, 20, 21, 31, 63, 64, 65, 128, 129]
    hists = []
    for d in (1, 2, 3):
        hists += [list(h) for h in itertools.product(sizes, repeat=d)]
    if tier == "quick":
        combos_small = [("p", "salt"), ("b129", "b200"), ("str-utf8", "str-utf8"), ("empty", "empty")]
        combos_2048 = [("sentence24", "mnemonic")]
    else:
        combos_small = [("p", "salt"), ("b129", "b200"), ("str-utf8", "str-utf8"), ("empty", "empty"), ("b64", "mnemonic"), ("b65", "salt"), ("b128", "empty"), ("str-ascii", "b200")]
        combos_2048 = [("sentence24", "mnemonic"), ("p", "salt")]
    cases = []
    for hn in ("sha1", "sha512", "default"):
        for it in (1, 2, 3, 2048):
            for pw, salt in combos_2048 if it == 2048 else combos_small:
                if hn == "default" and (it == 2048 or (pw, salt) != combos_small[0]):
                    continue
                for h in hists:
                    cases.append({"k": "reads", "hash": hn, "it": it, "pw": pw, "salt": salt, "hist": h, "seed": seed})
    # every (password, salt) pair once with a single long read, small iteration counts
    for hn in ("sha1", "sha512"):
        for it in (1, 2, 1000 if tier == "thorough" else 5):
            for pw in pw_alphabet(seed):
                for salt in salt_alphabet(seed):
                    cases.append({"k": "reads", "hash": hn, "it": it, "pw": pw, "salt": salt, "hist": [150], "seed": seed})
    # the helper used by from_mnemonic
    for pw in pw_alphabet(seed):
        for salt in salt_alphabet(seed):
            cases.append({"k": "kdf", "pw": pw, "salt": salt, "seed": seed})
    return cases


def run_pbkdf2(case):
    from buidl.pbkdf2 import PBKDF2

    res = Res()
    vc = {"engine": "pbkdf2", "case": case}
    pw = pw_alphabet(case["seed"])[case["pw"]]
    salt = salt_alphabet(case["seed"])[case["salt"]]
    if case["k"] == "kdf":
        from buidl.helper import hmac_sha512_kdf

        exp = hashlib.pbkdf2_hmac("sha512", as_bytes(pw), as_bytes(salt), 2048, 64)
        got = attempt(hmac_sha512_kdf, pw, salt)
        if got != exp:
            res.violation("C14/pbkdf2/hmac_sha512_kdf", vc, got, exp, "helper.hmac_sha512_kdf differs from PBKDF2-HMAC-SHA512 with 2048 rounds, 64 bytes")
        else:
            res.ok("hmac_sha512_kdf==hashlib", nontrivial=("kdf", case["pw"], case["salt"]))
        res.states += 1
        res.transitions += 1
        return res
    hn, it, hist = case["hash"], case["it"], case["hist"]
    total = sum(hist)
    ref_hash = "sha1" if hn == "default" else hn
    stream = hashlib.pbkdf2_hmac(ref_hash, as_bytes(pw), as_bytes(salt), it, total) if total else b""
    if it <= 3 and total:
        assert stream == R.pbkdf2_plain(ref_hash, as_bytes(pw), as_bytes(salt), it, total)
    if hn == "default":
        obj = attempt(PBKDF2, pw, salt, it)
    else:
        obj = attempt(PBKDF2, pw, salt, it, getattr(hashlib, hn), hmac)
    itc = "it=1" if it == 1 else "it>1"
    if isinstance(obj, Rejected):
        res.violation(f"C14/pbkdf2/construct/pw={case['pw']}/salt={case['salt']}", vc, obj, "object", "PBKDF2 constructor refuses the input")
        return res
    pos = 0
    for k, sz in enumerate(hist):
        exp = stream[pos : pos + sz]
        pos += sz
        got = attempt(obj.read, sz) if k % 2 == 0 or hn == "default" else attempt(lambda: bytes.fromhex(obj.hexread(sz)))
        res.states += 1
        res.transitions += 1
        if got != exp:
            blk = hashlib.new(ref_hash).digest_size
            crossed = "multi-block" if (pos - 1) // blk > 0 else "first-block"
            res.violation(
                f"C14/pbkdf2/read/{itc}/{'first-read' if k == 0 else 'later-read'}/{crossed}", vc,
                {"read": k, "got": got}, exp, f"{hn}, {it} iterations: read #{k} of {sz} bytes after {pos - sz} bytes differs from the PBKDF2 stream",
            )
            return res
    res.ok("all reads==hashlib stream", nontrivial=("rd", hn, it, case["pw"], case["salt"], tuple(hist)), sample={"hash": hn, "it": it, "hist": hist} if len(hist) == 3 and hist[0] == 31 and it == 2 else None)
    return res


# ---------------------------------------------------------------- generate
def gen_generate(tier, seed):
    cases = []
    for nb in (128, 160, 192, 224, 256):
        rs = {"0": 0, "1": 1, "max": (1 << nb) - 1, "msb": 1 << (nb - 1), "f": int.from_bytes(filler(seed, "c14-rand", nb, nb // 8), "big")}
        xs = {"0": 0, "1": 1, "max": (1 << nb) - 1, "2^nb": 1 << nb, "2^nb+1": (1 << nb) + 1, "2^512+3": (1 << 512) + 3}
        ts = [0.0, 1.0, 1758500000.123456] if tier == "quick" else [0.0, 1.0, 0.000001, 1758500000.123456, 4102444800.999999]
        for rn, r in rs.items():
            for xn, x in xs.items():
                for t in ts:
                    cases.append({"nb": nb, "r": str(r), "x": str(x), "t": t, "rn": rn, "xn": xn})
    return cases


def run_generate(case):
    import buidl.mnemonic as bm

    res = Res()
    vc = {"engine": "generate", "case": case}
    nb, r, x, t = case["nb"], int(case["r"]), int(case["x"]), case["t"]
    old = (bm.randbits, bm.time)
    bm.randbits = lambda k: r if k == nb else 0
    bm.time = lambda: t
    try:
        got = attempt(bm.secure_mnemonic, nb, x)
    finally:
        bm.randbits, bm.time = old
    if isinstance(got, Rejected):
        res.violation(f"C14/generate/raised/{'extra>=2^n' if x >> nb else 'extra<2^n'}", vc, got, "a sentence", f"secure_mnemonic({nb}, extra_entropy={case['xn']}) with randbits={case['rn']} fails")
        return res
    toks = got.split(" ") if isinstance(got, str) else []
    e = R.decode(toks)
    if e is None or len(e) * 8 != nb or any(tk not in R.INDEX for tk in toks):
        res.violation("C14/generate/invalid-sentence", vc, got, f"valid BIP39 sentence for {nb} bits", "secure_mnemonic returns a sentence that is not valid BIP39 of the requested size")
        return res
    xm = x & ((1 << nb) - 1) if x.bit_length() > nb else x
    formula = (r ^ xm ^ int(t * 1_000_000)) == int.from_bytes(e, "big")
    res.ok("valid sentence of requested size" + (", entropy = randbits^extra^time" if formula else ", entropy differs from randbits^extra^time (not asserted)"), nontrivial=("gen", nb, case["rn"], case["xn"], t))
    return res


# ---------------------------------------------------------------- registry
def engines(tier, seed):
    return [
        Engine(
            "wordlist", gen_wordlist, run_wordlist, kind="E1",
            rule="all 2048 words x every prefix length 1..len(word) (deduplicated tokens) through BIP39[...]/normalize/in, plus the whole "
            "list by iteration and by index; oracle = embedded specification list (SHA-256 pinned): full words and 4-letter prefixes must "
            "resolve to their index, any other prefix may only resolve if it denotes exactly one word. Non-trivial = distinct token",
        ),
        Engine(
            "encode", gen_encode, run_encode, kind="E1",
            rule="entropy lengths 16/20/24/28/32 bytes x {00.., ff.., 80 00.., 00..01, 7f ff.., ff..fe, fillers, every single bit set, every single "
            "bit cleared, and for each base entropy every word window x every 11-bit value}: bytes_to_mnemonic == reference words, "
            "mnemonic_to_bytes(words) == entropy in full / 4-letter-prefix / mixed spelling (4 comparisons per entropy). Non-trivial = distinct entropy",
        ),
        Engine(
            "accept", gen_accept, run_accept, kind="E1",
            rule="base sentences (5 lengths x base entropies) x every position x every one of the 2048 words x 3 spellings: mnemonic_to_bytes "
            "accepts <=> reference checksum rule accepts, decoded bytes equal. Non-trivial = substituted sentence differs from the base",
        ),
        Engine(
            "pairs", gen_pairs, run_pairs, kind="E1",
            rule="12-word base x position pair (p, last) x 2048 x 2048 double substitutions: accepted <=> reference accepts, bytes equal. quick p=0 with every 4th word (512) x all 2048 last words; "
            "thorough every p < last, plus the 24-word base with p=0 and p=22. Non-trivial = every pair (distinct by construction)",
        ),
        Engine(
            "lengths", gen_lengths, run_lengths, kind="E1",
            rule="5 base sentences x every length 0..27 (thorough 0..50, 3 bases) obtained by truncating/repeating the base x every last word: "
            "accepted <=> length in {12,15,18,21,24} and checksum matches (mnemonic_to_bytes on all, HDPrivateKey.from_mnemonic on one per length). "
            "Non-trivial = length differs from the base's or last word substituted",
        ),
        Engine(
            "accept_hd", gen_accept_hd, run_accept_hd, kind="E1",
            rule="HDPrivateKey.from_mnemonic on every one of the 2048 words at the last position of a base sentence of each length, and at further positions/"
            "spellings: raises <=> reference rejects; accepted ones give the reference xprv. Non-trivial = each substituted sentence",
        ),
        Engine(
            "seed", gen_seed, run_seed, kind="E1",
            rule="5 lengths x base entropies x 3 spellings x passphrases {empty, TREZOR, NFKD UTF-8, raw high bytes, NUL, space, 100, 200 bytes; thorough: "
            "boundary lengths and every single byte value} x networks: xprv, secret and chain code == hashlib.pbkdf2_hmac(sha512, sentence, "
            "'mnemonic'+passphrase, 2048) + reference BIP32 master. Non-trivial = each case",
        ),
        Engine(
            "pbkdf2", gen_pbkdf2, run_pbkdf2, kind="E2",
            rule="vendored PBKDF2 object as a state machine: every history of read()/hexread() sizes of depth <= 3 over {1,31,64,65} (thorough "
            "{0,1,19,20,21,31,63,64,65,128,129}) x iterations {1,2,3,2048} x SHA-1/SHA-512/default x (password, salt) alphabet incl. empty, > block size, "
            "str (UTF-8) inputs: each read equals the corresponding slice of hashlib.pbkdf2_hmac; plus helper.hmac_sha512_kdf over the alphabet. "
            "states/transitions = reads executed",
        ),
        Engine(
            "generate", gen_generate, run_generate, kind="E1",
            rule="secure_mnemonic with buidl.mnemonic.randbits/time replaced by enumerated values: 5 sizes x randbits {0,1,max,msb,filler} x extra_entropy "
            "{0,1,max,2^n,2^n+1,2^512+3} x clock values: result is a valid reference BIP39 sentence of the requested size made of full words",
        ),
    ]
