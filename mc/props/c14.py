"""C14 — BIP39 mnemonics encode entropy+checksum exactly, acceptance is "valid length and checksum", seeds follow
PBKDF2-HMAC-SHA512(2048, "mnemonic"+passphrase) followed by BIP32 master derivation.

Engines (all enumerate their stated space completely; `seed` only picks filler entropies):
  wordlist  E1  every word, every prefix of every word (1..len letters), the list itself: token -> index
  encode    E1  5 entropy lengths x (boundary entropies, every single bit set / cleared, every 11-bit value in
                every word window of a base entropy): words == reference, decode(words) == entropy (3 spellings)
  accept    E1  base sentence x every position x every one of the 2048 words x 3 spellings:
                mnemonic_to_bytes accepts  <=>  reference accepts, decoded bytes equal
  pairs     E1  12-word (thorough also 24-word) base x (position p, last position) x 2048 x 2048 double substitutions
  lengths   E1  every sentence length 0..Lmax by truncation/extension x every last word: valid length and
                checksum <=> accepted (mnemonic_to_bytes; HDPrivateKey.from_mnemonic on one sentence per length)
  accept_hd E1  HDPrivateKey.from_mnemonic over every word at chosen positions: accepted <=> reference
                accepts, and the accepted ones give the reference xprv
  seed      E1  sentences x spellings x passphrases x networks: xprv / secret / chain code == reference
  pbkdf2    E2  the vendored PBKDF2 object: every history of read sizes (depth <= 3) x iterations x hash x
                (password, salt) alphabet == hashlib.pbkdf2_hmac stream; helper.hmac_sha512_kdf
  generate  E1  secure_mnemonic with `randbits` and `time` replaced by enumerated values: output is a valid
                sentence of the requested size; invalid sizes rejected; every bit of the random source matters
  separators E1 the same token sequence written with other separators / surrounding white space: whatever the
                library accepts decodes / derives like the single-space sentence; invalid ones stay rejected
  tokens    E1  checksum-valid sentences in which one token is replaced by a string that is neither a word nor
                a four-letter prefix (proper prefixes, word+'x', case variants): not accepted as another sentence
  hd_args   E1  HDPrivateKey.from_mnemonic with non-default password / network / path / version bytes:
                rejection is independent of them, accepted ones give the reference key
  generate_hd E1 HDPrivateKey.generate with enumerated randomness: returned sentence valid, returned key is the
                reference key of that sentence with the given password and network
  seedpicker E1 calc_valid_seedpicker_checksums: yields exactly the last words the reference accepts
Further case kinds inside the engines above: encode/badsize (entropy sizes 0..40 bytes outside the five valid
ones are rejected), seed/strpp (str passphrases: rejected, or the NFKD UTF-8 reference), pbkdf2/duo (two live
objects, interleaved reads), pbkdf2/sweep + kdfsweep (every password / salt length 0..260), pairs/grid + triple
(thorough: substitutions at arbitrary position pairs / triples).
"""
import hashlib
import hmac
import itertools
import unicodedata

from mc.core import Engine, Res, attempt, Rejected, filler
from mc.ref import bip39ref as R
from mc.ref import bip32ref as B32

PROP = "C14"
ENT = R.ENT_BYTES  # (16, 20, 24, 28, 32)
FORMS = ("full", "prefix", "mixed")


def nwords(nbytes):
    return nbytes // 4 * 3


# ---------------------------------------------------------------- entropies and spellings
def base_entropy(seed, nbytes, k):
    """k: 'zero' | 'ones' | 'msb' | 'f<i>' (seed-dependent filler)."""
    if k == "zero":
        return bytes(nbytes)
    if k == "ones":
        return b"\xff" * nbytes
    if k == "msb":
        return b"\x80" + bytes(nbytes - 1)
    if k == "lsb":
        return bytes(nbytes - 1) + b"\x01"
    if k == "7f":
        return b"\x7f" + b"\xff" * (nbytes - 1)
    if k == "fe":
        return b"\xff" * (nbytes - 1) + b"\xfe"
    if k.startswith("f"):
        return filler(seed, "c14-entropy", int(k[1:]) * 64 + nbytes, nbytes)
    raise ValueError(k)


def spell(words, form):
    """words: full words.  prefix: first four letters of every word (words of <= 4 letters are their own
    prefix); mixed: even positions abbreviated, odd positions full."""
    if form == "full":
        return list(words)
    if form == "prefix":
        return [w[:4] for w in words]
    if form == "mixed":
        return [w[:4] if i % 2 == 0 else w for i, w in enumerate(words)]
    raise ValueError(form)


def spell_one(word, form, pos):
    if form == "full" or (form == "mixed" and pos % 2 == 1):
        return word
    return word[:4]


def same(got, exp):
    """impl result vs reference result (None = not accepted)."""
    if exp is None:
        return isinstance(got, Rejected) or got is None or got is False
    return isinstance(got, (bytes, bytearray)) and bytes(got) == exp


def cls_accept(got, exp):
    if exp is None:
        return "accepted-invalid-checksum"
    if isinstance(got, Rejected) or got is None:
        return "rejected-valid"
    return "decoded-bytes-differ"


# ---------------------------------------------------------------- wordlist
def gen_wordlist(tier, seed):
    cases = [{"k": "list"}]
    step = 16
    cases += [{"k": "words", "lo": i, "hi": i + step} for i in range(0, 2048, step)]
    return cases


def run_wordlist(case):
    from buidl.mnemonic import BIP39

    res = Res()
    vc = {"engine": "wordlist", "case": case}
    if case["k"] == "list":
        got = attempt(lambda: list(BIP39))
        if got != R.WORDS:
            res.violation("C14/wordlist/list-differs", vc, str(got)[:200], "the 2048 BIP39 English words in order", "iterating BIP39 does not give the specification word list")
        else:
            res.ok("list==ref", nontrivial="list")
        got = attempt(lambda: [BIP39[i] for i in range(2048)])
        if got != R.WORDS:
            res.violation("C14/wordlist/index-to-word", vc, str(got)[:200], "word i", "BIP39[i] is not the i-th word")
        else:
            res.ok("index->word==ref", nontrivial="i2w")
        for bad in (2048, "", "abandonabandon"):
            g = attempt(BIP39.__getitem__, bad)
            if not isinstance(g, Rejected):
                if bad == 2048:
                    res.violation("C14/wordlist/index-2048", vc, g, "rejected", "index 2048 resolves")
                else:
                    res.skip("token outside the word list resolves (not asserted)")
            else:
                res.ok("out-of-list rejected")
        return res
    for i in range(case["lo"], case["hi"]):
        w = R.WORDS[i]
        seen = set()
        for L in range(1, len(w) + 1):
            tok = w[:L]
            if tok in seen:
                continue
            seen.add(tok)
            exp = R.resolve(tok)
            got = attempt(BIP39.__getitem__, tok)
            kind = "word" if tok in R.INDEX else "prefix4"
            if exp is not None:
                if got != exp:
                    res.violation(
                        f"C14/wordlist/{'full-word' if tok in R.INDEX else 'prefix4'}/len{len(w)}",
                        vc, got, exp, f"token {tok!r} (word {w!r}) does not resolve to its index",
                    )
                else:
                    res.ok(f"{'full-word' if tok in R.INDEX else 'prefix4'} resolves", nontrivial=("tok", tok), sample={"token": tok, "index": exp} if tok == "divo" else None)
                if tok in R.INDEX or L == 4:
                    n = attempt(BIP39.normalize, tok)
                    if n != R.WORDS[exp]:
                        res.violation(f"C14/wordlist/normalize/{kind}", vc, n, R.WORDS[exp], f"normalize({tok!r})")
                    else:
                        res.ok("normalize==full word")
            else:
                # neither a word nor a four-letter prefix: outside the statement's alphabet; only soundness:
                # if the library resolves it, it must be an unambiguous prefix resolved to that very word
                if isinstance(got, Rejected):
                    res.ok("non-denoting prefix rejected", nontrivial=("tok", tok))
                else:
                    c = R.candidates(tok)
                    if c == [got]:
                        res.ok("non-4-letter unambiguous prefix resolved to its word (benign)", nontrivial=("tok", tok))
                    else:
                        res.violation(
                            f"C14/wordlist/ambiguous-prefix-resolves/len{L}", vc, {"token": tok, "resolved": got}, {"candidates": c[:6]},
                            f"token {tok!r} denotes {len(c)} words but resolves to index {got}",
                        )
        g = attempt(lambda: w in BIP39)
        if g is not True:
            res.violation("C14/wordlist/contains", vc, g, True, f"{w!r} in BIP39")
        else:
            res.ok("contains")
    return res


# ---------------------------------------------------------------- encode
def encode_bases(tier):
    return ["f0"] if tier == "quick" else ["zero", "ones", "f0", "f1", "f2", "f3"]


def gen_encode(tier, seed):
    cases = []
    for n in ENT:
        for k in ("zero", "ones", "msb", "lsb", "7f", "fe"):
            cases.append({"k": "one", "n": n, "e": base_entropy(seed, n, k).hex(), "nm": k})
        for i in range(8 if tier == "quick" else 64):
            cases.append({"k": "one", "n": n, "e": base_entropy(seed, n, f"f{i}").hex(), "nm": "filler"})
        for bit in range(n * 8):
            v = 1 << (n * 8 - 1 - bit)
            cases.append({"k": "one", "n": n, "e": v.to_bytes(n, "big").hex(), "nm": "bit-set"})
            cases.append({"k": "one", "n": n, "e": (v ^ ((1 << (n * 8)) - 1)).to_bytes(n, "big").hex(), "nm": "bit-cleared"})
        for b in encode_bases(tier):
            for p in range(nwords(n)):
                cases.append({"k": "window", "n": n, "base": b, "p": p, "seed": seed})
    # entropy sizes BIP39 does not define (ENT must be 128..256 bits, a multiple of 32): rejected
    for n in range(0, 41 if tier == "quick" else 81):
        if n not in ENT:
            for nm in ("zero", "ones", "f0"):
                cases.append({"k": "badsize", "n": n, "nm": nm, "seed": seed})
    return cases


def size_class(n):
    return "lt16" if n < 16 else "gt32" if n > 32 else "between"


def check_entropy(res, vc, e, nm, bulk=None):
    """One entropy through the library in both directions and all spellings.  Returns number of comparisons."""
    from buidl.mnemonic import bytes_to_mnemonic, mnemonic_to_bytes

    n = len(e)
    words = R.encode(e)
    exp = " ".join(words)
    got = attempt(bytes_to_mnemonic, e, n * 8)
    bad = 0
    if got != exp:
        bad += 1
        # which word is wrong first: separates checksum (last word) from packing errors
        gw = got.split(" ") if isinstance(got, str) else []
        if isinstance(got, Rejected):
            cl = "rejected"
        elif len(gw) != len(words):
            cl = "word-count"
        else:
            diff = [i for i in range(len(words)) if gw[i] != words[i]]
            cl = "checksum-word" if diff == [len(words) - 1] else "entropy-words"
        res.violation(f"C14/encode/words/{cl}/n{n}", vc, got, exp, f"bytes_to_mnemonic differs from BIP39 for entropy {e.hex()} ({nm})")
    full_bad = False
    for form in FORMS:
        toks = spell(words, form)
        back = attempt(mnemonic_to_bytes, " ".join(toks))
        if not same(back, e):
            bad += 1
            if form == "full":
                full_bad = True
            elif full_bad:
                continue  # same failure already reported for the full spelling
            res.violation(
                f"C14/encode/decode/{'rejected' if isinstance(back, Rejected) else 'bytes-differ'}/n{n}/{'full' if form == 'full' else 'abbrev'}",
                vc, back, e, f"mnemonic_to_bytes of the reference sentence ({form} spelling) for entropy {e.hex()} ({nm})",
            )
    return 4 - bad


def run_encode(case):
    res = Res()
    vc = {"engine": "encode", "case": case}
    n = case["n"]
    if case["k"] == "badsize":
        from buidl.mnemonic import bytes_to_mnemonic

        e = base_entropy(case["seed"], n, case["nm"])
        got = attempt(bytes_to_mnemonic, e, n * 8)
        if isinstance(got, Rejected) or got is None or got is False:
            res.ok("entropy size outside 16/20/24/28/32 bytes rejected", nontrivial=("badsize", n, case["nm"]))
        else:
            res.violation(
                f"C14/encode/accepted-invalid-size/{size_class(n)}", vc, got, None,
                f"bytes_to_mnemonic({n} bytes, num_bits={n * 8}) returns a sentence; BIP39 defines only 128/160/192/224/256 bits",
            )
        return res
    if case["k"] == "one":
        e = bytes.fromhex(case["e"])
        good = check_entropy(res, vc, e, case["nm"])
        if good:
            res.ok("words==ref & decodes", nontrivial=("e", case["e"]), n=good, sample={"entropy": case["e"], "words": R.encode(e)[:3] + ["..."]} if case["nm"] == "msb" else None)
        return res
    base = base_entropy(case["seed"], n, case["base"])
    bits = R.bits_of(base) + R.checksum_bits(base)
    p = case["p"]
    entb = n * 8
    seen = set()
    good = 0
    for v in range(2048):
        nb = (bits[: 11 * p] + format(v, "011b") + bits[11 * p + 11 :])[:entb]
        if nb in seen:  # last window: only its entropy part matters
            continue
        seen.add(nb)
        e = R.bytes_of(nb)
        if e == base and p > 0:
            continue  # the base itself is counted once, in window 0
        good += check_entropy(res, vc, e, f"window{p}={v}")
    # distinct by construction: different (n, base, window, value) give different entropies
    res.bulk("words==ref & decodes", good, good // 4)
    return res


# ---------------------------------------------------------------- accept (single substitutions)
def accept_bases(tier):
    return ["zero", "f0"] if tier == "quick" else ["zero", "ones", "f0", "f1", "f2", "f3", "f4", "f5"]


def gen_accept(tier, seed):
    cases = []
    for n in ENT:
        for b in accept_bases(tier):
            for p in range(nwords(n)):
                for form in FORMS:
                    cases.append({"n": n, "base": b, "p": p, "form": form, "seed": seed})
    return cases


def run_accept(case):
    from buidl.mnemonic import mnemonic_to_bytes

    res = Res()
    vc = {"engine": "accept", "case": case}
    n, p, form = case["n"], case["p"], case["form"]
    words = R.encode(base_entropy(case["seed"], n, case["base"]))
    toks = spell(words, form)
    acc = rej = 0
    for wi, w in enumerate(R.WORDS):
        t = list(toks)
        t[p] = spell_one(w, form, p)
        exp = R.decode(t)
        got = attempt(mnemonic_to_bytes, " ".join(t))
        if same(got, exp):
            if exp is None:
                rej += 1
            else:
                acc += 1
        else:
            sp = "full"
            if form != "full":
                tf = list(words)
                tf[p] = w
                if same(attempt(mnemonic_to_bytes, " ".join(tf)), R.decode(tf)):
                    sp = "abbrev"  # the same sentence spelled with full words is handled correctly
            res.violation(
                f"C14/accept/{cls_accept(got, exp)}/{sp}",
                vc, {"word": w, "got": got}, exp, f"substituting word {wi} ({w!r}) at position {p} of {len(toks)} ({form} spelling)",
            )
    base_hit = 1  # one of the 2048 is the base sentence itself
    res.bulk("accepted==ref (checksum matches)", acc, max(0, acc - base_hit))
    res.bulk("rejected==ref (checksum differs)", rej, rej)
    return res


# ---------------------------------------------------------------- pairs (double substitutions)
def gen_pairs(tier, seed):
    cases = []
    n = 16
    last = nwords(n) - 1
    ps = [0] if tier == "quick" else list(range(last))
    for p in ps:
        for w1 in range(0, 2048, 4):
            # quick: every 4th word at position p (512 words) x all 2048 last words
            cases.append({"n": n, "base": "f0", "p": p, "q": last, "w1lo": w1, "w1hi": w1 + (1 if tier == "quick" else 4), "seed": seed})
    if tier == "thorough":
        for n, ps in ((32, [0, nwords(32) - 2]),):
            last = nwords(n) - 1
            for p in ps:
                for w1 in range(0, 2048, 4):
                    cases.append({"n": n, "base": "f0", "p": p, "q": last, "w1lo": w1, "w1hi": w1 + 4, "seed": seed})
        # arbitrary position pairs (last word untouched) and triples (p, q, last) over a sub-alphabet
        n = 16
        last = nwords(n) - 1
        for p in range(last):
            for q in range(p + 1, last):
                cases.append({"k": "grid", "n": n, "base": "f0", "p": p, "q": q, "seed": seed})
        for p, q in ((0, 1), (0, 10), (5, 6), (9, 10)):
            for w1 in SUB64[::4]:
                cases.append({"k": "triple", "n": n, "base": "f0", "p": p, "q": q, "w1": w1, "seed": seed})
    return cases


# 64-word sub-alphabet: the ends and the middle of the list plus every 38th word
SUB64 = sorted(set([0, 1, 2, 1022, 1023, 1024, 1025, 2045, 2046, 2047] + list(range(5, 2048, 38))))
assert len(SUB64) == 64, len(SUB64)


def run_pairs_sub(case):
    from buidl.mnemonic import mnemonic_to_bytes

    res = Res()
    vc = {"engine": "pairs", "case": case}
    n, p, q, k = case["n"], case["p"], case["q"], case["k"]
    words = R.encode(base_entropy(case["seed"], n, case["base"]))
    last = len(words) - 1
    acc = rej = 0
    firsts = SUB64 if k == "grid" else [case["w1"]]
    seconds = SUB64 if k == "grid" else SUB64[::4]
    thirds = [None] if k == "grid" else range(2048)
    for w1 in firsts:
        t = list(words)
        t[p] = R.WORDS[w1]
        for w2 in seconds:
            t[q] = R.WORDS[w2]
            for w3 in thirds:
                if w3 is not None:
                    t[last] = R.WORDS[w3]
                exp = R.decode(t)
                got = attempt(mnemonic_to_bytes, " ".join(t))
                if same(got, exp):
                    if exp is None:
                        rej += 1
                    else:
                        acc += 1
                else:
                    res.violation(
                        f"C14/pairs/{cls_accept(got, exp)}/{k}", vc, {"w1": R.WORDS[w1], "w2": R.WORDS[w2], "w3": None if w3 is None else R.WORDS[w3], "got": got}, exp,
                        f"substitution at positions {p},{q}" + ("" if w3 is None else f",{last}"),
                    )
    res.bulk("accepted==ref (checksum matches)", acc, acc)
    res.bulk("rejected==ref (checksum differs)", rej, rej)
    return res


def run_pairs(case):
    from buidl.mnemonic import mnemonic_to_bytes

    if case.get("k") in ("grid", "triple"):
        return run_pairs_sub(case)
    res = Res()
    vc = {"engine": "pairs", "case": case}
    n, p, q = case["n"], case["p"], case["q"]
    words = R.encode(base_entropy(case["seed"], n, case["base"]))
    acc = rej = 0
    for w1 in range(case["w1lo"], case["w1hi"]):
        t = list(words)
        t[p] = R.WORDS[w1]
        for w2 in R.WORDS:
            t[q] = w2
            exp = R.decode(t)
            got = attempt(mnemonic_to_bytes, " ".join(t))
            if same(got, exp):
                if exp is None:
                    rej += 1
                else:
                    acc += 1
            else:
                res.violation(f"C14/pairs/{cls_accept(got, exp)}/n{n}", vc, {"w1": R.WORDS[w1], "w2": w2, "got": got}, exp, f"double substitution at positions {p},{q}")
    res.bulk("accepted==ref (checksum matches)", acc, acc)
    res.bulk("rejected==ref (checksum differs)", rej, rej)
    return res


# ---------------------------------------------------------------- lengths
def gen_lengths(tier, seed):
    lmax = 27 if tier == "quick" else 50
    cases = []
    for n in ENT:
        for b in (["f0"] if tier == "quick" else ["zero", "f0", "f1"]):
            for L in range(0, lmax + 1):
                cases.append({"n": n, "base": b, "L": L, "seed": seed})
    return cases


def len_class(L):
    return f"{'short' if L < 12 else 'long' if L > 24 else 'mid'},L%3={L % 3}"


def run_lengths(case):
    from buidl.hd import HDPrivateKey
    from buidl.mnemonic import mnemonic_to_bytes

    res = Res()
    vc = {"engine": "lengths", "case": case}
    n, L = case["n"], case["L"]
    words = R.encode(base_entropy(case["seed"], n, case["base"]))
    seq = (words * 6)[:L]
    valid_len = L in R.WORD_COUNTS
    if L == 0:
        for s in ("", " ", "\n"):
            got = attempt(mnemonic_to_bytes, s)
            if not same(got, None):
                res.violation("C14/lengths/accepted-invalid-length/empty", vc, got, None, "empty sentence accepted")
            else:
                res.ok("invalid length rejected", nontrivial=("empty", s))
        return res
    acc = rej = 0
    for w in R.WORDS:
        t = seq[:-1] + [w]
        exp = R.decode(t)
        got = attempt(mnemonic_to_bytes, " ".join(t))
        if same(got, exp):
            if exp is None:
                rej += 1
            else:
                acc += 1
        elif not valid_len:
            res.violation(f"C14/lengths/accepted-invalid-length/{len_class(L)}", vc, {"last": w, "got": got}, None, f"{L}-word sentence accepted")
        else:
            res.violation(f"C14/lengths/{cls_accept(got, exp)}/L{L}", vc, {"last": w, "got": got}, exp, f"{L}-word sentence, last word {w!r}")
    res.bulk("accepted==ref (valid length, checksum matches)", acc, acc if L != len(words) else max(0, acc - 1))
    res.bulk("rejected==ref (valid length, checksum differs)" if valid_len else "rejected==ref (invalid length)", rej, rej)
    # the key-derivation entry point on one sentence per length
    exp = R.decode(seq)
    got = attempt(lambda: HDPrivateKey.from_mnemonic(" ".join(seq)).xprv())
    if exp is None:
        if not isinstance(got, Rejected):
            res.violation(
                f"C14/lengths/from_mnemonic-accepted-invalid-{'checksum' if valid_len else 'length/' + len_class(L)}", vc, got, None,
                f"HDPrivateKey.from_mnemonic accepts an invalid {L}-word sentence",
            )
        else:
            res.ok("from_mnemonic rejects invalid sentence", nontrivial=("hdlen", n, case["base"], L))
    else:
        ex = R.xprv(R.seed(seq, b""))
        if got != ex:
            res.violation(f"C14/lengths/from_mnemonic-valid/{'rejected' if isinstance(got, Rejected) else 'xprv-differs'}", vc, got, ex, f"valid {L}-word sentence: wrong key or rejected")
        else:
            res.ok("from_mnemonic xprv==ref", nontrivial=("hdlen", n, case["base"], L))
    return res


# ---------------------------------------------------------------- accept_hd
def gen_accept_hd(tier, seed):
    cases = []
    plan = []
    for n in ENT:
        last = nwords(n) - 1
        plan.append((n, "f0", last, "full"))
    plan += [(16, "f0", 0, "full"), (16, "f0", 11, "prefix"), (32, "f0", 0, "mixed")]
    if tier == "thorough":
        for n in ENT:
            last = nwords(n) - 1
            plan += [(n, "f1", last, "prefix"), (n, "f1", last // 2, "mixed"), (n, "zero", last, "mixed"), (n, "f2", 0, "full")]
        plan += [(16, "f3", p, "full") for p in range(12)]
    for n, b, p, form in plan:
        step = 32 if n == 16 else 128
        for lo in range(0, 2048, step):
            cases.append({"n": n, "base": b, "p": p, "form": form, "lo": lo, "hi": lo + step, "seed": seed})
    return cases


def run_accept_hd(case):
    from buidl.hd import HDPrivateKey

    res = Res()
    vc = {"engine": "accept_hd", "case": case}
    n, p, form = case["n"], case["p"], case["form"]
    words = R.encode(base_entropy(case["seed"], n, case["base"]))
    toks = spell(words, form)
    for wi in range(case["lo"], case["hi"]):
        w = R.WORDS[wi]
        t = list(toks)
        t[p] = spell_one(w, form, p)
        exp = R.decode(t)
        got = attempt(lambda: HDPrivateKey.from_mnemonic(" ".join(t)).xprv())
        if exp is None:
            if isinstance(got, Rejected):
                res.ok("from_mnemonic rejects (checksum differs)", nontrivial=("hd", n, case["base"], p, form, wi))
            else:
                res.violation("C14/accept_hd/accepted-invalid-checksum", vc, {"word": w, "got": got}, None, f"HDPrivateKey.from_mnemonic accepts a {len(t)}-word sentence whose checksum is wrong ({form} spelling)")
        else:
            ex = R.xprv(R.seed(t, b""))
            if got == ex:
                res.ok("from_mnemonic accepts, xprv==ref", nontrivial=("hd", n, case["base"], p, form, wi), sample={"sentence": t[:2] + ["..."] + t[-1:], "xprv": ex[:16] + "..."} if wi % 512 < 64 else None)
                continue
            sp = "full"
            if form != "full":
                tf = R.full_words(t)
                if attempt(lambda: HDPrivateKey.from_mnemonic(" ".join(tf)).xprv()) == ex:
                    sp = "abbrev"  # the same sentence in full words is handled correctly
            if isinstance(got, Rejected):
                res.violation(f"C14/accept_hd/rejected-valid/{sp}", vc, {"word": w, "got": got}, ex, f"valid {len(t)}-word sentence ({form} spelling) rejected by from_mnemonic")
            else:
                res.violation(f"C14/accept_hd/xprv-differs/{sp}", vc, {"word": w, "got": got}, ex, f"valid substituted {len(t)}-word sentence ({form} spelling) gives a different master key")
    return res


# ---------------------------------------------------------------- seed
def passphrases(tier, seed):
    """name -> bytes"""
    pp = {
        "empty": b"",
        "TREZOR": b"TREZOR",
        "utf8-nfkd": "pässwörd パス".encode("utf-8"),
        "raw-high": b"\xff\xfe\x80\x00\x01",
        "nul": b"\x00",
        "space": b" ",
        "len100": filler(seed, "c14-pp", 100, 100),
        "len200": filler(seed, "c14-pp", 200, 200),
    }
    if tier == "thorough":
        for L in (1, 99, 101, 107, 108, 116, 117, 119, 120, 128, 227, 228, 1000):
            pp[f"len{L}"] = filler(seed, "c14-pp", L, L)
        for b in range(256):
            pp[f"byte{b:02x}"] = bytes([b])
    return pp


def pp_class(name):
    if name.startswith("byte"):
        return "single-byte"
    if name.startswith("len"):
        return "long"
    return name


def gen_seed(tier, seed):
    cases = []
    pps = passphrases(tier, seed)
    ents = ["zero", "ones", "f0"] if tier == "quick" else ["zero", "ones", "msb", "f0", "f1", "f2"]
    for n in ENT:
        for b in ents:
            for form in FORMS:
                for name in pps:
                    if name.startswith("byte") and not (b == "f0" and form == "full" and n in (16, 32)):
                        continue
                    if tier == "quick" and form != "full" and name not in ("empty", "TREZOR", "raw-high"):
                        continue
                    nets = ["mainnet"]
                    if name in ("empty", "TREZOR") and form != "mixed":
                        nets.append("testnet")
                    for net in nets:
                        cases.append({"n": n, "base": b, "form": form, "pp": name, "net": net, "seed": seed})
    # passphrase given as text: the library may refuse it, or must use its NFKD UTF-8 encoding (BIP39)
    for n in (16, 32) if tier == "quick" else ENT:
        for form in ("full",) if tier == "quick" else FORMS:
            for name in STR_PP:
                cases.append({"k": "strpp", "n": n, "base": "f0", "form": form, "pp": name, "net": "mainnet", "seed": seed})
    return cases


STR_PP = {
    "str-empty": "",
    "str-ascii": "TREZOR",
    "str-latin1": "p\u00e4ssw\u00f6rd",  # precomposed: NFKD decomposes
    "str-nfc": "\u00e9",
    "str-nfd": "e\u0301",
    "str-kana": "\u30d1\u30b9",  # precomposed katakana PA: NFKD decomposes
    "str-cjk": "\u5bc6\u7801",  # invariant under NFKD
    "str-compat": "\ufb01x\u2460",  # ligature fi, circled 1: only the K (compatibility) mapping changes them
}


def strpp_class(s):
    if s.isascii():
        return "ascii"
    return "nfkd-invariant" if unicodedata.normalize("NFKD", s) == s else "needs-nfkd"


def run_seed_strpp(case):
    from buidl.hd import HDPrivateKey

    res = Res()
    vc = {"engine": "seed", "case": case}
    s = STR_PP[case["pp"]]
    toks = spell(R.encode(base_entropy(case["seed"], case["n"], case["base"])), case["form"])
    sentence = " ".join(toks)
    got = attempt(lambda: HDPrivateKey.from_mnemonic(sentence, s).xprv())
    if isinstance(got, Rejected) or got is None:
        res.ok("str passphrase rejected", nontrivial=("strpp", case["n"], case["form"], case["pp"]))
        return res
    exp = R.xprv(R.seed(toks, unicodedata.normalize("NFKD", s).encode("utf-8")))
    if got == exp:
        res.ok("str passphrase: xprv == reference with NFKD UTF-8", nontrivial=("strpp", case["n"], case["form"], case["pp"]))
    else:
        res.violation(
            f"C14/seed/str-passphrase/{strpp_class(s)}", vc, got, exp,
            f"from_mnemonic accepts the text passphrase {s!r} but the key is not the one of its NFKD UTF-8 encoding",
        )
    return res


def run_seed(case):
    from buidl.hd import HDPrivateKey

    if case.get("k") == "strpp":
        return run_seed_strpp(case)
    res = Res()
    vc = {"engine": "seed", "case": case}
    n = case["n"]
    pp = passphrases("thorough", case["seed"])[case["pp"]]
    toks = spell(R.encode(base_entropy(case["seed"], n, case["base"])), case["form"])
    sd = R.seed(toks, pp)
    m = R.master(sd)
    if m is None:
        res.skip("seed gives an invalid BIP32 master key (probability 2^-127)")
        return res
    exp = {"xprv": R.xprv(sd, case["net"]), "secret": m[0], "chain": m[1]}

    def observe(tokens, passphrase, net):
        k = attempt(HDPrivateKey.from_mnemonic, " ".join(tokens), passphrase, "m", net)
        if isinstance(k, Rejected):
            return k
        return attempt(lambda: {"xprv": k.xprv(), "secret": k.private_key.secret, "chain": bytes(k.chain_code)})

    def expect(tokens, passphrase, net):
        s_ = R.seed(tokens, passphrase)
        m_ = R.master(s_)
        return {"xprv": R.xprv(s_, net), "secret": m_[0], "chain": m_[1]}

    got = observe(toks, pp, case["net"])
    if got == exp:
        res.ok("xprv/secret/chain==ref", nontrivial=("seed", n, case["base"], case["form"], case["pp"], case["net"]), sample={"pp": case["pp"], "form": case["form"], "xprv": exp["xprv"][:20] + "..."} if case["pp"] == "utf8-nfkd" else None)
        return res
    # name the narrowest dimension that matters: undo one deviation at a time, towards (full words, empty passphrase, mainnet)
    full = R.full_words(toks)
    if case["form"] != "full" and observe(full, pp, case["net"]) == expect(full, pp, case["net"]):
        cause = "abbreviated-spelling"
    elif pp != b"" and observe(full, b"", case["net"]) == expect(full, b"", case["net"]):
        if pp != b"TREZOR" and observe(full, b"TREZOR", case["net"]) == expect(full, b"TREZOR", case["net"]):
            cause = f"passphrase-{pp_class(case['pp'])}"  # a plain ASCII passphrase works, this one does not
        else:
            cause = "passphrase-nonempty"
    elif case["net"] != "mainnet" and observe(full, b"", "mainnet") == expect(full, b"", "mainnet"):
        cause = f"network-{case['net']}"
    else:
        cause = "any-input"
    if isinstance(got, Rejected):
        res.violation(f"C14/seed/rejected/{cause}", vc, got, exp["xprv"], f"from_mnemonic refuses a valid {len(toks)}-word sentence")
        return res
    which = "+".join(k for k in ("secret", "chain", "xprv") if got.get(k) != exp[k]) if isinstance(got, dict) else "unreadable"
    res.violation(f"C14/seed/{which}/{cause}", vc, got, exp, f"master key of a {len(toks)}-word sentence differs from PBKDF2-HMAC-SHA512(2048, 'mnemonic'+passphrase) + BIP32 master derivation")
    return res


# ---------------------------------------------------------------- pbkdf2
def pw_alphabet(seed):
    return {
        "empty": b"",
        "p": b"p",
        "b64": filler(seed, "c14-pw", 64, 64),
        "b65": filler(seed, "c14-pw", 65, 65),
        "b128": filler(seed, "c14-pw", 128, 128),
        "b129": filler(seed, "c14-pw", 129, 129),
        "str-ascii": "correct horse battery staple",
        "str-utf8": "pässwördパ",
        "sentence24": " ".join(R.encode(filler(seed, "c14-pw", 32, 32))),
    }


def salt_alphabet(seed):
    return {
        "empty": b"",
        "salt": b"salt",
        "mnemonic": b"mnemonic",
        "b200": filler(seed, "c14-salt", 200, 200),
        "str-utf8": "mnemonicé",
    }


def as_bytes(x):
    return x.encode("utf-8") if isinstance(x, str) else x


def gen_pbkdf2(tier, seed):
    sizes = [1, 31, 64, 65] if tier == "quick" else [0, 1, 19, 20, 21, 31, 63, 64, 65, 128, 129]
    hists = []
    for d in (1, 2, 3):
        hists += [list(h) for h in itertools.product(sizes, repeat=d)]
    if tier == "quick":
        combos_small = [("p", "salt"), ("b129", "b200"), ("str-utf8", "str-utf8"), ("empty", "empty")]
        combos_2048 = [("sentence24", "mnemonic")]
    else:
        combos_small = [("p", "salt"), ("b129", "b200"), ("str-utf8", "str-utf8"), ("empty", "empty"), ("b64", "mnemonic"), ("b65", "salt"), ("b128", "empty"), ("str-ascii", "b200")]
        combos_2048 = [("sentence24", "mnemonic"), ("p", "salt")]
    cases = []
    for hn in ("sha1", "sha512", "default"):
        for it in (1, 2, 3, 2048):
            for pw, salt in combos_2048 if it == 2048 else combos_small:
                if hn == "default" and (it == 2048 or (pw, salt) != combos_small[0]):
                    continue
                for h in hists:
                    cases.append({"k": "reads", "hash": hn, "it": it, "pw": pw, "salt": salt, "hist": h, "seed": seed})
    # every (password, salt) pair once with a single long read, small iteration counts
    for hn in ("sha1", "sha512"):
        for it in (1, 2, 1000 if tier == "thorough" else 5):
            for pw in pw_alphabet(seed):
                for salt in salt_alphabet(seed):
                    cases.append({"k": "reads", "hash": hn, "it": it, "pw": pw, "salt": salt, "hist": [150], "seed": seed})
    # the helper used by from_mnemonic
    for pw in pw_alphabet(seed):
        for salt in salt_alphabet(seed):
            cases.append({"k": "kdf", "pw": pw, "salt": salt, "seed": seed})
    # two objects alive at the same time, reads interleaved: every history of (object, size) of depth <= 3
    dsizes = [1, 64, 65] if tier == "quick" else [0, 1, 20, 64, 65, 129]
    steps = [(o, s) for o in (0, 1) for s in dsizes]
    for cfg in DUO_CFGS:
        if cfg == "kdf2048":
            hs = [list(h) for d in (1, 2) for h in itertools.product([(o, s) for o in (0, 1) for s in (32, 64)], repeat=d)]
        else:
            hs = [list(h) for d in (1, 2, 3) for h in itertools.product(steps, repeat=d)]
        for h in hs:
            cases.append({"k": "duo", "cfg": cfg, "hist": [list(x) for x in h], "seed": seed})
    # every password length and every salt length 0..260 (both hashes, 2 iterations, one 70-byte read)
    for what in ("pw", "salt"):
        for hn in ("sha1", "sha512"):
            for L in range(0, 261):
                cases.append({"k": "sweep", "what": what, "hash": hn, "L": L, "seed": seed})
    # the helper used by from_mnemonic around the SHA-512 block size (thorough: every length 0..260)
    for L in range(120, 137) if tier == "quick" else range(0, 261):
        cases.append({"k": "kdfsweep", "L": L, "seed": seed})
    return cases


# name -> ((password, salt, iterations, hash) of object 0, the same for object 1); names of pw/salt alphabets
DUO_CFGS = {
    "same": (("p", "salt", 2, "sha512"), ("p", "salt", 2, "sha512")),
    "iterations": (("p", "salt", 1, "sha512"), ("p", "salt", 3, "sha512")),
    "password": (("p", "mnemonic", 2, "sha512"), ("b129", "mnemonic", 2, "sha512")),
    "salt": (("b65", "salt", 2, "sha512"), ("b65", "mnemonic", 2, "sha512")),
    "hash": (("str-ascii", "salt", 2, "sha1"), ("str-ascii", "salt", 2, "sha512")),
    "kdf2048": (("sentence24", "mnemonic", 2048, "sha512"), ("sentence24", "str-utf8", 2048, "sha512")),
}


def len_rel(L, hn):
    blk = hashlib.new(hn).block_size
    return "lt-block" if L < blk else "eq-block" if L == blk else "gt-block"


def run_pbkdf2_more(case):
    from buidl.pbkdf2 import PBKDF2

    res = Res()
    vc = {"engine": "pbkdf2", "case": case}
    k = case["k"]
    if k == "duo":
        pws, salts = pw_alphabet(case["seed"]), salt_alphabet(case["seed"])
        objs, streams = [], []
        need = [sum(s for o, s in case["hist"] if o == i) for i in (0, 1)]
        for i, (pw, salt, it, hn) in enumerate(DUO_CFGS[case["cfg"]]):
            o = attempt(PBKDF2, pws[pw], salts[salt], it, getattr(hashlib, hn), hmac)
            if isinstance(o, Rejected):
                res.violation(f"C14/pbkdf2/interleaved/construct/{case['cfg']}", vc, o, "object", "PBKDF2 constructor refuses the input")
                return res
            objs.append(o)
            streams.append(hashlib.pbkdf2_hmac(hn, as_bytes(pws[pw]), as_bytes(salts[salt]), it, need[i]) if need[i] else b"")
        pos = [0, 0]
        for step, (o, sz) in enumerate(case["hist"]):
            exp = streams[o][pos[o] : pos[o] + sz]
            pos[o] += sz
            got = attempt(objs[o].read, sz)
            res.states += 1
            res.transitions += 1
            if got != exp:
                touched = len({x for x, _ in case["hist"][: step + 1]})
                res.violation(
                    f"C14/pbkdf2/interleaved/{case['cfg']}/{'other-object-read-before' if touched == 2 else 'single-object'}", vc,
                    {"step": step, "object": o, "got": got}, exp,
                    f"two live PBKDF2 objects ({case['cfg']} differs): read #{step} of {sz} bytes from object {o} differs from that object's PBKDF2 stream",
                )
                return res
        res.ok("interleaved reads==hashlib streams", nontrivial=("duo", case["cfg"], tuple(map(tuple, case["hist"]))))
        return res
    if k == "sweep":
        hn, L = case["hash"], case["L"]
        v = filler(case["seed"], "c14-sweep", L, L)
        pw, salt = (v, b"mnemonic") if case["what"] == "pw" else (b"p", v)
        exp = hashlib.pbkdf2_hmac(hn, pw, salt, 2, 70)
        got = attempt(lambda: PBKDF2(pw, salt, 2, getattr(hashlib, hn), hmac).read(70))
        res.states += 1
        res.transitions += 1
        if got != exp:
            res.violation(
                f"C14/pbkdf2/length-sweep/{case['what']}/{len_rel(L, hn)}", vc, got, exp,
                f"{hn}, 2 iterations, {case['what']} of {L} bytes: 70-byte read differs from hashlib.pbkdf2_hmac",
            )
        else:
            res.ok("length sweep==hashlib", nontrivial=("sweep", case["what"], hn, L))
        return res
    if k == "kdfsweep":
        from buidl.helper import hmac_sha512_kdf

        L = case["L"]
        pw = filler(case["seed"], "c14-sweep", L, L)
        exp = hashlib.pbkdf2_hmac("sha512", pw, b"mnemonic", 2048, 64)
        got = attempt(hmac_sha512_kdf, pw, b"mnemonic")
        res.states += 1
        res.transitions += 1
        if got != exp:
            res.violation(f"C14/pbkdf2/hmac_sha512_kdf/len-{len_rel(L, 'sha512')}", vc, got, exp, f"helper.hmac_sha512_kdf with a {L}-byte password differs from PBKDF2-HMAC-SHA512 (2048 rounds, 64 bytes)")
        else:
            res.ok("hmac_sha512_kdf==hashlib (length sweep)", nontrivial=("kdfsweep", L))
        return res
    raise ValueError(k)


def run_pbkdf2(case):
    from buidl.pbkdf2 import PBKDF2

    if case["k"] in ("duo", "sweep", "kdfsweep"):
        return run_pbkdf2_more(case)
    res = Res()
    vc = {"engine": "pbkdf2", "case": case}
    pw = pw_alphabet(case["seed"])[case["pw"]]
    salt = salt_alphabet(case["seed"])[case["salt"]]
    if case["k"] == "kdf":
        from buidl.helper import hmac_sha512_kdf

        exp = hashlib.pbkdf2_hmac("sha512", as_bytes(pw), as_bytes(salt), 2048, 64)
        got = attempt(hmac_sha512_kdf, pw, salt)
        if got != exp:
            res.violation("C14/pbkdf2/hmac_sha512_kdf", vc, got, exp, "helper.hmac_sha512_kdf differs from PBKDF2-HMAC-SHA512 with 2048 rounds, 64 bytes")
        else:
            res.ok("hmac_sha512_kdf==hashlib", nontrivial=("kdf", case["pw"], case["salt"]))
        res.states += 1
        res.transitions += 1
        return res
    hn, it, hist = case["hash"], case["it"], case["hist"]
    total = sum(hist)
    ref_hash = "sha1" if hn == "default" else hn
    stream = hashlib.pbkdf2_hmac(ref_hash, as_bytes(pw), as_bytes(salt), it, total) if total else b""
    if it <= 3 and total:
        assert stream == R.pbkdf2_plain(ref_hash, as_bytes(pw), as_bytes(salt), it, total)
    if hn == "default":
        obj = attempt(PBKDF2, pw, salt, it)
    else:
        obj = attempt(PBKDF2, pw, salt, it, getattr(hashlib, hn), hmac)
    itc = "it=1" if it == 1 else "it>1"
    if isinstance(obj, Rejected):
        res.violation(f"C14/pbkdf2/construct/pw={case['pw']}/salt={case['salt']}", vc, obj, "object", "PBKDF2 constructor refuses the input")
        return res
    pos = 0
    for k, sz in enumerate(hist):
        exp = stream[pos : pos + sz]
        pos += sz
        got = attempt(obj.read, sz) if k % 2 == 0 or hn == "default" else attempt(lambda: bytes.fromhex(obj.hexread(sz)))
        res.states += 1
        res.transitions += 1
        if got != exp:
            blk = hashlib.new(ref_hash).digest_size
            crossed = "multi-block" if (pos - 1) // blk > 0 else "first-block"
            res.violation(
                f"C14/pbkdf2/read/{itc}/{'first-read' if k == 0 else 'later-read'}/{crossed}", vc,
                {"read": k, "got": got}, exp, f"{hn}, {it} iterations: read #{k} of {sz} bytes after {pos - sz} bytes differs from the PBKDF2 stream",
            )
            return res
    res.ok("all reads==hashlib stream", nontrivial=("rd", hn, it, case["pw"], case["salt"], tuple(hist)), sample={"hash": hn, "it": it, "hist": hist} if len(hist) == 3 and hist[0] == 31 and it == 2 else None)
    return res


# ---------------------------------------------------------------- generate
def gen_generate(tier, seed):
    cases = []
    for nb in (128, 160, 192, 224, 256):
        rs = {"0": 0, "1": 1, "max": (1 << nb) - 1, "msb": 1 << (nb - 1), "f": int.from_bytes(filler(seed, "c14-rand", nb, nb // 8), "big")}
        xs = {"0": 0, "1": 1, "max": (1 << nb) - 1, "2^nb": 1 << nb, "2^nb+1": (1 << nb) + 1, "2^512+3": (1 << 512) + 3}
        ts = [0.0, 1.0, 1758500000.123456] if tier == "quick" else [0.0, 1.0, 0.000001, 1758500000.123456, 4102444800.999999]
        for rn, r in rs.items():
            for xn, x in xs.items():
                for t in ts:
                    cases.append({"nb": nb, "r": str(r), "x": str(x), "t": t, "rn": rn, "xn": xn})
        # every single bit of the random source flipped (the clock and extra_entropy held fixed)
        for rn in ("0", "f") if tier == "quick" else ("0", "max", "f"):
            cases.append({"k": "bits", "nb": nb, "r": str(rs[rn]), "rn": rn, "x": "0", "t": 1758500000.123456})
    # sizes BIP39 does not define
    for nb in (0, 1, 32, 64, 96, 127, 129, 136, 144, 255, 257, 288, 512):
        cases.append({"k": "badsize", "nb": nb})
    return cases


def run_generate_more(case):
    import buidl.mnemonic as bm

    res = Res()
    vc = {"engine": "generate", "case": case}
    nb = case["nb"]
    old = (bm.randbits, bm.time)
    if case["k"] == "badsize":
        bm.randbits = lambda k: 0
        bm.time = lambda: 1.0
        try:
            got = attempt(bm.secure_mnemonic, nb)
        finally:
            bm.randbits, bm.time = old
        if isinstance(got, Rejected) or got is None or got is False:
            res.ok("size outside 128/160/192/224/256 bits rejected", nontrivial=("genbad", nb))
        else:
            res.violation("C14/generate/accepted-invalid-size", vc, got, None, f"secure_mnemonic(num_bits={nb}) returns a sentence; BIP39 defines only 128/160/192/224/256 bits")
        return res
    # k == "bits": the mocked randbits serves successive bit fields of one nb-bit value, so an implementation may
    # draw its bits in one call or in several; the clock and extra_entropy are constants
    r0, t = int(case["r"]), case["t"]

    def run_with(r):
        calls = []

        def rb(k):
            v = (r >> sum(calls)) & ((1 << k) - 1)
            calls.append(k)
            return v

        bm.randbits = rb
        bm.time = lambda: t
        try:
            return attempt(bm.secure_mnemonic, nb, int(case["x"])), calls
        finally:
            bm.randbits, bm.time = old

    base, calls = run_with(r0)
    if not calls:
        res.skip("secure_mnemonic does not draw from buidl.mnemonic.randbits: random source not observable")
        return res
    if sum(calls) < nb:
        res.violation("C14/generate/random-bits-requested", vc, {"randbits_calls": calls}, f">= {nb} bits", f"secure_mnemonic({nb}) requests only {sum(calls)} random bits for {nb} bits of entropy")
        return res
    seen = {}
    good = 0
    for i in [None] + list(range(nb)):
        got, _ = run_with(r0 if i is None else r0 ^ (1 << i))
        toks = got.split(" ") if isinstance(got, str) else []
        e = R.decode(toks)
        if e is None or len(e) * 8 != nb or any(tk not in R.INDEX for tk in toks):
            res.violation("C14/generate/invalid-sentence", vc, {"flipped_bit": i, "got": got}, f"valid BIP39 sentence for {nb} bits", "secure_mnemonic returns a sentence that is not valid BIP39 of the requested size")
            return res
        if e in seen:
            res.violation(
                "C14/generate/random-bit-ignored", vc, {"flipped_bit": i, "same_entropy_as_flipped_bit": seen[e], "entropy": e}, "distinct entropies",
                f"secure_mnemonic({nb}): flipping bit {i} of the random source gives the same entropy as flipping {seen[e]} (None = unflipped): that random bit does not reach the sentence",
            )
            return res
        seen[e] = i
        good += 1
    res.bulk("every random bit changes the entropy, valid sentence", good, good - 1)
    return res


def run_generate(case):
    import buidl.mnemonic as bm

    if case.get("k") in ("bits", "badsize"):
        return run_generate_more(case)
    res = Res()
    vc = {"engine": "generate", "case": case}
    nb, r, x, t = case["nb"], int(case["r"]), int(case["x"]), case["t"]
    old = (bm.randbits, bm.time)
    bm.randbits = lambda k: r if k == nb else 0
    bm.time = lambda: t
    try:
        got = attempt(bm.secure_mnemonic, nb, x)
    finally:
        bm.randbits, bm.time = old
    if isinstance(got, Rejected):
        res.violation(f"C14/generate/raised/{'extra>=2^n' if x >> nb else 'extra<2^n'}", vc, got, "a sentence", f"secure_mnemonic({nb}, extra_entropy={case['xn']}) with randbits={case['rn']} fails")
        return res
    toks = got.split(" ") if isinstance(got, str) else []
    e = R.decode(toks)
    if e is None or len(e) * 8 != nb or any(tk not in R.INDEX for tk in toks):
        res.violation("C14/generate/invalid-sentence", vc, got, f"valid BIP39 sentence for {nb} bits", "secure_mnemonic returns a sentence that is not valid BIP39 of the requested size")
        return res
    xm = x & ((1 << nb) - 1) if x.bit_length() > nb else x
    formula = (r ^ xm ^ int(t * 1_000_000)) == int.from_bytes(e, "big")
    res.ok("valid sentence of requested size" + (", entropy = randbits^extra^time" if formula else ", entropy differs from randbits^extra^time (not asserted)"), nontrivial=("gen", nb, case["rn"], case["xn"], t))
    return res


# ---------------------------------------------------------------- separators
SEPS = {"sp": " ", "2sp": "  ", "tab": "\t", "nl": "\n", "crlf": "\r\n", "u3000": "\u3000", "nbsp": "\u00a0", "mix": " \t\n"}
PADS = {"none": ("", ""), "lead": (" ", ""), "trail-nl": ("", "\n"), "both": ("  ", "\n ")}


def gen_separators(tier, seed):
    cases = []
    for n in ENT:
        for b in (["f0"] if tier == "quick" else ["f0", "f1", "zero"]):
            for sep in SEPS:
                for pad in PADS:
                    if sep == "sp" and pad == "none":
                        continue  # the canonical form: every other engine
                    if tier == "quick" and n not in (16, 32) and sep != "sp" and pad != "none":
                        continue  # quick: separators x paddings combined only for 12 and 24 words
                    cases.append({"n": n, "base": b, "sep": sep, "pad": pad, "all_hd": tier == "thorough", "seed": seed})
    return cases


def invalid_last(words):
    """The base sentence with its last word replaced by the next word of the list that makes the checksum wrong."""
    i = R.INDEX[words[-1]]
    for d in range(1, 2048):
        t = words[:-1] + [R.WORDS[(i + d) % 2048]]
        if R.decode(t) is None:
            return t
    raise AssertionError


def run_separators(case):
    from buidl.hd import HDPrivateKey
    from buidl.mnemonic import mnemonic_to_bytes

    res = Res()
    vc = {"engine": "separators", "case": case}
    n = case["n"]
    e = base_entropy(case["seed"], n, case["base"])
    words = R.encode(e)
    sep, (lead, trail) = SEPS[case["sep"]], PADS[case["pad"]]
    cls = "separator" if case["sep"] != "sp" else "padding"
    key = (n, case["base"], case["sep"], case["pad"])

    def write(toks):
        return lead + sep.join(toks) + trail

    bad = invalid_last(words)
    for form in FORMS:
        toks = spell(words, form)
        got = attempt(mnemonic_to_bytes, write(toks))
        if isinstance(got, Rejected) or got is None:
            res.skip("sentence written with this separator/padding is rejected by mnemonic_to_bytes (not asserted)")
        elif same(got, e):
            res.ok("accepted form decodes like the single-space sentence", nontrivial=("sepdec", key, form))
        else:
            res.violation(f"C14/separators/decoded-bytes-differ/{cls}", vc, {"form": form, "got": got}, e, f"sentence written with separator {case['sep']} / padding {case['pad']} decodes to other bytes than the same words joined by single spaces")
        # the same writing of an invalid sentence (wrong checksum; one word short) must stay rejected
        for what, t in (("checksum", spell(bad, form)), ("length", toks[:-1])):
            g = attempt(mnemonic_to_bytes, write(t))
            if same(g, None):
                res.ok(f"invalid {what} rejected in this writing", nontrivial=("sepbad", key, form, what))
            else:
                res.violation(f"C14/separators/accepted-invalid-{what}/{cls}", vc, {"form": form, "got": g}, None, f"invalid sentence ({what}) accepted when written with separator {case['sep']} / padding {case['pad']}")
    plan = [("full", b""), ("full", b"TREZOR"), ("mixed", b"")]
    if case.get("all_hd"):
        plan = [(f, pp) for f in FORMS for pp in (b"", b"TREZOR")]
    for form, pp in plan:
        toks = spell(words, form)
        got = attempt(lambda: HDPrivateKey.from_mnemonic(write(toks), pp).xprv())
        if isinstance(got, Rejected) or got is None:
            res.skip("sentence written with this separator/padding is rejected by from_mnemonic (not asserted)")
            continue
        exp = R.xprv(R.seed(toks, pp))
        if got == exp:
            res.ok("accepted form derives the key of the single-space sentence", nontrivial=("sephd", key, form, pp), sample={"sep": case["sep"], "pad": case["pad"], "xprv": exp[:16] + "..."} if case["sep"] == "crlf" and form == "full" and not pp else None)
        else:
            res.violation(
                f"C14/separators/xprv-differs/{cls}", vc, {"form": form, "pp": pp, "got": got}, exp,
                f"from_mnemonic of the sentence written with separator {case['sep']} / padding {case['pad']} gives another master key than the same words joined by single spaces",
            )
    g = attempt(lambda: HDPrivateKey.from_mnemonic(write(bad), b"").xprv())
    if isinstance(g, Rejected) or g is None:
        res.ok("from_mnemonic rejects the invalid sentence in this writing", nontrivial=("sephdbad", key))
    else:
        res.violation(f"C14/separators/from_mnemonic-accepted-invalid-checksum/{cls}", vc, g, None, f"from_mnemonic accepts a wrong-checksum sentence written with separator {case['sep']} / padding {case['pad']}")
    return res


# ---------------------------------------------------------------- tokens
def with_word(words, p, w):
    """A checksum-valid sentence that has word w at position p and otherwise the entropy bits of `words`
    (the checksum bits in the last word are recomputed).  None when p is the last position and w does not carry
    the right checksum bits.  Returns (words, entropy)."""
    idx = [R.INDEX[x] for x in words]
    idx[p] = R.INDEX[w]
    bits = "".join(format(i, "011b") for i in idx)
    ent = R.bytes_of(bits[: len(words) * 32 // 3])
    new = R.encode(ent)
    if new[p] != w:
        return None
    return new, ent


def token_variants(w):
    """(class, token) for strings derived from word w that are not w and not its four-letter prefix."""
    out = []
    for L in range(1, len(w)):
        if not (L == 4 and len(w) > 4):
            out.append(("proper-prefix", w[:L]))
    out.append(("suffixed", w + "x"))
    out.append(("suffixed", w[:4] + "z" if len(w) > 4 else w + "zz"))
    out.append(("case", w.upper()))
    out.append(("case", w.title()))
    out.append(("case", w[:4].upper()))
    seen, uniq = set(), []
    for kind, tok in out:
        if tok not in seen and tok != w:
            seen.add(tok)
            uniq.append((kind, tok))
    return uniq


def gen_tokens(tier, seed):
    cases = []
    plan = [(16, "f0", list(range(12))), (32, "f0", [0, 23])]
    if tier == "thorough":
        plan = [(n, b, list(range(nwords(n)))) for n in ENT for b in ("f0", "zero")]
    for n, b, ps in plan:
        for p in ps:
            for lo in range(0, 2048, 256):
                cases.append({"n": n, "base": b, "p": p, "lo": lo, "hi": lo + 256, "hd": p == 0 and n == 16, "seed": seed})
    return cases


def run_tokens(case):
    from buidl.hd import HDPrivateKey
    from buidl.mnemonic import mnemonic_to_bytes

    res = Res()
    vc = {"engine": "tokens", "case": case}
    n, p = case["n"], case["p"]
    words = R.encode(base_entropy(case["seed"], n, case["base"]))
    counts = {"rej": 0, "den": 0}
    for wi in range(case["lo"], case["hi"]):
        w = R.WORDS[wi]
        ctx = with_word(words, p, w)
        if ctx is None:
            continue  # last position: this word cannot close a valid sentence with these entropy bits
        t0, ent = ctx
        # honest control: the untouched sentence is accepted
        got = attempt(mnemonic_to_bytes, " ".join(t0))
        if not same(got, ent):
            res.violation("C14/tokens/control-rejected", vc, {"word": w, "got": got}, ent, f"checksum-valid sentence with {w!r} at position {p} not decoded to its entropy")
            continue
        for kind, tok in token_variants(w):
            t = list(t0)
            t[p] = tok
            s = " ".join(t)
            got = attempt(mnemonic_to_bytes, s)
            if R.resolve(tok) is not None:
                # the derived string happens to be another word (bar <- barely) : an ordinary sentence
                exp = R.decode(t)
                if same(got, exp):
                    counts["den"] += 1
                else:
                    res.violation(f"C14/tokens/{cls_accept(got, exp)}/prefix-that-is-a-word", vc, {"token": tok, "got": got}, exp, f"token {tok!r} (a word of the list) at position {p}")
                continue
            accepted = not (isinstance(got, Rejected) or got is None or got is False)
            hd = None
            if case["hd"]:
                hd = attempt(lambda: HDPrivateKey.from_mnemonic(s).xprv())
                if isinstance(hd, Rejected) or hd is None:
                    hd = None
            if not accepted and hd is None:
                counts["rej"] += 1
                continue
            # accepted although the token denotes no word.  Outside the statement's alphabet (not asserted) only when
            # it can mean nothing else: a case variant of w, or a prefix no other word starts with - and then the
            # result must be the one of w
            benign = kind == "case" or (kind == "proper-prefix" and R.candidates(tok) == [wi])
            if accepted:
                if benign and same(got, ent):
                    res.skip(f"{kind} token accepted as the only word it can denote (outside the statement's alphabet, not asserted)")
                else:
                    res.violation(
                        f"C14/tokens/accepted-non-word/{kind if not benign else kind + '-decoded-wrong'}", vc, {"token": tok, "word": w, "got": got}, None,
                        f"mnemonic_to_bytes accepts a sentence whose token #{p} {tok!r} is neither a word of the list nor a four-letter prefix",
                    )
            if hd is not None:
                if benign and hd == R.xprv(R.seed(t0, b"")):
                    res.skip(f"{kind} token accepted by from_mnemonic as the only word it can denote (outside the statement's alphabet, not asserted)")
                else:
                    res.violation(
                        f"C14/tokens/from_mnemonic-accepted-non-word/{kind if not benign else kind + '-key-wrong'}", vc, {"token": tok, "word": w, "got": hd}, None,
                        f"from_mnemonic accepts a sentence whose token #{p} {tok!r} is neither a word of the list nor a four-letter prefix",
                    )
    res.bulk("non-denoting token rejected", counts["rej"], counts["rej"])
    res.bulk("derived token that is itself a word: outcome==ref", counts["den"], counts["den"])
    return res


# ---------------------------------------------------------------- hd_args
HD_COMBOS = {  # name -> (password, network, how the arguments are passed)
    "password": (b"TREZOR", "mainnet", "positional"),
    "password+network": (b"\xff", "testnet", "keyword"),
    "network": (b"", "signet", "keyword"),
}
HD_PATHS = ["m/0", "m/0'", "m/44'/0'/0'/0/1", "m/2147483647'/2147483647"]
HD_VERSIONS = {"mainnet": ["zprv", "Zprv", "yprv"], "testnet": ["vprv", "Vprv"]}


def gen_hd_args(tier, seed):
    cases = []
    for n in ENT:
        # quick: the full 2048-word sweep for 21 and 24 words, every 8th word for 12..18 words (the accepted ones cost a key derivation)
        step = 1 if (tier == "thorough" or n >= 28) else 8
        for combo in HD_COMBOS:
            for lo in range(0, 2048, 128):
                cases.append({"k": "reject", "n": n, "base": "f0", "combo": combo, "lo": lo, "hi": lo + 128, "step": step, "seed": seed})
    for combo in HD_COMBOS:
        for L in range(9, 28):
            cases.append({"k": "length", "n": 16, "base": "f0", "combo": combo, "L": L, "seed": seed})
    # one dimension away from (mainnet, default versions, path m) at a time, then combined
    for n in (16, 32) if tier == "quick" else ENT:
        for net in ("testnet", "signet", "regtest"):
            cases.append({"k": "derive", "n": n, "base": "f1", "pp": "TREZOR", "net": net, "ver": None, "path": "m", "dim": f"network-{net}", "seed": seed})
        for ver in HD_VERSIONS["mainnet"]:
            cases.append({"k": "derive", "n": n, "base": "f1", "pp": "TREZOR", "net": "mainnet", "ver": ver, "path": "m", "dim": "versions", "seed": seed})
        for path in HD_PATHS:
            cases.append({"k": "derive", "n": n, "base": "f1", "pp": "TREZOR", "net": "mainnet", "ver": None, "path": path, "dim": "path", "seed": seed})
        for ver in HD_VERSIONS["testnet"]:
            for path in HD_PATHS[:2] if tier == "quick" else HD_PATHS:
                cases.append({"k": "derive", "n": n, "base": "f1", "pp": "", "net": "testnet", "ver": ver, "path": path, "dim": "combined", "seed": seed})
    return cases


def call_from_mnemonic(sentence, pp, net, how, path="m", pv=None, pubv=None):
    from buidl.hd import HDPrivateKey

    if how == "positional":
        if pv is None and pubv is None:
            return HDPrivateKey.from_mnemonic(sentence, pp, path, net)
        return HDPrivateKey.from_mnemonic(sentence, pp, path, net, pv, pubv)
    return HDPrivateKey.from_mnemonic(mnemonic=sentence, password=pp, path=path, network=net, priv_version=pv, pub_version=pubv)


def run_hd_args(case):
    res = Res()
    vc = {"engine": "hd_args", "case": case}
    n = case["n"]
    words = R.encode(base_entropy(case["seed"], n, case["base"]))
    k = case["k"]
    if k in ("reject", "length"):
        pp, net, how = HD_COMBOS[case["combo"]]
        refnet = "mainnet" if net == "mainnet" else "testnet"
        if k == "reject":
            seqs = []
            for wi in range(case["lo"], case["hi"], case["step"]):
                seqs.append(words[:-1] + [R.WORDS[wi]])
        else:
            seqs = [(words * 3)[: case["L"]]]
        for t in seqs:
            exp = R.decode(t)
            got = attempt(lambda: call_from_mnemonic(" ".join(t), pp, net, how).xprv())
            rejected = isinstance(got, Rejected) or got is None
            if exp is None:
                if rejected:
                    res.ok("invalid sentence rejected whatever the other arguments", nontrivial=("hdrej", k, n, case["combo"], tuple(t[-2:]), len(t)))
                else:
                    why = "checksum" if len(t) in R.WORD_COUNTS else "length"
                    res.violation(
                        f"C14/hd_args/accepted-invalid-{why}/{case['combo']}", vc, {"last": t[-1], "words": len(t), "got": got}, None,
                        f"from_mnemonic(password={pp!r}, network={net!r}) accepts a {len(t)}-word sentence with a wrong {why}",
                    )
                continue
            ex = R.xprv(R.seed(t, pp), refnet)
            if got == ex:
                res.ok("valid sentence: xprv==ref for this password/network", nontrivial=("hdacc", k, n, case["combo"], t[-1], len(t)))
            elif rejected:
                res.violation(f"C14/hd_args/rejected-valid/{case['combo']}", vc, {"last": t[-1], "got": got}, ex, f"from_mnemonic(password={pp!r}, network={net!r}) refuses a valid {len(t)}-word sentence")
            else:
                res.violation(f"C14/hd_args/xprv-differs/{case['combo']}", vc, {"last": t[-1], "got": got}, ex, f"from_mnemonic(password={pp!r}, network={net!r}): master key differs from the reference")
        return res
    # k == "derive"
    pp = case["pp"].encode()
    net, path, ver = case["net"], case["path"], case["ver"]
    master = B32.master(R.seed(words, pp))
    node = B32.derive_priv(master, B32.parse_path(path))
    if master is None or node is None:
        res.skip("seed/path gives an invalid BIP32 key (probability 2^-127)")
        return res
    dpv, dpubv = B32.default_versions(net)
    pv = B32.version_bytes(ver) if ver else None
    pubv = B32.version_bytes(B32.counterpart(ver)) if ver else None
    exp = {
        "xprv": node.ser(pv or dpv, True), "xpub": node.ser(pubv or dpubv, False), "secret": node.k, "chain": node.c,
        "depth": node.depth, "child": node.num, "pfp": node.pfp,
    }

    def observe():
        key = call_from_mnemonic(" ".join(words), pp, net, "keyword" if ver else "positional", path, pv, pubv)
        return {
            "xprv": key.xprv(), "xpub": key.xpub(), "secret": key.private_key.secret, "chain": bytes(key.chain_code),
            "depth": key.depth, "child": key.child_number, "pfp": bytes(key.parent_fingerprint),
        }

    got = attempt(observe)
    if got == exp:
        res.ok("key at path / network / versions == reference", nontrivial=("hdder", n, net, ver, path), sample={"net": net, "ver": ver, "path": path, "xprv": exp["xprv"][:20] + "..."} if case["dim"] == "combined" else None)
    elif isinstance(got, Rejected):
        res.violation(f"C14/hd_args/derive/rejected/{case['dim']}", vc, got, exp["xprv"], f"from_mnemonic(network={net!r}, path={path!r}, versions={ver}) refuses a valid sentence")
    else:
        which = "+".join(x for x in ("secret", "chain", "depth", "child", "pfp", "xprv", "xpub") if got.get(x) != exp[x])
        which = "key-material" if ("secret" in which or "chain" in which) else "serialization" if which in ("xprv", "xpub", "xprv+xpub") else "metadata"
        res.violation(f"C14/hd_args/derive/{which}/{case['dim']}", vc, got, exp, f"from_mnemonic(network={net!r}, path={path!r}, versions={ver}): key differs from PBKDF2 seed + BIP32 derivation")
    return res


# ---------------------------------------------------------------- generate_hd
def gen_generate_hd(tier, seed):
    cases = []
    nb = 256
    rs = {"0": 0, "max": (1 << nb) - 1, "f": int.from_bytes(filler(seed, "c14-rand", nb, nb // 8), "big")}
    xs = {"0": 0, "2^256+1": (1 << nb) + 1} if tier == "quick" else {"0": 0, "1": 1, "max": (1 << nb) - 1, "2^256+1": (1 << nb) + 1}
    for rn, r in rs.items():
        for xn, x in xs.items():
            for pp in ("", "TREZOR", "ff00"):
                for net in ("mainnet", "testnet", "signet"):
                    cases.append({"r": str(r), "rn": rn, "x": str(x), "xn": xn, "pp": pp, "net": net, "t": 1758500000.123456})
    return cases


GEN_PP = {"": b"", "TREZOR": b"TREZOR", "ff00": b"\xff\x00"}


def run_generate_hd(case):
    import buidl.mnemonic as bm
    from buidl.hd import HDPrivateKey

    res = Res()
    vc = {"engine": "generate_hd", "case": case}
    r, x, t, pp, net = int(case["r"]), int(case["x"]), case["t"], GEN_PP[case["pp"]], case["net"]
    old = (bm.randbits, bm.time)
    bm.randbits = lambda k: r & ((1 << k) - 1)
    bm.time = lambda: t
    try:
        got = attempt(lambda: HDPrivateKey.generate(password=pp, extra_entropy=x, network=net))
        if not isinstance(got, Rejected):
            got = attempt(lambda: (got[0], {"xprv": got[1].xprv(), "secret": got[1].private_key.secret, "chain": bytes(got[1].chain_code)}))
    finally:
        bm.randbits, bm.time = old
    if isinstance(got, Rejected):
        res.violation("C14/generate_hd/raised", vc, got, "(sentence, key)", f"HDPrivateKey.generate(password={pp!r}, extra_entropy={case['xn']}, network={net!r}) fails")
        return res
    sentence, key = got
    toks = sentence.split(" ") if isinstance(sentence, str) else []
    if R.decode(toks) is None or any(tk not in R.INDEX for tk in toks):
        res.violation("C14/generate_hd/invalid-sentence", vc, sentence, "valid BIP39 sentence of full words", "HDPrivateKey.generate returns a sentence that is not valid BIP39")
        return res
    refnet = "mainnet" if net == "mainnet" else "testnet"

    def ref(p_, n_):
        s_ = R.seed(toks, p_)
        m_ = R.master(s_)
        return {"xprv": R.xprv(s_, n_), "secret": m_[0], "chain": m_[1]}

    exp = ref(pp, refnet)
    if key == exp:
        res.ok("generated key == reference key of the generated sentence", nontrivial=("genhd", case["rn"], case["xn"], case["pp"], net), sample={"pp": case["pp"], "net": net, "xprv": exp["xprv"][:16] + "..."} if case["rn"] == "f" and case["xn"] == "0" else None)
        return res
    if pp and key == ref(b"", refnet):
        cause = "password-ignored"
    elif key.get("secret") == exp["secret"] and key.get("chain") == exp["chain"]:
        cause = f"network-{net}"
    else:
        cause = "any-input"
    res.violation(f"C14/generate_hd/key-differs/{cause}", vc, key, exp, f"HDPrivateKey.generate(password={pp!r}, network={net!r}): the returned key is not the key of the returned sentence with that password")
    return res


# ---------------------------------------------------------------- seedpicker
def entropy_with_last_word(seed, n, widx):
    """An n-byte entropy whose sentence ends with word widx (deterministic search over filler values)."""
    cs = n // 4
    top = widx >> cs  # the entropy bits carried by the last word
    want = format(widx & ((1 << cs) - 1), f"0{cs}b")
    for c in range(1 << 16):
        v = int.from_bytes(filler(seed, "c14-lastword", c * 64 + n, n), "big")
        v = (v >> (11 - cs) << (11 - cs)) | top
        e = v.to_bytes(n, "big")
        if R.checksum_bits(e) == want:
            assert R.encode(e)[-1] == R.WORDS[widx]
            return e
    raise AssertionError


def gen_seedpicker(tier, seed):
    cases = []
    for n in ENT:
        plan = [("f0", "full")]
        if n == 32 or tier == "thorough":
            plan += [("f0", "prefix"), ("w0", "full"), ("w0", "prefix"), ("w2047", "full"), ("w2047", "mixed")]
        if tier == "thorough":
            plan += [("zero", "full"), ("ones", "mixed")]
        for b, form in plan:
            e = entropy_with_last_word(seed, n, int(b[1:])) if b.startswith("w") else base_entropy(seed, n, b)
            cases.append({"k": "list", "n": n, "e": e.hex(), "nm": b, "form": form})
        for d in (1, -1, -2):
            cases.append({"k": "badlen", "n": n, "e": base_entropy(seed, n, "f0").hex(), "nm": "f0", "d": d})
    return cases


def run_seedpicker(case):
    import collections

    from buidl.hd import calc_valid_seedpicker_checksums

    res = Res()
    vc = {"engine": "seedpicker", "case": case}
    words = R.encode(bytes.fromhex(case["e"]))
    if case["k"] == "badlen":
        first = (words * 2)[: len(words) - 1 - case["d"]]
        got = attempt(lambda: list(calc_valid_seedpicker_checksums(" ".join(first))))
        if isinstance(got, Rejected) or not got:
            res.ok("no checksum word offered for a wrong number of first words", nontrivial=("spbad", case["n"], case["d"]))
        else:
            res.violation("C14/seedpicker/yielded-for-invalid-length", vc, got[:5], "nothing", f"{len(first)} first words cannot be completed to a valid sentence but {len(got)} checksum words are offered")
        return res
    form = case["form"]
    first = spell(words, form)[:-1]
    exp = [w for w in R.WORDS if R.decode(first + [w]) is not None]
    assert len(exp) == 2048 >> (len(words) // 3) and words[-1] in exp
    got = attempt(lambda: list(calc_valid_seedpicker_checksums(" ".join(first))))
    sp = "full" if form == "full" else "abbrev"
    if isinstance(got, Rejected):
        res.violation(f"C14/seedpicker/raised/{sp}", vc, got, exp[:5], f"calc_valid_seedpicker_checksums fails on {len(first)} valid first words ({form} spelling)")
        return res
    cg, ce = collections.Counter(got), collections.Counter(exp)
    missing, extra = sorted((ce - cg).elements()), sorted((cg - ce).elements(), key=str)
    if not missing and not extra:
        res.ok("offered checksum words == words the reference accepts", nontrivial=("sp", case["n"], case["nm"], form), n=len(exp), sample={"n": case["n"], "first": first[:2] + ["..."], "offered": len(got)} if case["nm"] == "w0" else None)
        return res
    if missing:
        res.violation(f"C14/seedpicker/missing-valid-word/{sp}", vc, {"missing": missing[:8], "offered": len(got)}, {"count": len(exp)}, f"{len(missing)} last words with a correct checksum are not offered ({form} spelling of the first words)")
    if extra:
        res.violation(f"C14/seedpicker/offered-invalid-word/{sp}", vc, {"extra": extra[:8], "offered": len(got)}, {"count": len(exp)}, f"{len(extra)} offered last words do not give a valid sentence ({form} spelling of the first words)")
    return res


# ---------------------------------------------------------------- registry
def engines(tier, seed):
    return [
        Engine(
            "wordlist", gen_wordlist, run_wordlist, kind="E1",
            rule="all 2048 words x every prefix length 1..len(word) (deduplicated tokens) through BIP39[...]/normalize/in, plus the whole "
            "list by iteration and by index; oracle = embedded specification list (SHA-256 pinned): full words and 4-letter prefixes must "
            "resolve to their index, any other prefix may only resolve if it denotes exactly one word. Non-trivial = distinct token",
        ),
        Engine(
            "encode", gen_encode, run_encode, kind="E1",
            rule="entropy lengths 16/20/24/28/32 bytes x {00.., ff.., 80 00.., 00..01, 7f ff.., ff..fe, fillers, every single bit set, every single "
            "bit cleared, and for each base entropy every word window x every 11-bit value}: bytes_to_mnemonic == reference words, "
            "mnemonic_to_bytes(words) == entropy in full / 4-letter-prefix / mixed spelling (4 comparisons per entropy). Plus every entropy size 0..40 "
            "bytes (thorough 0..80) other than the five valid ones x {00.., ff.., filler} with num_bits = 8*len: bytes_to_mnemonic rejects. Non-trivial = distinct entropy",
        ),
        Engine(
            "accept", gen_accept, run_accept, kind="E1",
            rule="base sentences (5 lengths x base entropies) x every position x every one of the 2048 words x 3 spellings: mnemonic_to_bytes "
            "accepts <=> reference checksum rule accepts, decoded bytes equal. Non-trivial = substituted sentence differs from the base",
        ),
        Engine(
            "pairs", gen_pairs, run_pairs, kind="E1",
            rule="12-word base x position pair (p, last) x 2048 x 2048 double substitutions: accepted <=> reference accepts, bytes equal. quick p=0 with every 4th word (512) x all 2048 last words; "
            "thorough every p < last, plus the 24-word base with p=0 and p=22, plus (12 words) every position pair p < q < last x 64 x 64 words of a fixed "
            "64-word sub-alphabet (list ends, middle, every 38th word) and the triples (p, q, last) for 4 position pairs x 16 x 16 sub-alphabet words x all 2048 "
            "last words. Non-trivial = every pair (distinct by construction)",
        ),
        Engine(
            "lengths", gen_lengths, run_lengths, kind="E1",
            rule="5 base sentences x every length 0..27 (thorough 0..50, 3 bases) obtained by truncating/repeating the base x every last word: "
            "accepted <=> length in {12,15,18,21,24} and checksum matches (mnemonic_to_bytes on all, HDPrivateKey.from_mnemonic on one per length). "
            "Non-trivial = length differs from the base's or last word substituted",
        ),
        Engine(
            "accept_hd", gen_accept_hd, run_accept_hd, kind="E1",
            rule="HDPrivateKey.from_mnemonic on every one of the 2048 words at the last position of a base sentence of each length, and at further positions/"
            "spellings: raises <=> reference rejects; accepted ones give the reference xprv. Non-trivial = each substituted sentence",
        ),
        Engine(
            "seed", gen_seed, run_seed, kind="E1",
            rule="5 lengths x base entropies x 3 spellings x passphrases {empty, TREZOR, NFKD UTF-8, raw high bytes, NUL, space, 100, 200 bytes; thorough: "
            "boundary lengths and every single byte value} x networks: xprv, secret and chain code == hashlib.pbkdf2_hmac(sha512, sentence, "
            "'mnemonic'+passphrase, 2048) + reference BIP32 master. Plus passphrases given as str {empty, ASCII, precomposed Latin, NFC / NFD e-acute, "
            "katakana, CJK, compatibility characters} on 12/24-word sentences (thorough: 5 lengths x 3 spellings): rejected, or the key of the NFKD-normalised "
            "UTF-8 encoding. Non-trivial = each case",
        ),
        Engine(
            "pbkdf2", gen_pbkdf2, run_pbkdf2, kind="E2",
            rule="vendored PBKDF2 object as a state machine: every history of read()/hexread() sizes of depth <= 3 over {1,31,64,65} (thorough "
            "{0,1,19,20,21,31,63,64,65,128,129}) x iterations {1,2,3,2048} x SHA-1/SHA-512/default x (password, salt) alphabet incl. empty, > block size, "
            "str (UTF-8) inputs: each read equals the corresponding slice of hashlib.pbkdf2_hmac; plus helper.hmac_sha512_kdf over the alphabet. "
            "Two objects alive together (6 configurations: identical, or differing in iterations / password / salt / hash, and the 2048-round BIP39 setting): "
            "every interleaving of (object, read size) of depth <= 3 over sizes {1,64,65} (thorough {0,1,20,64,65,129}; 2048 rounds: depth <= 2 over {32,64}), each read == "
            "that object's own hashlib stream. Length sweep: every password length and every salt length 0..260 x SHA-1/SHA-512 at 2 iterations (70-byte read), and "
            "hmac_sha512_kdf for every password length 120..136 (thorough 0..260). states/transitions = reads executed",
        ),
        Engine(
            "generate", gen_generate, run_generate, kind="E1",
            rule="secure_mnemonic with buidl.mnemonic.randbits/time replaced by enumerated values: 5 sizes x randbits {0,1,max,msb,filler} x extra_entropy "
            "{0,1,max,2^n,2^n+1,2^512+3} x clock values: result is a valid reference BIP39 sentence of the requested size made of full words. "
            "Sizes {0,1,32,64,96,127,129,136,144,255,257,288,512} bits are rejected. Random source: randbits serves successive bit fields of one n-bit value "
            "(recorded), clock and extra_entropy constant; 5 sizes x base values {0, filler} (thorough + all-ones) x every single bit of the value flipped: at least n "
            "random bits are requested and the n+1 resulting entropies are pairwise distinct (skipped if randbits is never called)",
        ),
        Engine(
            "separators", gen_separators, run_separators, kind="E1",
            rule="base sentence per length x separator {1 space, 2 spaces, TAB, LF, CRLF, U+3000, U+00A0, ' \\t\\n'} x padding {none, leading space, trailing LF, "
            "both} (quick: the full product for 12 and 24 words, for 15/18/21 words separators and paddings separately; thorough 3 bases, full product) x 3 spellings "
            "through mnemonic_to_bytes, and {full, full+TREZOR, mixed} (thorough all 6) through HDPrivateKey.from_mnemonic. Oracle: a writing the library rejects is "
            "not asserted (skipped); a writing it accepts must decode to the bytes / derive the reference xprv of the same words joined by single spaces; the same "
            "writing of a wrong-checksum sentence and of the sentence minus its last word must be rejected. Non-trivial = each accepted or rejected comparison",
        ),
        Engine(
            "tokens", gen_tokens, run_tokens, kind="E1",
            rule="12-word base x every position (and 24-word base x first/last position; thorough all 5 lengths x 2 bases x every position) x every one of the 2048 words w "
            "placed there with the checksum bits of the last word recomputed (a valid sentence, checked as control; at the last position only the words that carry "
            "the right checksum) x every string derived from w: each proper prefix of 1..len-1 letters other than the four-letter prefix, w+'x', prefix4+'z', upper / "
            "title case, upper-case prefix. mnemonic_to_bytes (and from_mnemonic at position 0 of the 12-word base) must reject; accepted is a violation unless the string can "
            "denote only w (case variant, or a prefix no other word starts with) and the result is the one of w (skipped: outside the statement's alphabet); derived strings that are "
            "themselves words (bar <- barely) follow the reference checksum rule. Non-trivial = each rejected derived sentence",
        ),
        Engine(
            "hd_args", gen_hd_args, run_hd_args, kind="E1",
            rule="HDPrivateKey.from_mnemonic with (password, network) in {(TREZOR, mainnet) positional, (0xff, testnet) keyword, (empty, signet) keyword} x base sentence "
            "of each length x the last word replaced by every word (quick: all 2048 for 21/24 words, every 8th for 12/15/18 words; thorough all): raises <=> reference "
            "rejects, accepted ones give the reference xprv for that password and network; x every sentence length 9..27 of the repeated 12-word base: invalid ones rejected. "
            "Derivation arguments one at a time and combined: network {testnet, signet, regtest}, SLIP-132 versions {zprv, Zprv, yprv / vprv, Vprv with their public "
            "counterparts}, path {m/0, m/0', m/44'/0'/0'/0/1, m/2147483647'/2147483647}: xprv, xpub, secret, chain code, depth, child number, parent fingerprint == "
            "independent BIP32 reference (mc.ref.bip32ref) applied to the reference seed. Non-trivial = each sentence / argument combination",
        ),
        Engine(
            "generate_hd", gen_generate_hd, run_generate_hd, kind="E1",
            rule="HDPrivateKey.generate with buidl.mnemonic.randbits/time replaced: randbits {0, all ones, filler} x extra_entropy {0, 2^256+1} (thorough + {1, 2^256-1}) x "
            "password {empty, TREZOR, 0xff00} x network {mainnet, testnet, signet}: the returned sentence is a valid reference sentence of full words and the returned "
            "key (xprv, secret, chain code) is the reference key of that sentence with that password on that network. Non-trivial = each case",
        ),
        Engine(
            "seedpicker", gen_seedpicker, run_seedpicker, kind="E1",
            rule="calc_valid_seedpicker_checksums on the first N-1 words of a base sentence of each length (full spelling; for 24 words - thorough: every length - also "
            "prefix spelling and entropies searched so that the FIRST word of the list, resp. the LAST word of the list, is a valid last word): the multiset of offered words == "
            "the words w for which the reference accepts first+[w] (128/64/32/16/8 words); x first-word counts N-2, N, N+1 (no valid total length): nothing offered. "
            "Non-trivial = each case; evaluations count the offered words",
        ),
    ]
