"""C12 — taproot output keys commit to the script tree; every leaf spendable; tampering detected.

E1 real-tree: all binary tree shapes with 1..5 leaves (thorough ..7) x internal keys of both parities x leaf
   versions on secp256k1: root, output key, private tweak, sibling-order invariance, control blocks of
   every leaf, query-order independence.
E1 real-tamper: every byte of selected control blocks / leaf scripts x {^01, ^80, +1}.
E3 toy-tree: every internal key of the toy group x shapes <= 4 leaves x every leaf, every byte of the control
   block x all 255 alternative values, differential against the reference (collisions are frequent at 5 bits,
   so the oracle is equality with the reference result, not "must differ").
"""
import itertools

from mc.core import Engine, Res, attempt, Rejected, filler_int, current_toy
from mc.ref import ec, txref

PROP = "C12"
N = ec.SECP.n


# ---------------------------------------------------------------- shapes & reference tree
def shapes(k, lo=0):
    """All binary tree shapes with k leaves; leaves numbered lo.. in left-to-right order."""
    if k == 1:
        return [lo]
    out = []
    for i in range(1, k):
        for l in shapes(i, lo):
            for r in shapes(k - i, lo + i):
                out.append([l, r])
    return out


_SCRIPT_OF = {}  # leaf index -> script id (set per case; default: every leaf has its own script)


def sid(i):
    return _SCRIPT_OF.get(i, i)


def leaf_script_bytes(i):
    """P2PK-style tapscript with a fake 32-byte key: <32 bytes> OP_CHECKSIG"""
    return b"\x20" + bytes([sid(i) + 1]) * 32 + b"\xac"


def ref_hash(node, vers):
    if isinstance(node, int):
        return txref.tapleaf_hash(leaf_script_bytes(node), vers[node])
    l, r = ref_hash(node[0], vers), ref_hash(node[1], vers)
    a, b = (l, r) if l < r else (r, l)
    return ec.tagged("TapBranch", a + b)


def ref_path(node, leaf, vers):
    """sibling hashes bottom-up, or None"""
    if isinstance(node, int):
        return [] if node == leaf else None
    for me, sib in ((0, 1), (1, 0)):
        p = ref_path(node[me], leaf, vers)
        if p is not None:
            return p + [ref_hash(node[sib], vers)]
    return None


def leaves_of(node):
    return [node] if isinstance(node, int) else leaves_of(node[0]) + leaves_of(node[1])


def swapped_variants(node):
    """the same tree with the children of each single internal node swapped"""
    if isinstance(node, int):
        return []
    out = [[node[1], node[0]]]
    out += [[v, node[1]] for v in swapped_variants(node[0])]
    out += [[node[0], v] for v in swapped_variants(node[1])]
    return out


def ref_output(c, px, root, toy):
    """(Q, parity) or None when degenerate"""
    P = c.lift_x(px)
    if P is None:
        return None
    t = int.from_bytes(ec.tagged("TapTweak", ec.b32(px) + root), "big")
    if toy:
        t %= c.n  # toy instantiation: the 256-bit hash is reduced into the 5..8-bit group
    elif t >= c.n:
        return None
    Q = c.add(P, c.mulg(t))
    if Q is None:
        return None
    return Q, Q[1] & 1, t


def build_lib(node, vers):
    from buidl.script import Script
    from buidl.taproot import TapBranch, TapLeaf

    leafobjs = {}

    def rec(nd):
        if isinstance(nd, int):
            lf = TapLeaf(Script([bytes([sid(nd) + 1]) * 32, 0xAC]), vers[nd])
            leafobjs[nd] = lf
            return lf
        return TapBranch(rec(nd[0]), rec(nd[1]))

    return rec(node), leafobjs


def pt(P):
    return None if isinstance(P, Rejected) or P is None or P.x is None else (P.x.num, P.y.num)


def check_tree(res, case, c, toy, engine):
    """Shared by real and toy engines: one (shape, key, versions) triple."""
    from buidl import pecc
    from buidl.taproot import ControlBlock
    from buidl.script import Script

    shape, d, vers = case["shape"], int(case["d"]), case["vers"]
    _SCRIPT_OF.clear()
    for i, sc in enumerate(case.get("scripts") or []):
        _SCRIPT_OF[i] = sc
    vc = {"engine": engine, "case": case}
    if toy:
        vc["toy"] = list(toy)
    root_obj, leafobjs = build_lib(shape, vers)
    exp_root = ref_hash(shape, vers)
    got_root = attempt(root_obj.hash)
    if got_root != exp_root:
        res.violation(f"C12/{engine}/merkle-root", vc, got_root, exp_root, "tree hash differs from BIP341")
        return
    res.ok("root==ref", nontrivial=("root", repr(shape), tuple(vers)), sample={"shape": shape, "leaf_versions": vers, "internal_secret": case["d"], "root": exp_root.hex()})
    # sibling order invariance
    for sw in swapped_variants(shape):
        o, _ = build_lib(sw, vers)
        if attempt(o.hash) != exp_root:
            res.violation(f"C12/{engine}/sibling-order", vc, attempt(o.hash), exp_root, "root depends on left/right order of siblings")
            return
        res.ok("root invariant under child swap")
    P = c.mulg(d)
    internal = pecc.S256Point(P[0], P[1])
    exp = ref_output(c, P[0], exp_root, toy)
    if exp is None:
        res.ok("degenerate tweak (t >= n or Q = infinity): not asserted")
        return
    Q, par, t = exp
    got = attempt(root_obj.external_pubkey, internal)
    if pt(got) != Q:
        res.violation(f"C12/{engine}/output-key", vc, pt(got), Q, "output key != lift_x(P) + H_TapTweak(P||root)*G")
        return
    res.ok(f"output key==ref(Podd={P[1]&1},Qodd={par})", nontrivial=("Q", repr(shape), d))
    # private tweak
    priv = attempt(lambda: pecc.PrivateKey(d).tweaked_key(exp_root))
    if isinstance(priv, Rejected):
        # (d_even + t) % n == 0 is the only legitimate failure
        dd = d if P[1] % 2 == 0 else c.n - d
        if (dd + t) % c.n != 0:
            res.violation(f"C12/{engine}/private-tweak", vc, repr(priv), Q, "tweaked private key cannot be computed")
            return
    elif pt(priv.point) != Q:
        res.violation(f"C12/{engine}/private-tweak", vc, pt(priv.point), Q, "tweaked private key is not the discrete log of the output key")
        return
    else:
        res.ok("privkey tweak==ref")
    # control blocks
    lv = leaves_of(shape)
    orders = [lv, lv[::-1]]
    sers = []
    for order in orders:
        ro, lo = build_lib(shape, vers)
        row = {}
        for leaf in order:
            cb = attempt(ro.control_block, internal, lo[leaf])
            row[leaf] = None if isinstance(cb, Rejected) or cb is None else attempt(cb.serialize)
        sers.append(row)
    if sers[0] != sers[1]:
        res.violation(f"C12/{engine}/query-order", vc, str(sers[0])[:200], str(sers[1])[:200], "control blocks depend on the order of queries")
        return
    for leaf in lv:
        path = ref_path(shape, leaf, vers)
        exp_cb = bytes([vers[leaf] | par]) + ec.b32(P[0]) + b"".join(path)
        got_cb = sers[0][leaf]
        if got_cb != exp_cb:
            res.violation(f"C12/{engine}/control-block", vc, got_cb, exp_cb, f"control block of leaf {leaf} differs from BIP341")
            continue
        back = attempt(ControlBlock.parse, exp_cb)
        if isinstance(back, Rejected) or attempt(back.serialize) != exp_cb:
            res.violation(f"C12/{engine}/control-block-roundtrip", vc, repr(back), exp_cb, "control block does not parse back identically")
            continue
        script = Script([bytes([sid(leaf) + 1]) * 32, 0xAC])
        assert script.raw_serialize() == leaf_script_bytes(leaf)
        ek = attempt(back.external_pubkey, script)
        if pt(ek) != Q or back.parity != par or back.tapleaf_version != vers[leaf]:
            res.violation(f"C12/{engine}/control-block-recompute", vc, (pt(ek), back.parity), (Q, par), "parsed control block does not recompute the output key and parity")
            continue
        res.ok("control block==ref & recomputes", nontrivial=("cb", repr(shape), d, leaf))
    # the SAME tree object used with other internal keys afterwards (state kept on the tree between calls)
    for d2 in case.get("also_keys", []):
        d2 = int(d2)
        P2 = c.mulg(d2)
        out2 = ref_output(c, P2[0], exp_root, toy)
        if out2 is None:
            continue
        Q2, par2, _ = out2
        internal2 = pecc.S256Point(P2[0], P2[1])
        for leaf in lv:
            exp_cb = bytes([vers[leaf] | par2]) + ec.b32(P2[0]) + b"".join(ref_path(shape, leaf, vers))
            cb = attempt(root_obj.control_block, internal2, leafobjs[leaf])
            got_cb = None if isinstance(cb, Rejected) or cb is None else attempt(cb.serialize)
            if got_cb != exp_cb:
                res.violation(f"C12/{engine}/control-block-on-reused-tree", vc, got_cb, exp_cb, f"control block of leaf {leaf} for a second internal key on the same tree object differs from BIP341 (parity {par} then {par2})")
                return
        res.ok(f"reused tree object, second key (parities {par}->{par2})", nontrivial=("reuse", repr(shape), d, d2))


def verifier_accepts(cb_bytes, script_items, Q, par, ver):
    """What a taproot verifier does with the library API: parse, recompute, compare key and parity.
    Returns True (accepted as committing to Q) / False."""
    from buidl.script import Script
    from buidl.taproot import ControlBlock

    def f():
        cb = ControlBlock.parse(cb_bytes)
        k = cb.external_pubkey(Script(script_items))
        return pt(k) is not None and k.xonly() == ec.b32(Q[0]) and k.parity == cb.parity

    r = attempt(f)
    return (not isinstance(r, Rejected)) and bool(r)


def ref_verifier_accepts(c, cb, script_bytes, Q, toy):
    """BIP341 script-path commitment check on raw bytes."""
    if len(cb) < 33 or (len(cb) - 33) % 32 or len(cb) > 33 + 128 * 32:
        return False
    ver, par = cb[0] & 0xFE, cb[0] & 1
    px = int.from_bytes(cb[1:33], "big")
    k = txref.tapleaf_hash(script_bytes, ver)
    for j in range(33, len(cb), 32):
        e = cb[j : j + 32]
        k = ec.tagged("TapBranch", k + e if k < e else e + k)
    out = ref_output(c, px, k, toy)
    if out is None:
        return False
    Q2, par2, _ = out
    return Q2[0] == Q[0] and par2 == par


# ---------------------------------------------------------------- real engines
def real_keys(seed):
    c = ec.SECP
    found = {}
    i = 0
    while len(found) < 2:
        d = filler_int(seed, "c12key", i, 1, N - 1)
        found.setdefault(c.mulg(d)[1] & 1, d)
        i += 1
    return [found[0], found[1]]


def gen_real_tree(tier, seed):
    kmax = 5 if tier == "quick" else 7
    keys = real_keys(seed)
    cases = []
    for k in range(1, kmax + 1):
        for si, sh in enumerate(shapes(k)):
            for ki, d in enumerate(keys):
                if tier == "quick" and k == 5 and (si + ki) % 2:
                    continue  # each 5-leaf shape with one of the two parities
                vers = [0xC0] * k
                cases.append({"shape": sh, "d": str(d), "vers": vers})
            if k <= 3:
                vers = [0xC2 if i % 2 else 0xC0 for i in range(k)]
                cases.append({"shape": sh, "d": str(keys[si % 2]), "vers": vers})
            if 2 <= k <= 4:
                # the same script committed under two leaf versions (first and last leaf share script 0)
                vers = [0xC0] * (k - 1) + [0xC2]
                cases.append({"shape": sh, "d": str(keys[si % 2]), "vers": vers, "scripts": [0] + list(range(1, k - 1)) + [0]})
    # reuse of one tree object with further internal keys (walked until both output-key parities occurred)
    for c_ in cases:
        if len(leaves_of(c_["shape"])) <= 3:
            c_["also_keys"] = [str(filler_int(seed, "c12also", j, 1, N - 1)) for j in range(3)]
    return cases


def run_real_tree(case):
    res = Res()
    check_tree(res, case, ec.SECP, None, "real-tree")
    return res


def gen_real_tamper(tier, seed):
    keys = real_keys(seed)
    cases = []
    trees = [([[0, 1], 2], 0), ([0, [1, 2]], 0)] if tier == "quick" else [([[0, 1], 2], 0), ([0, [1, 2]], 0), ([[0, 1], [2, 3]], 3), (0, 0)]
    for ti, (sh, leaf) in enumerate(trees):
        d = keys[ti % 2]
        nleaf = len(leaves_of(sh))
        path = ref_path(sh, leaf, [0xC0] * nleaf)
        n = 33 + 32 * len(path)
        for pos in range(n):
            cases.append({"shape": sh, "d": str(d), "leaf": leaf, "what": "cb", "pos": pos})
        if ti == 0 or tier == "thorough":
            for pos in range(34):
                cases.append({"shape": sh, "d": str(d), "leaf": leaf, "what": "script", "pos": pos})
            cases.append({"shape": sh, "d": str(d), "leaf": leaf, "what": "cb-trunc", "pos": 0})
    return cases


def run_real_tamper(case):
    res = Res()
    c = ec.SECP
    sh, d, leaf = case["shape"], int(case["d"]), case["leaf"]
    vers = [0xC0] * len(leaves_of(sh))
    root = ref_hash(sh, vers)
    P = c.mulg(d)
    Q, par, _ = ref_output(c, P[0], root, None)
    cb = bytes([0xC0 | par]) + ec.b32(P[0]) + b"".join(ref_path(sh, leaf, vers))
    script_items = [bytes([leaf + 1]) * 32, 0xAC]
    sb = leaf_script_bytes(leaf)
    vc = {"engine": "real-tamper", "case": case}
    assert ref_verifier_accepts(c, cb, sb, Q, None)
    if case["what"] == "cb-trunc":
        for cut in (1, 31, 32, 33):
            t = cb[:-cut]
            exp = ref_verifier_accepts(c, t, sb, Q, None)
            got = verifier_accepts(t, script_items, Q, par, 0xC0)
            if got and not exp:
                res.violation("C12/real-tamper/truncated-accepted", vc, got, exp, f"control block truncated by {cut} bytes still commits")
            else:
                res.ok("truncated rejected", nontrivial=("trunc", repr(sh), cut))
        return res
    for how in ("^01", "^80", "+1"):
        if case["what"] == "cb":
            b = bytearray(cb)
        else:
            b = bytearray(sb)
        v = b[case["pos"]]
        b[case["pos"]] = {"^01": v ^ 1, "^80": v ^ 0x80, "+1": (v + 1) % 256}[how]
        if case["what"] == "cb":
            exp = ref_verifier_accepts(c, bytes(b), sb, Q, None)
            got = verifier_accepts(bytes(b), script_items, Q, par, 0xC0)
        else:
            # tampered leaf script: parse the raw bytes as the verifier does (witness item -> Script)
            from io import BytesIO
            from buidl.script import Script

            exp = ref_verifier_accepts(c, cb, bytes(b), Q, None)
            scr = attempt(lambda: Script.parse(BytesIO(txref.varbytes(bytes(b)))))
            if isinstance(scr, Rejected):
                got = False
            else:
                if attempt(scr.raw_serialize) != bytes(b):
                    res.skip("tampered script bytes are not a canonical script (push length changed); commitment on re-serialised bytes not asserted")
                    continue
                got = verifier_accepts(cb, scr.commands, Q, par, 0xC0)
        if got and not exp:
            res.violation(f"C12/real-tamper/{case['what']}-accepted", vc, got, exp, f"altered {case['what']} byte {case['pos']} ({how}) still reproduces the output key and parity")
        elif got != exp:
            res.violation(f"C12/real-tamper/{case['what']}-valid-rejected", vc, got, exp, "reference accepts the altered data but the library does not")
        else:
            res.ok("tamper rejected" if not exp else "tamper benign(ref accepts)", nontrivial=(case["what"], repr(sh), case["pos"], how))
    return res


# ---------------------------------------------------------------- toy engine
def gen_toy_tree(toy):
    def g(tier, seed):
        cases = []
        kmax = 3 if tier == "quick" else 4
        for d in range(1, toy[1]):
            for k in range(1, kmax + 1):
                for sh in shapes(k):
                    case = {"toy": list(toy), "shape": sh, "d": str(d), "vers": [0xC0] * k}
                    if k <= 2:
                        case["also_keys"] = [str((d + j) % (toy[1] - 1) + 1) for j in (1, 2, 3, 4)]
                    cases.append(case)
                    if k >= 2:
                        cases.append({"toy": list(toy), "shape": sh, "d": str(d), "vers": [0xC0] * (k - 1) + [0xC2], "scripts": [0] + list(range(1, k - 1)) + [0]})
        return cases

    return g


def run_toy_tree(case):
    from buidl import pecc

    res = Res()
    toy = tuple(case["toy"])
    assert current_toy() == toy and pecc.N == toy[1]
    c = ec.toy_curve(*toy)
    eng = f"toy-tree-{toy[0]}"
    check_tree(res, case, c, toy, eng)
    if res.n_violations:
        return res
    # exhaustive tamper of the first leaf's control block: every byte x all 255 other values (differential)
    sh, d, vers = case["shape"], int(case["d"]), case["vers"]
    root = ref_hash(sh, vers)
    P = c.mulg(d)
    out = ref_output(c, P[0], root, toy)
    if out is None:
        return res
    Q, par, _ = out
    leaf = leaves_of(sh)[0]
    cb = bytes([0xC0 | par]) + ec.b32(P[0]) + b"".join(ref_path(sh, leaf, vers))
    script_items = [bytes([leaf + 1]) * 32, 0xAC]
    sb = leaf_script_bytes(leaf)
    vc = {"engine": eng, "toy": list(toy), "case": case}
    # positions: header byte, the low byte of the key (only byte that matters in a toy field) and one
    # high byte, first/last byte of each path hash
    positions = [0, 1, 31, 32] + [p for j in range(33, len(cb), 32) for p in (j, j + 31)]
    for pos in positions:
        for val in range(256):
            if val == cb[pos]:
                continue
            b = bytearray(cb)
            b[pos] = val
            exp = ref_verifier_accepts(c, bytes(b), sb, Q, toy)
            got = verifier_accepts(bytes(b), script_items, Q, par, 0xC0)
            if got != exp:
                res.violation(f"C12/{eng}/tamper-{'accepted' if got else 'valid-rejected'}", vc, got, exp, f"control block byte {pos} := {val}: library and reference disagree")
                return res
            res.bulk("tamper==ref(collision)" if exp else "tamper==ref(rejected)", 1, 1)
    return res


def engines(tier, seed):
    toys = [(43, 31)] if tier == "quick" else [(43, 31), (79, 67), (67, 79)]
    es = [
        Engine("real-tree", gen_real_tree, run_real_tree, kind="E1", rule="secp256k1: every binary tree shape with 1..5 leaves (thorough ..7) x internal keys of both parities (+ mixed leaf versions for <= 3 leaves): root, child-swap invariance at every node, output key, private tweak, every leaf's control block (bytes, parse round trip, recomputation of key and parity), query-order independence"),
        Engine("real-tamper", gen_real_tamper, run_real_tamper, kind="E1", rule="secp256k1: every byte of selected control blocks (depth 1 and 2 paths, both parities) and of a leaf script x {^01, ^80, +1}, plus truncations: accepted by the library's parse+recompute+compare iff the BIP341 reference accepts"),
    ]
    for toy in toys:
        es.append(Engine(f"toy-tree-{toy[0]}", gen_toy_tree(toy), run_toy_tree, toy=toy, kind="E3", rule=f"toy curve p={toy[0]}: every internal key x every shape with <= 3 leaves (thorough 4): same checks as real-tree, plus header/key/path bytes of a control block x all 255 alternative values compared differentially with the reference (collisions at 5 bits are expected and counted)"))
    return es
